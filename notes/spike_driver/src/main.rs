#![feature(rustc_private)]
extern crate rustc_driver;
extern crate rustc_hir;
extern crate rustc_interface;
extern crate rustc_middle;
extern crate rustc_span;
extern crate rustc_data_structures;

use rustc_driver::Compilation;
use rustc_hir::def::DefKind;
use rustc_middle::mir::{TerminatorKind, Operand, Const};
use rustc_middle::ty::{self, TyCtxt, Instance, TypingEnv};

struct Cb;
impl rustc_driver::Callbacks for Cb {
    fn after_analysis<'tcx>(&mut self, _c: &rustc_interface::interface::Compiler, tcx: TyCtxt<'tcx>) -> Compilation {
        let krate = tcx.crate_name(rustc_hir::def_id::LOCAL_CRATE).to_string();
        let filter = std::env::var("SPIKE_FILTER").unwrap_or_default();
        let mut out = String::new();
        for ldid in tcx.mir_keys(()) {
            let did = ldid.to_def_id();
            let kind = tcx.def_kind(did);
            let path = tcx.def_path_str(did);
            if !filter.is_empty() && !path.contains(&filter) { continue; }
            if !matches!(kind, DefKind::Fn | DefKind::AssocFn | DefKind::Closure) { continue; }
            let steal = &tcx.mir_promoted(*ldid).0;
            if steal.is_stolen() { out.push_str(&format!("STOLEN {path}\n")); continue; }
            let body_ref = steal.borrow();
            let body = &*body_ref;
            out.push_str(&format!("FN {krate} {:?} {path} blocks={} coroutine={:?} phase={:?}\n", kind, body.basic_blocks.len(), body.coroutine.is_some(), body.phase));
            let doms = body.basic_blocks.dominators();
            for (bb, data) in body.basic_blocks.iter_enumerated() {
                if let Some(term) = &data.terminator {
                    match &term.kind {
                        TerminatorKind::Call { func, .. } => {
                            let fty = func.ty(&body.local_decls, tcx);
                            if let ty::FnDef(cdid, args) = fty.kind() {
                                let env = TypingEnv::post_analysis(tcx, did);
                                let res = Instance::try_resolve(tcx, env, *cdid, args);
                                let resolved = match res { Ok(Some(i)) => tcx.def_path_str(i.def_id()), _ => "<unresolved>".to_string() };
                                out.push_str(&format!("  {:?} call {} => {} dom_by_entry={}\n", bb, tcx.def_path_str(*cdid), resolved, doms.dominates(rustc_middle::mir::START_BLOCK, bb)));
                            } else {
                                out.push_str(&format!("  {:?} call <indirect {:?}>\n", bb, fty));
                            }
                        }
                        TerminatorKind::Assert { msg, .. } => { out.push_str(&format!("  {:?} assert {:?}\n", bb, msg)); }
                        TerminatorKind::Yield { .. } => { out.push_str(&format!("  {:?} yield\n", bb)); }
                        TerminatorKind::Drop { place, .. } => { out.push_str(&format!("  {:?} drop {:?}: {:?}\n", bb, place, place.ty(&body.local_decls, tcx).ty)); }
                        _ => {}
                    }
                }
            }
        }
        if let Ok(p) = std::env::var("SPIKE_OUT") {
            use std::io::Write;
            let mut f = std::fs::OpenOptions::new().create(true).append(true).open(format!("{p}/{krate}.{}.txt", std::process::id())).unwrap();
            f.write_all(out.as_bytes()).unwrap();
        }
        Compilation::Continue
    }
}

fn main() {
    let mut args: Vec<String> = std::env::args().collect();
    // RUSTC_WORKSPACE_WRAPPER: argv[1] is the rustc path
    args.remove(1);
    rustc_driver::run_compiler(&args, &mut Cb);
}
