#!/bin/bash
# usage: try_diffs2.sh <diff>... — evaluate all rule sets on a scratch copy of /repo with each diff applied (does not touch /repo)
S=/var/tmp/xl-try/repo
mkdir -p /var/tmp/xl-try
cd /verif
for d in "$@"; do
  echo "=== $d"
  rsync -a --delete --exclude /target --exclude .git /repo/ $S/
  [ "$d" = "-" ] || (cd $S && patch -p1 -s < "$(cd /verif; realpath "$d")") || { echo "  does not apply"; continue; }
  OUT_=$(XL_TARGET_DIR=/verif/.cache/target-rel-b bin/xl checkall --repo $S 2>/var/tmp/xl-try/err.log); N_=$(echo "$OUT_" | grep -cE ": [0-9]+ results"); echo "$OUT_" | grep -vE ": [0-9]+ results, 0 failing" | cut -c1-300; [ "$N_" -ge 17 ] || { echo "  CHECKALL INCOMPLETE ($N_/17 properties reported)"; tail -3 /var/tmp/xl-try/err.log; }
done
