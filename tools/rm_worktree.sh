#!/bin/bash
# usage: rm_worktree.sh <tag>...
for TAG in "$@"; do
  git -C /repo worktree remove --force /tmp/seed/$TAG 2>/dev/null
  rm -rf /tmp/seed/$TAG
done
git -C /repo worktree prune
