"""keep_benign.py <tag> <PROP> <i> <name> — store /tmp/seed/<tag>/OUT/refactor_<i>.diff as a benign corpus entry"""
import json, shutil, sys, os
tag, prop, i, name = sys.argv[1:5]
src = '/tmp/seed/%s/OUT/refactor_%s.diff' % (tag, i)
meta = json.load(open('/tmp/seed/%s/OUT/meta.json' % tag))
m = [x for x in meta if x['file'] == 'refactor_%s.diff' % i][0]
d = '/verif/mutants/%s' % prop
os.makedirs(d, exist_ok=True)
shutil.copy(src, os.path.join(d, 'benign_%s.diff' % name))
json.dump(dict(property=prop, rules=[], benign=True, expect=None, description='independent sub-agent refactoring (%s): %s — %s' % (tag, m['style'], m['why_equivalent']),
               suite_silent='n/a (benign; %s)' % m.get('tests_run', ''), control=False, origin='sub-agent ' + tag), open(os.path.join(d, 'benign_%s.json' % name), 'w'), indent=1)
print('kept', name)
