#!/bin/bash
# usage: mk_worktree.sh <tag> — scratch git worktree of /repo at /tmp/seed/<tag> with a warm target dir (removed again by rm_worktree.sh)
set -eu
TAG=$1
mkdir -p /tmp/seed
git -C /repo worktree add --detach /tmp/seed/$TAG HEAD >/dev/null 2>&1
cp -a /repo/target /tmp/seed/$TAG/target
mkdir -p /tmp/seed/$TAG/OUT
echo /tmp/seed/$TAG
