"""keep_seed.py <tag> <expect-key-substring> <caught: rule ids> <note>  — copy a confirmed sub-agent change into /verif/seeded/<tag>/"""
import json, os, shutil, sys
tag, expect, caught, note = sys.argv[1], sys.argv[2], sys.argv[3], sys.argv[4]
src = '/tmp/seed/%s/OUT' % tag
dst = '/verif/seeded/%s' % tag
os.makedirs(dst, exist_ok=True)
shutil.copy(os.path.join(src, 'patch.diff'), dst)
for f in os.listdir(src):
    if f.startswith('demo') and not f.endswith('.log'):
        p = os.path.join(src, f)
        if os.path.isdir(p):
            shutil.copytree(p, os.path.join(dst, f), dirs_exist_ok=True)
        else:
            shutil.copy(p, dst)
    if f == 'README.md':
        shutil.copy(os.path.join(src, f), os.path.join(dst, 'README.agent.md'))
m = json.load(open(os.path.join(src, 'meta.json')))
c = json.load(open(os.path.join(src, 'confirm.json')))
meta = dict(property=m['property'], breaks=m.get('summary'), needs=m.get('needs'), files=m.get('files'), functions=m.get('functions'),
            demo_cmd=m.get('demo_cmd'), agent_report=dict(demo_fails_with_change=m.get('demo_fails_with_change'), demo_passes_without_change=m.get('demo_passes_without_change')),
            what_i_ran=dict(script='tools/confirm_seed.sh %s (scratch worktree /tmp/seed/%s, since removed)' % (tag, tag), suite_exit_with_change=c['suite_exit'],
                            suite_passed_failed=c['suite_pass_fail'], demo_exit_with_change=c['demo_exit_with_change'], demo_exit_without_change=c['demo_exit_without_change'],
                            demo_cmd_run=c['demo_cmd_run'], confirmed=c['ok'], note=c.get('note', '')),
            expect=expect, caught_by=caught, rules=caught.split(','), note=note, origin='independent sub-agent given only the property text')
json.dump(meta, open(os.path.join(dst, 'meta.json'), 'w'), indent=1)
print('kept', dst)
