#!/bin/bash
# usage: try_benign.sh <tag> — apply each /tmp/seed/<tag>/OUT/refactor_*.diff to /repo in turn, evaluate ALL rule sets, revert.
set -u
TAG=$1
cd /verif
for d in /tmp/seed/$TAG/OUT/refactor_*.diff; do
  echo "=== $(basename $d)"
  git -C /repo apply "$d" || { echo "  does not apply"; continue; }
  bin/xl checkall 2>/dev/null | grep -vE ": [0-9]+ results, 0 failing" 
  git -C /repo checkout -- .
done
git -C /repo status --short | head -3
