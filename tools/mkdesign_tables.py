"""regenerate the generated tables of DESIGN.md (between <!-- GEN:xxx --> markers) from mutants/ and seeded/"""
import glob, json, os, re
V = os.path.dirname(os.path.dirname(os.path.abspath(__file__)))


def seeded_table():
    rows = ['| tag | property | change (one line) | needs | caught by | first-run verdict / response |', '|---|---|---|---|---|---|']
    for j in sorted(glob.glob(os.path.join(V, 'seeded', '*', 'meta.json'))):
        m = json.load(open(j))
        tag = os.path.basename(os.path.dirname(j))
        rows.append('| %s | %s | %s | %s | %s | %s |' % (tag, m['property'], (m.get('breaks') or '').replace('|', '/')[:260], (m.get('needs') or '').replace('|', '/')[:200],
                                                   m.get('caught_by', ''), (m.get('note') or '').replace('|', '/')[:420]))
    return '\n'.join(rows)


def mutant_table():
    rows = ['| property | seeded break | rule | kind | suite-silent because |', '|---|---|---|---|---|']
    for j in sorted(glob.glob(os.path.join(V, 'mutants', '*', '*.json'))):
        m = json.load(open(j))
        kind = 'benign (must stay silent)' if m.get('benign') else ('control' if m.get('control') else 'break')
        rows.append('| %s | %s: %s | %s | %s | %s |' % (m['property'], os.path.basename(j)[:-5], m['description'].replace('|', '/')[:170], ','.join(m.get('rules', [])), kind, (m.get('suite_silent') or '').replace('|', '/')[:150]))
    return '\n'.join(rows)


def benign_table():
    rows = ['| probe | property | variants | alarmed at first run | still reported | rules that alarmed | what the variants did | response |', '|---|---|---|---|---|---|---|---|']
    tot = al = st = 0
    for m in json.load(open(os.path.join(V, 'seeded', 'benign_probes.json'))):
        rows.append('| %s | %s | %d | %d | %d | %s | %s | %s |' % (m['tag'], m['property'], m['variants'], m['alarmed'], m.get('still', 0), m['rules'], m['what'], m['response']))
        tot += m['variants']
        al += m['alarmed']
        st += m.get('still', 0)
    rows.append('| **total** | | **%d** | **%d** | **%d** | | | %d of %d variants are silent now |' % (tot, al, st, tot - st, tot))
    return '\n'.join(rows)


def main():
    p = os.path.join(V, 'DESIGN.md')
    s = open(p).read()
    for name, fn in (('SEEDED', seeded_table), ('MUTANTS', mutant_table), ('BENIGN', benign_table)):
        a, b = '<!-- GEN:%s -->' % name, '<!-- /GEN:%s -->' % name
        if a in s and b in s:
            i, j = s.index(a) + len(a), s.index(b)
            s = s[:i] + '\n' + fn() + '\n' + s[j:]
    open(p, 'w').write(s)


main()
