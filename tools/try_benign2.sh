#!/bin/bash
# usage: try_benign2.sh <tag> — like try_benign.sh, but on a private scratch copy of /repo (does not touch /repo:
# usable while a selftest is running).  Scratch: /var/tmp/xl-try/repo, own target dir.
set -u
TAG=$1
S=/var/tmp/xl-try/repo
mkdir -p /var/tmp/xl-try
cd /verif
for d in /tmp/seed/$TAG/OUT/refactor_*.diff; do
  echo "=== $(basename $d)"
  rsync -a --delete --exclude /target --exclude .git /repo/ $S/
  (cd $S && patch -p1 -s < "$d") || { echo "  does not apply"; continue; }
  OUT_=$(XL_TARGET_DIR=/verif/.cache/target-rel-b bin/xl checkall --repo $S 2>/var/tmp/xl-try/err.log); N_=$(echo "$OUT_" | grep -cE ": [0-9]+ results"); echo "$OUT_" | grep -vE ": [0-9]+ results, 0 failing"; [ "$N_" -ge 17 ] || { echo "  CHECKALL INCOMPLETE ($N_/17 properties reported)"; tail -3 /var/tmp/xl-try/err.log; }
done
