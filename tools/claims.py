CLAIMS['C16'] = dict(
    technique='static analysis: MIR cut-reachability (dominance) + def-use propagation + who-may-call over the resolved call graph',
    text=('All-paths structural facts on the MIR of the upload session: the shard upload is dominated by the exhausted join of every xorb upload task; '
          'the task set is taken only after the final xorb was registered and nothing can register a xorb afterwards; every Result of a store call, '
          'upload task or upload-chain function is propagated with `?` or returned; put/upload_shard have no other caller. These facts hold for every '
          'path, hence every schedule and every failing store call — the quantifier the tests cannot reach. The store\'s own behaviour is not decided.'),
    note='C16 is claimed as a whole modulo: JoinSet::join_next returns None only when every spawned task completed; a task\'s output is its async block\'s value.')
CLAIMS['C11'] = dict(
    technique='static analysis: path-sensitive MIR must-pass-through (cut reachability with enumerated bypass edges) + def-use provenance + who-may-call',
    text=('Decides the first sentence of C11 only: every xorb handed to the store has its own chunk list (x.cas_info) registered in the session shard on every '
          'path to the upload registration (empty xorbs excepted), put has no other trigger, and after a successful shard upload the shard is exported to the '
          'cache directory and registered in the cache shard manager before the task succeeds. All-paths facts, so they hold for every file size and for both '
          'the mid-file and the aggregated route. Not decided: that the later lookup succeeds (value-level parts of C05/C09), so not the numeric "no new bytes" consequence.'),
    note='Trusted: ShardFileManager::add_cas_block indexes what it is given.')
CLAIMS['C14'] = dict(
    technique='static analysis: path-effect conservation (additive-update balance states over the loop DAG) + MIR dominance + def-use provenance',
    text=('Decides per-path conservation: in the accounting loop of process_chunks every acyclic iteration path satisfies Σtotal_chunks = cursor advance, '
          'total = deduped + new (chunks and bytes), byte operands belong to their chunk operands, defrag-prevented counters only move with new data; the '
          'session metrics snapshot that is returned is taken after all upload tasks were joined; merge_in pairs every field with its namesake and is reached on '
          'every successful path; pointer size provenance. Symbolic per-path identities hold for every input; numeric totals and the truth of a dedup answer\'s '
          'byte count (C05) are not decided.'),
    note='Inner loops of the accounting loop must not contain tracked updates (checked; fail-closed).')
CLAIMS['C20'] = dict(
    technique='static analysis: lock-guard live-range analysis on MIR (in-guard membership and ordering), cut-reachability pairing, def-use provenance',
    text=('Decides the lock-region and ordering facts that close the lost-wakeup and remove-vs-join windows: store-then-notify inside the result write guard; '
          'waiter registration created inside the result read guard on the no-result edge and awaited before reading; owner marks and completes on every Ready path and '
          'its drop handler completes on the not-completed edge; one spawn per created call after get_future; the creator always removes the call; created=true only '
          'after insert under the map mutex; no synchronous guard across a yield. Facts about what lies inside which guard hold for every schedule. '
          'Liveness as a whole (runtime fairness, cancellation of the owning caller) is not decided.'),
    note='Trusted: tokio Notify::notified() registers for notify_waiters() at creation (documented); parking_lot RwLock mutual exclusion.')
CLAIMS['C13'] = dict(
    technique='static analysis: path-effect conservation (balance states) paired with container mutations + lock-guard live-range ordering + who-may-write',
    text=('Decides structural counter conservation: every removal from / insertion into a tracked-item vector is matched on every non-error path by the '
          'corresponding num_items/total_bytes update whose operand is that element\'s len (four enumerated provenance forms incl. accumulator-then-flush), a key is '
          'dropped only when empty, eviction for exactly the added length precedes the byte add inside one state-guard live range, file deletions happen after the '
          'guard is released, and nothing else writes the counters. Per-path facts inside one lock region hold for every history and interleaving, including identical '
          'concurrent puts. The capacity arithmetic and file-system/state agreement under racing deletions are not decided.'),
    note='Error exits (`?` failing between a removal and its counter update) are excluded from the per-path obligation and reported as information.')
CLAIMS['C10'] = dict(
    technique='static analysis: MIR cut-reachability ordering (write-before-delete), def-use provenance of rename/delete operands, path-effect pairing in set_operation',
    text=('Decides the consolidation and bookkeeping clauses: inputs are listed for deletion only after the merged shard was written successfully, a finished (returned) shard '
          'is never deleted, only listed inputs are deleted, returned shards are loaded or freshly written, shard writers name their output by the hash of exactly the bytes '
          'written, and in set_operation each written record header is paired on every path with one lookup row of its own hash and an index advance of 1 + its record count '
          '(chunk rows: one per chunk written; chunk table sorted before written). The set algebra of the two-way merge (which records end up in the output) depends on hash '
          'value comparisons and is not decided.'),
    note='Process-stop model for ordering facts: completed system calls persist.')
CLAIMS['C19'] = dict(
    technique='static analysis: who-may-create census with provenance of path operands, MIR cut-reachability ordering (flush/close before rename/commit), evaluated name literals',
    text=('Process-stop model. Decides that a final name only ever appears through rename of a completely written, flushed temporary file: every file-creating call in the shard, '
          'file-utils and chunk-cache crates and in LocalClient::put gets a temp-derived path (directly or via checked pass-through parameters), flush/close success dominates the '
          'rename or the in-memory commit, rename sources are the temp files written and hash-named destinations derive from the hash of the written bytes, merged shards are '
          'written before inputs are deleted, and the final-name pattern cannot match the temp-name literals. These ordering facts hold at every crash point because they hold on every path. '
          'Durability without fsync and parsing of leftover names beyond the literal check are not decided.'),
    note='Completed system calls persist; Drop does not run on a process stop.')
CLAIMS['C05'] = dict(
    technique='static analysis: edge dominance of canonicalised comparisons (loop-relative), def-use provenance of answer fields',
    text=('Decides that every positive dedup answer is guarded by full-width hash equality: on disk the first chunk and, per loop iteration, each further chunk is compared with '
          'keyed_chunk_hash(query[i]) before its bytes are accumulated or the loop continues; in memory the run grows only past in-bounds full-hash-equal positions; the manager '
          'returns only these matchers\' answers and probes keyed collections with the keyed hash; keyed_chunk_hash applies the HMAC exactly when the shard is keyed; the deduper\'s '
          'local matcher requires position base+i. Answer fields (count, bytes, range, xorb hash) originate from the guarded accumulators. Holds for all inputs including colliding 64-bit '
          'prefixes because the guard is the 256-bit comparison. Not decided: index arithmetic values, the truncated-prefix table search (C09), last-writer-wins in the manager map.'),
    note='Comparisons are canonicalised (==/!=, operand order, PartialEq calls, negation).')
CLAIMS['C18'] = dict(
    technique='static analysis: path-sensitive must-pass-through (HMAC store before every sink, default-key bypass), edge dominance of expiry comparisons, provenance of footer fields and table counts',
    text=('Decides: on export every chunk hash that is serialised or indexed passed the HMAC with the export key unless the key is the default; xorb headers and file entries are written as read; '
          'the footer records the key; the keyed chunk table is sorted before written; each optional table is written exactly under its flag with count = rows written or 0; expiry = now + validity; '
          'at query time comparison and probe use the keyed hash (shared with C05); loading is guarded by load_expired or now <= expiry, deletion by expiry + grace <= now; register_shards is fed only '
          'from validity-filtered lists or freshly written files. All-paths facts over every shard content and flag combination. Equality of answers with the original shard\'s and the time arithmetic are not decided.'),
    note='Trusted: DataHash::hmac is the keyed hash.')
CLAIMS['C15'] = dict(
    technique='static analysis: loop-relative edge dominance of canonicalised limit comparisons with delta/operand identity, who-may-call, evaluated constants',
    text=('Decides check-then-act for both xorb limits at both accumulation sites: a chunk is appended (and its size added) only through the not-exceeding edge of the check made with '
          'exactly the delta applied, or after cut_new_xorb, which resets both; the session aggregate is merged only under both summed limits; an empty xorb never reaches put; file records reach '
          'the shard only via DataAggregator::finalize, which patches every pending segment with the xorb hash; chunk-size constants fit the 3-byte fields and header validation bounds both lengths. '
          'All-paths facts for every input and limit configuration. That each chunk is itself <= the maximum chunk size is C04 arithmetic and not decided.'),
    note='A stricter check (>= instead of >) is accepted.')
CLAIMS['C03'] = dict(
    technique='static analysis: dependency slice of the file hash (def-use provenance + who-may-write), must-pass-through for the salting step, cursor identity for input forwarding',
    text=('Decides that the file hash is a function of the ordered chunk list and the salt only: file_node_hash(self.chunk_hashes, salt); chunk_hashes is written only by one unconditional, non-looping '
          'extend from the chunks parameter on every successful path of process_chunks (so dedup answers, session contents and concurrency cannot influence it); every non-empty result is salted by a keyed hash '
          'with the salt parameter; the pointer is built from that hash and the accumulated byte total; add_data forwards contiguous slices exactly once. The partition independence of the chunk list itself (C04) '
          'and the numeric total (C14) are not decided here.'),
    note='The empty file\'s unsalted zero hash is the protocol name of the empty file (enumerated idiom).')
CLAIMS['C04'] = dict(
    technique='static analysis: pairing (every path from the Chunk construction to return passes both resets), def-use provenance of the chunk hash/data, who-may-construct',
    text=('Decides the structural necessary conditions of content-defined chunking: whenever a chunk is emitted the rolling hash and the open-chunk length are reset before returning, the chunk hash is '
          'compute_data_hash over the very buffer that becomes the chunk data (hash first), exactly the consumed prefix is appended to the buffer, and only Chunker::next constructs chunks. A missing reset is '
          'invisible to the suite because partitioned and one-shot runs share it. Equality with the reference gear-hash rule, partition independence and the min/max bounds are value-level and not decided.'),
    note='')
CLAIMS['C06'] = dict(
    technique='static analysis: def-use dataflow (hashed bytes = accepted bytes), evaluated key constants, call-graph convergence of producer and validators on one merge core',
    text=('Decides that the streaming hasher is fed exactly the prefix of the buffer that the inner writer accepted (after the write), finalised from the same state and keyed with the same evaluated 32-byte constant '
          'as the one-shot hash; that the xorb-hash producer, the uploader and both validators aggregate through the single merge core (hash_node_sequence -> compute_internal_node_hash, one caller) with (hash, length) leaves; '
          'and that the range-verification hash is one keyed hash over all input hashes in order. Equality with an independent implementation, collision behaviour and text-form round trips are value-level and not decided.'),
    note='R06b is a convergence (sufficient) fact: a behaviour-preserving re-implementation of the merge in one validator would be reported as "cannot establish agreement" by design (three copies of a persistent identity function are the hazard).')
CLAIMS['C12'] = dict(
    technique='static analysis: typestate by who-may-call/construct + edge dominance (hit only after verified-or-checksum-equal), reader/writer token agreement, guarded-index census on the scan path',
    text=('Decides: entries loaded from disk are unverified until a whole-file checksum matched; a cell is born verified only after its file was closed successfully; a hit is returned only on the verified or '
          'checksum-equal edge and its payload comes from the file opened in that iteration; damaged/missing/unparsable entries are removed and the lookup retried; the scan tracks a file only when its '
          'on-disk length equals the length in its name; name and header writers/readers walk the same token tables; range-index operations on bytes decoded from directory entries are guarded (no panic on '
          'planted names). Typestate and dominance facts hold for every history and for every content found on disk at re-open. Sub-range slicing arithmetic, model equivalence across histories and interleavings are not decided.'),
    note='K10 is decided in release semantics; the debug-only prefix assertion in initialize_state is listed as information.')
CLAIMS['C08'] = dict(
    technique='static analysis: (loop-relative) edge dominance of every acceptance-relevant comparison, taint from declared lengths to allocation sizes with enumerated sanitisers, error-variant mapping',
    text=('Decides the acceptance half: if either validator accepts, every listed comparison passed on that path — per chunk (footer hash vs recomputed hash of the decoded bytes, boundary, unpacked offset, declared vs '
          'actual length) and at the end (stream position, recomputed root vs provided hash and vs footer hash; with a parsed footer in the streaming validator also cashash, counts, boundary list, per-element hash and '
          'unpacked offset); the root is computed from recomputed hashes; format errors (and only those) become rejections; input-declared counts reach allocation sizes only through prealloc_num_chunks or a validated '
          'chunk header; the footer parser enforces agreement of its three counts. Completeness (every valid xorb accepted) and lz4_flex internals are not decided; panic-freedom is decided only for the allocation and '
          'index sites covered, not for arithmetic.'),
    note='Advisory (outside the named entry points): CasObjectInfoV1::deserialize_only_boundaries_section resizes by an unsanitised declared count.')
CLAIMS['C09'] = dict(
    technique='static analysis: edge dominance (full-hash identity), path-sensitive symbolic evaluation of record-count formulas across sibling functions, reader/writer token-table agreement, definite assignment, container-mutation/size pairing',
    text=('Decides: record identity after a truncated-prefix lookup is decided by the full 256-bit hash and a full candidate buffer is an error; every function that computes how many 48-byte records follow a file header '
          'evaluates symbolically to n*(1+V)+E on every path (seven sibling sites) and the record (de)serialisers follow that table; header, footer and the six fixed-size records are written and read with the same '
          '(width, field) token table whose widths sum to the struct size; every shard writer assigns each footer offset/count on every path before writing the footer, accumulates the byte totals for every copied record, '
          'and sorts chunk rows before writing; the in-memory size accounting is replace-aware and counts chunk rows per chunk. These hold for every table size, key distribution and flag combination. '
          'The truncated-prefix search is checked for its window invariant (bounds move only on the side justified by the three-way comparison; the scan stops only past a larger key); probe placement arithmetic and termination are not decided.'),
    note='Padding fields (_unused, _buffer) may be skipped by readers that read the whole fixed-size record first.')
CLAIMS['C07'] = dict(
    technique='static analysis: reader/writer token-table agreement (width, repetition, field), sibling-implementation agreement over an abstracted step alphabet, def-use provenance of offsets and header fields',
    text=('Decides necessary conditions of every round trip: the footer writer and its three readers walk the same token table (the async and boundaries-only readers a suffix), repeated groups are bounded by '
          'their count token and the writer rejects count/list-length disagreement; the 8-byte chunk header is written in the declaration order of the packed struct the readers reinterpret; the synchronous and '
          'asynchronous single- and multi-chunk decoders perform the same steps and the stream decoder is a thin wrapper; CasObject::serialize derives boundary offsets, slices, section offsets and the trailing '
          'footer length consistently; serialize_chunk pairs the header scheme with the bytes written. Byte equality through lz4/bg4 for every input and bg4 pointer arithmetic are not decided (dynamic tools territory).'),
    note='')

# obligations added after the fourth round of independent changes (DESIGN.md 10.3)
_ROUND4 = {
    'C03': 'Also: outside the chunker data is fed with is_final = false and the stream is closed only in SingleFileCleaner::finish (R03f); cur_chunk_len tracks the buffered chunk on every path (R03d/R04d).',
    'C04': 'Also (R04d): path-wise symbolic length accounting — on every acyclic path through Chunker::next the bytes appended to the chunk buffer equal the increase of cur_chunk_len at every chunk creation and return, so the bounds computed from cur_chunk_len speak about the chunk emitted.',
    'C06': 'Also (R06e): the text hashed for an interior node is the core::fmt rendering `{:x} : {}\\n` of (child hash, child length); a hand-assembled line is reported as not establishable.',
    'C07': 'Also (R07f): a loop that fills a buffer with partial reads reads into the unread tail buf[cursor..]; header readers may validate through parse_chunk_header.',
    'C09': 'Also (R09g): position accounting of the keyed-shard exporter, the section writers and MDBFileInfo::serialize — the byte position recorded in the footer advances by exactly the bytes written (not decided for the zipped lookup tables of serialize_from).',
    'C10': 'Also (R10d): position accounting of set_operation — every write adds its returned count to out_offset or is matched by one bulk update trips * record size that runs exactly when its loop runs.',
    'C11': 'Also (R11e): ShardFileManager::new_impl hands out a (cached or new) manager only after a successful rescan of its shard directory, so shards exported by another session or process are found.',
    'C14': 'Also (R14f): add_data forwards every byte of its buffer to the chunker exactly once and in order.',
    'C15': 'Also (R15f): the forced cut and search window are relative to cur_chunk_len, and cur_chunk_len equals the bytes buffered at every chunk creation and return (path-wise length accounting).',
    'C18': 'R18d: shards given by path are loaded through load_all_valid only; the unfiltered load_from_file is applied only to a file the same function has just written.',
    'C19': 'Also (R19f): the chunk cache\'s restart scan skips a leftover file whose name is not a cache item name instead of failing.',
}
_ROUND4['C05'] = 'Also (R05e): the shard-level query returns the complete answer of one matcher call, never a count and an entry from different candidates.'
_ROUND4['C08'] = 'Also (R08h): every Ok of the sync and async single-chunk decoders is dominated by decoded length == the length declared in the chunk header.'
_ROUND4['C09'] += ' (R09h): a record header is taken for the end-of-section bookend only by full-width equality with the all-ones hash.'
_ROUND4['C13'] = 'Also (R13e): once get has found a tracked item, every path that retries or reports a miss first removes the item from the state (a vanished file does not leave a stale entry).'
_ROUND4['C16'] = 'Also (R16h = C11-R11c): a session shard is exported to the persistent shard cache and registered there only after a successful upload_shard (not in a dry run).'
_ROUND4['C07'] += ' (R07g): the end-exclusive chunk-range accessors reject a range for its end only where end > num_chunks and serve it only where end <= num_chunks.'
_ROUND4['C10'] += ' (R10e): the two-way merge compares the full hashes of the records, never a truncated key.'
_ROUND4['C18'] += ' (R18e = C09-R09b): the exporter advances its file entry index by the records it wrote.'
_ROUND4['C20'] = 'R20c also covers early returns of the owner task through the ? operator.'
for _k, _v in _ROUND4.items():
    CLAIMS[_k]['text'] += ' ' + _v

# technique fields kept current with the evaluators added in rounds 4-5
_TECH = {
    'C03': '; path-sensitive dataflow over linear forms for the chunker (length tracking, size rules per path)',
    'C04': '; path-sensitive dataflow over linear forms on every acyclic MIR path of Chunker::next (buffered length == tracked length; skip, window and forced-cut rules per path)',
    'C15': '; path-sensitive dataflow over linear forms for the chunk size bounds (= C04); push/size-add pairing on every path',
    'C09': '; position accounting of shard writers (per-write / per-loop byte counts vs the recorded position); full-width bookend comparison',
    'C10': '; position accounting of set_operation; operand identity of the merge comparison (full hashes)',
    'C07': '; sibling cross-check of end-exclusive range validation (comparison-operator census); fill-loop cursor rule',
    'C05': '; whole-value provenance of the answer returned by the shard-level query',
    'C13': '; must-pass-through of remove_item on miss/retry paths after a find',
}
for _k, _v in _TECH.items():
    if _v not in CLAIMS[_k]['technique']:
        CLAIMS[_k]['technique'] += _v
CLAIMS['C17'] = dict(
    technique='static analysis: per-path linear-form accounting of the planners\' accumulators on MIR (offset/budget move by the length of the range written; read-before-update ordering), must-pass-through (dominance) for flush, guards and the length check, def-use provenance of written slices, offsets and cache keys, closure-predicate edge analysis',
    text=('Decides structural necessary conditions of reconstruction, for both writers and both fetch paths: (R17a) in the parallel planner the output-offset accumulator advances and the '
          'byte budget shrinks by exactly end - start of the range handed to write_term, the file offset handed on is the accumulator before that advance, end <= start + budget, and a '
          'non-zero start is used only behind `index == 0` where the index numbers the terms of the whole plan; offsets are fixed before any task is spawned, so task completion order cannot influence them; (R17b) write_term opens its writer at '
          'the file_offset parameter, writes term_data[term_range], reports end - start, flushes before success, indexes only behind end <= len, and propagates every error; (R17c) the sequential '
          'writer obeys the same accounting with one writer opened at 0, writes this iteration\'s item only behind its `?`, and reports the total its budget started from; (R17d) get_one_term selects '
          'a fetch range only if it contains the term\'s chunk range, reads the offset table at (term.range.x - fetch.range.start), cuts the end before the start, merges concurrent downloads only under a key derived from the fetch range, fills the cache before trimming under '
          '(term.hash, fetched range), returns cold data only behind len == term.unpacked_length, and asks the cache for exactly (term.hash, term.range); (R17e) both planners derive the requested '
          'total identically. These are all-paths facts on the MIR. Not decided: numeric equality of output and plan, value-level agreement of the two planners, correctness of cached data (C12), '
          'the HTTP layer.'),
    note='Partial claim: each rule is a necessary condition (breaking it misplaces, truncates or shifts output for some plan within the quantifier); together they do not imply the byte-for-byte statement.')


# round 6
_ROUND6 = {
    'C11': 'Also (R11f): the chunk index built when shards are registered leaves a chunk out only because its in-xorb offset does not fit the narrow field of the index element, never on a test of another value.',
    'C05': 'Also (R05f): the deduper\'s self-reference map is emptied wherever the pending chunk list is emptied, and a hash is entered with the position its chunk is then pushed at, so the local matcher never answers with positions of a previous xorb.',
    'C12': 'R12d: the cache file header reader loops over exactly the count it read (the loop bound is the length token itself, not a value derived from it), matching the writer\'s (len, len x u32).',
    'C19': 'Also (R19g): a temporary file left by an interrupted process is never continued — every temporary name of SafeFileCreator carries a random component, or the open truncates.',
}
for _k, _v in _ROUND6.items():
    CLAIMS[_k]['text'] += ' ' + _v
_TECH6 = {
    'C05': '; paired-reset rule (must-pass-through) and insert/push ordering for the self-reference map',
    'C19': '; def-use provenance of temporary names (random source) / open-flag census',
}
for _k, _v in _TECH6.items():
    if _v not in CLAIMS[_k]['technique']:
        CLAIMS[_k]['technique'] += _v

CLAIMS['C02'] = dict(
    technique='static analysis: per-path linear-form accounting of running offsets/cursors on MIR (advance equals the length consumed; read-before-advance), def-use provenance of hash inputs and header fields, whole-pass loop recognition',
    text=('Decides two structural necessary conditions of "what is uploaded is self-consistent": (R02a) in RawXorbData::from_chunks one whole pass over the chunk slice pushes, per chunk, the record '
          '(c.hash, c.data.len(), offset) and the data c.data, the offset being a running sum advanced once per chunk by that data length and read before the advance; the xorb hash is cas_node_hash over '
          '(c.hash, c.data.len()) mapped over the same slice with no selecting or reordering adaptor; the header records that hash, the slice length and the final offset — so a xorb is named by the hash of '
          'exactly the chunks stored in it, which is what both validators recompute. (R02b) in FileDeduper::finalize each segment\'s verification hash is range_hash_from_chunks over chunk_hashes[idx .. idx + n] '
          'with n = chunk_index_end - chunk_index_start and idx a cursor advanced once per segment by exactly n (read before the advance); the record is headed by file_node_hash(chunk_hashes, salt), counts '
          'file_info.len() segments, flags verification, and flags the metadata ext that it stores. Not decided: that stored xorbs decode, that referenced xorbs exist and chunk indices are in range, that '
          'segment byte sums match, the SHA-256 of the metadata ext, and everything value-level (C06 decides the hash functions\' agreement).'),
    note='Partial claim: two clauses of the property, each a necessary condition; the statement as a whole (numerical equalities over stored artefacts) is not decided by static analysis here.')

# C01: a claim for the merge mechanism (xl/rules_c01.py, R01a/R01b) was drafted in round 6 and WITHDRAWN after its benign wave (5 of 6 behaviour-preserving
# refactorings of DataAggregator::merge_in/finalize raised a report); see DESIGN.md section 5 C01 and notes/withdrawn_c01/.
