CLAIMS['C16'] = dict(
    technique='static analysis: MIR cut-reachability (dominance) + def-use propagation + who-may-call over the resolved call graph',
    text=('All-paths structural facts on the MIR of the upload session: the shard upload is dominated by the exhausted join of every xorb upload task; '
          'the task set is taken only after the final xorb was registered and nothing can register a xorb afterwards; every Result of a store call, '
          'upload task or upload-chain function is propagated with `?` or returned; put/upload_shard have no other caller. These facts hold for every '
          'path, hence every schedule and every failing store call — the quantifier the tests cannot reach. The store\'s own behaviour is not decided.'),
    note='C16 is claimed as a whole modulo: JoinSet::join_next returns None only when every spawned task completed; a task\'s output is its async block\'s value.')
