"""keep_diff.py <PROP> <name> <diff file> <benign|expect-key> <rules,comma> <description> — store a hand-written diff as a corpus entry"""
import json, os, shutil, sys
prop, name, src, exp, rules, desc = sys.argv[1:7]
d = '/verif/mutants/%s' % prop
os.makedirs(d, exist_ok=True)
benign = exp == 'benign'
shutil.copy(src, os.path.join(d, name + '.diff'))
json.dump(dict(property=prop, rules=[r for r in rules.split(',') if r and r != '-'], expect=None if benign else exp, description=desc,
               suite_silent='n/a (benign)' if benign else 'not exercised by the suite', control=False, **({'benign': True} if benign else {})),
          open(os.path.join(d, name + '.json'), 'w'), indent=1)
print('kept', prop, name)
