#!/bin/bash
# usage: try_seed.sh <patch.diff> <PROP> [<PROP>...] — apply a seeded change to /repo, run the quick checks, undo it.
set -u
P=$1; shift
cd /verif
git -C /repo apply "$P" || { echo "patch does not apply to /repo"; exit 2; }
for prop in "$@"; do
  XL_EVID_DIR=/var/tmp/xl-seed-evidence bin/xl check $prop --tier quick | grep -vE "^\[xl\]"
done
git -C /repo checkout -- .
git -C /repo status --short | head -3
