"""helper to author seeded breaks: mk(prop, name, rules, expect, desc, silent, edits, control=False)
edits = [(relative file, old text, new text)] applied to /repo's current content; writes mutants/<prop>/<name>.{diff,json}"""
import difflib, json, os
VERIF = os.path.dirname(os.path.dirname(os.path.abspath(__file__)))


def mk(prop, name, rules, expect, desc, silent, edits, control=False, benign=False):
    d = os.path.join(VERIF, 'mutants', prop)
    os.makedirs(d, exist_ok=True)
    out = []
    byfile = {}
    for f, old, new in edits:
        byfile.setdefault(f, []).append((old, new))
    for f, eds in byfile.items():
        src = open(os.path.join('/repo', f)).read()
        dst = src
        for old, new in eds:
            if dst.count(old) != 1:
                raise SystemExit('%s/%s: pattern occurs %d times in %s: %r' % (prop, name, dst.count(old), f, old[:60]))
            dst = dst.replace(old, new)
        out.extend(difflib.unified_diff(src.splitlines(True), dst.splitlines(True), 'a/' + f, 'b/' + f))
    open(os.path.join(d, name + '.diff'), 'w').write(''.join(out))
    json.dump(dict(property=prop, rules=rules, expect=expect, description=desc, suite_silent=silent, control=control, **({'benign': True} if benign else {})),
              open(os.path.join(d, name + '.json'), 'w'), indent=1)
