"""print the sub-agent prompt for a property id and a tag (used to launch independent seeded-break agents)."""
import json, sys
pid, tag = sys.argv[1], sys.argv[2]
extra = sys.argv[3] if len(sys.argv) > 3 else ''
p = [json.loads(l) for l in open('/verif/properties.jsonl') if json.loads(l)['id'] == pid][0]
wt = '/tmp/seed/%s' % tag
print(f"""You are helping to evaluate a verification framework for the Rust repository huggingface/xet-core (client for Hugging Face Xet storage). Your job: produce ONE realistic code change to that repository that BREAKS the behavioural property below, while the repository still compiles and its existing test suite still passes, plus a demonstration that the property is broken.

## The property ({p['id']}: {p['title']})
{p['statement']}

Scope of "for all": {p['quantifier']['text']}

## Your working copy
A private git worktree of the repository is at {wt} (already created, at the repository's current HEAD). Work ONLY inside {wt}. Never read or write /repo or /verif (other than nothing at all) and do not look for verification tooling anywhere: your change must be independent of any checker.
The sandbox has NO network. Always build with: `cd {wt} && CARGO_TARGET_DIR={wt}/target cargo test --workspace --offline ...` (a warm copy of the dependency build is already in {wt}/target, the first build still takes a few minutes). The machine is shared: do not use more than 6 parallel jobs (`-j 6`).

## What to deliver
1. A change to the library code (not to tests) that violates the property. It must be the kind of mistake a maintainer could plausibly make in a refactor or "optimisation" (reordering, dropping a check, moving an update into a branch, discarding a result, wrong operand, off-by-one, an early return, using the wrong variant of a helper...). It must NOT be exposed by ordinary use: it should need something specific to manifest — a particular interleaving, a crash or fault at a particular point, a multi-step sequence of operations, an unusual input, or two cooperating sites that each look fine alone. {extra}
2. The existing test suite must still pass with your change: run `CARGO_TARGET_DIR={wt}/target cargo test --workspace --no-fail-fast --offline -j 6` and confirm 0 failures (181 unit/integration tests + a few doc tests).
3. A demonstration: a new test (preferred: a `#[test]`/`#[tokio::test]` placed in a NEW file or new test module, kept separate from the change) or a small program that FAILS (or panics / shows the wrong value) with your change applied and PASSES on the unchanged code. Actually run it both ways and record the outputs.
4. Put everything in {wt}/OUT/ :
   - `patch.diff`: `git diff` of ONLY the breaking change to library code (no demo, no OUT files), applicable with `git apply` at the repository root;
   - `demo.diff` (or demo files + exact instructions in README.md): the demonstration, applicable separately on top of either the changed or unchanged tree;
   - `meta.json`: {{"property": "{p['id']}", "summary": "<one sentence: what was changed>", "files": [...], "functions": [...], "needs": "<what specific circumstance is needed for the breakage to manifest>", "demo_cmd": "<exact command to run the demo>", "demo_fails_with_change": "<observed output summary>", "demo_passes_without_change": "<observed output summary>", "suite_passes_with_change": true}}
Keep the breaking change small (ideally < 30 changed lines). When done, reply with a short summary (what you changed, where, how it manifests, and that all three confirmations were actually run). If after serious effort you cannot find a change that keeps the suite green, say so and describe the closest attempt.""")
