"""regenerate MANIFEST.json from the table below (claimed checks) + properties.jsonl (everything else is N/A)."""
import json, os
V = os.path.dirname(os.path.dirname(os.path.abspath(__file__)))
props = [json.loads(l) for l in open(os.path.join(V, 'properties.jsonl'))]
NA = {
 'C01': 'byte-for-byte round trip over all contents/dedup structures/configurations is a relation between runtime values (segment index arithmetic, reconstruction by segment list); the one mechanism with a structural core, the index shift and hash patch of DataAggregator::merge_in/finalize, was prototyped as R01a/R01b in round 6 and withdrawn because the rule raised reports on 5 of 6 independent behaviour-preserving refactorings (DESIGN.md section 5 C01, section 7); neighbouring structural clauses are decided under C02, C11, C14, C15, C16, C17',
}
PENDING = 'static-analysis rule set for this property is not armed yet in this round (see DESIGN.md §5); not claimed until its check exists'
TRUST = ("Trusted: rustc's MIR construction/type checker (mir_promoted bodies, nightly), the xetlint extractor, documented semantics of std/tokio "
         "functions named in the rule tables. CFGs exclude unwind and coroutine-drop edges (futures polled to completion, no panics). "
         "Dynamic dispatch over-approximated by workspace impls.")
CLAIMS = {}
exec(open(os.path.join(V, 'tools', 'claims.py')).read())
checks = []
for p in props:
    c = CLAIMS.get(p['id'])
    if not c:
        continue
    checks.append(dict(
        property_id=p['id'], quick_cmd='bin/xl check %s --tier quick' % p['id'], thorough_cmd='bin/xl check %s --tier thorough' % p['id'],
        evidence_file='/verif/evidence/%s.json' % p['id'], replay_cmd_template='bin/xl explain {path}', engine='xl',
        level_claimed=dict(category='other', text=c['text'], design_ref='DESIGN.md §5 ' + p['id']),
        level_note=c.get('note', '') + ' ' + TRUST, technique=c['technique']))
na = [dict(property_id=p['id'], reason=NA.get(p['id'], PENDING)) for p in props if p['id'] not in CLAIMS]
m = dict(version=1, setup_cmd='bin/xl setup',
         hooks=dict(guard='huggingface_xet_core_verif', enable='unused: static analysis needs no instrumentation in /repo; the checks analyse the plain build',
                    baseline_off_cmd='cd /repo && cargo test --workspace --no-fail-fast --offline', source_commits=[], add_only=True),
         engines=[dict(name='xl', path='/verif/xl + /verif/xetlint', serves_properties=sorted(CLAIMS),
                       kind_free_text='custom static analysis: rustc_private MIR extractor (RUSTC_WORKSPACE_WRAPPER under cargo +nightly check) + python rule library (dominance/cut reachability, def-use origins, call graph, path effects)')],
         checks=checks, not_applicable=na,
         notes='All checks decide named structural clauses on the MIR of /repo\'s current working tree (re-extracted whenever the tree hash changes); see DESIGN.md. thorough = quick + second build configuration (debug assertions/overflow checks on) + self-validation against the seeded breaks in /verif/mutants.')
json.dump(m, open(os.path.join(V, 'MANIFEST.json'), 'w'), indent=1)
print('claimed:', sorted(CLAIMS), 'n/a:', [x['property_id'] for x in na])
