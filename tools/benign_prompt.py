"""prompt for a sub-agent that produces behaviour-preserving refactorings of the code behind a property (false-alarm probes)"""
import json, sys
pid, tag = sys.argv[1], sys.argv[2]
EXTRA = sys.argv[3] if len(sys.argv) > 3 else ''
p = [json.loads(l) for l in open('/verif/properties.jsonl') if json.loads(l)['id'] == pid][0]
wt = '/tmp/seed/%s' % tag
mech = '\n'.join('- %s (%s)' % (m['name'], m['where']) for m in p['anchors'].get('mechanism', []))
print(f"""You are helping to evaluate a verification framework for the Rust repository huggingface/xet-core. Your job here is the OPPOSITE of bug seeding: produce SIX independent, BEHAVIOUR-PRESERVING refactorings of the code that implements the property below — the kind of clean-ups a maintainer would really make — so that we can check the framework does not raise false alarms on correct code.

## The property ({p['id']}: {p['title']})
{p['statement']}

Code locations that implement it (file:line ranges are approximate):
{mech}
Files: {', '.join(p['anchors']['files'])}

## Your working copy
A private git worktree of the repository is at {wt} (at the repository's current HEAD). Work ONLY inside {wt}. Never read or write /repo or /verif. No network. Build/test with `cd {wt} && CARGO_TARGET_DIR={wt}/target cargo test -p <crate> --offline -j 6` (a warm dependency build is in {wt}/target).

## What to deliver
Six SEPARATE patches (each applies to the unchanged HEAD on its own; do not stack them), each a different style of refactoring touching the functions listed above, for example: renaming locals/parameters; restructuring a loop (while-let <-> loop+match, for <-> while with an index, iterator adaptors <-> explicit loop); replacing `?` by an explicit match that returns the converted error (or vice versa); splitting or merging conditions (a || b into two ifs, nested ifs into &&); inverting an if/else; introducing or inlining a local variable or a small private helper function in the same module; reordering independent statements; hoisting a loop-invariant computation that really is invariant; replacing a comparison by its equivalent mirrored form; early-return style <-> nested style. Each refactoring must keep behaviour EXACTLY the same for all inputs, orders of calls and failure cases (same results, same errors, same side effects in the same order where order is observable), must compile without new warnings, and the tests of the affected crate(s) must pass.
{EXTRA}
Make them substantive (not just whitespace/comments): each should change the control-flow or data-flow SHAPE of at least one of the listed functions while preserving semantics.
For each patch i in 1..6: reset the tree (`git checkout -- .`), make the change, run the affected crate's tests, then save `git diff` to {wt}/OUT/refactor_i.diff. Also write {wt}/OUT/meta.json: a list of {{"file": "refactor_i.diff", "functions": [...], "style": "<what kind of refactoring>", "why_equivalent": "<one or two sentences>", "tests_run": "<command>", "tests_passed": true}}.
Leave the tree clean at the end. Reply with a short summary of the six refactorings.""")
