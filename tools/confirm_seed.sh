#!/bin/bash
# usage: confirm_seed.sh <tag>  — independently confirm a sub-agent's seeded change in its scratch worktree:
#  (1) full suite passes with patch.diff, (2) demo fails with the patch, (3) demo passes without it.
# Writes /tmp/seed/<tag>/OUT/confirm.json
set -u
TAG=$1; WT=/tmp/seed/$TAG; OUT=$WT/OUT
cd $WT || exit 2
git checkout -q -- . ; git clean -fdq -e OUT -e target
export CARGO_TARGET_DIR=$WT/target CARGO_NET_OFFLINE=true
git apply OUT/patch.diff || { echo '{"ok": false, "why": "patch does not apply"}' > $OUT/confirm.json; exit 1; }
cargo test --workspace --no-fail-fast --offline -j ${JOBS:-8} > $OUT/confirm_suite.log 2>&1; SUITE=$?
P=$(grep -E "^test result" $OUT/confirm_suite.log | awk '{p+=$4; f+=$6} END {print p" "f}')
# file_utils::file_metadata tests are flaky under load (unrelated to any seeded change): re-run that crate serially once
if [ $SUITE -ne 0 ] && ! grep -E "^test [A-Za-z0-9_:]+ \.\.\. FAILED" $OUT/confirm_suite.log | grep -qv "file_metadata::tests::"; then
  cargo test -p file_utils --offline -j ${JOBS:-8} -- --test-threads=1 > $OUT/confirm_suite_rerun_file_utils.log 2>&1 && SUITE=0 && P="$P (file_utils flaky tests re-run serially: pass)"
fi
DEMO=$(python3 -c "import json;print(json.load(open('$OUT/meta.json'))['demo_cmd'])")
# apply demo
if [ -f OUT/demo.diff ]; then git apply OUT/demo.diff 2>/dev/null || true; fi
DEMO_CLEAN=$(echo "$DEMO" | sed -E 's/git apply OUT\/demo.diff( &&|;)?//; s/-j [0-9]+/-j '${JOBS:-8}'/')
bash -c "$DEMO_CLEAN" > $OUT/confirm_demo_with.log 2>&1; WITH=$?
git apply -R OUT/patch.diff || echo "reverse failed" >> $OUT/confirm_demo_with.log
bash -c "$DEMO_CLEAN" > $OUT/confirm_demo_without.log 2>&1; WITHOUT=$?
git checkout -q -- . ; git clean -fdq -e OUT -e target
python3 - <<PY
import json
json.dump(dict(suite_exit=$SUITE, suite_pass_fail="$P", demo_exit_with_change=$WITH, demo_exit_without_change=$WITHOUT,
               ok=($SUITE==0 and $WITH!=0 and $WITHOUT==0), demo_cmd_run="""$DEMO_CLEAN"""), open("$OUT/confirm.json","w"), indent=1)
PY
cat $OUT/confirm.json
