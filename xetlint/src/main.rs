// xetlint: fact extractor for the xet-core static checks (see /verif/DESIGN.md §3.1).
//
// Runs as RUSTC_WORKSPACE_WRAPPER under `cargo +nightly check`.  For every workspace crate it
// dumps, from `tcx.mir_promoted(def).0` (borrow-checked, type-resolved, *before* the coroutine
// state transform), one JSON fact file with every fn/closure body: locals, statements,
// terminators with resolved callees, spans, visibility, plus ADT and trait-impl tables.
// It never runs the analysed code.  One write per process.
#![feature(rustc_private)]
extern crate rustc_abi;
extern crate rustc_data_structures;
extern crate rustc_driver;
extern crate rustc_hir;
extern crate rustc_interface;
extern crate rustc_middle;
extern crate rustc_span;

use rustc_driver::Compilation;
use rustc_hir::def::DefKind;
use rustc_hir::def_id::{DefId, LOCAL_CRATE};
use rustc_middle::mir::{
    AggregateKind, BinOp, Body, BorrowKind, CastKind, Const, ConstValue, Operand, Place, ProjectionElem, Rvalue,
    StatementKind, TerminatorKind, UnOp,
};
use rustc_middle::ty::print::{with_crate_prefix, with_no_trimmed_paths, with_no_visible_paths};
use rustc_middle::ty::{self, Instance, Ty, TyCtxt, TypeVisitableExt, TypingEnv};
use rustc_span::Span;
use std::fmt::Write as _;

fn esc(s: &str, out: &mut String) {
    out.push('"');
    for c in s.chars() {
        match c {
            '"' => out.push_str("\\\""),
            '\\' => out.push_str("\\\\"),
            '\n' => out.push_str("\\n"),
            '\r' => out.push_str("\\r"),
            '\t' => out.push_str("\\t"),
            c if (c as u32) < 0x20 => {
                let _ = write!(out, "\\u{:04x}", c as u32);
            },
            c => out.push(c),
        }
    }
    out.push('"');
}

fn dpath(tcx: TyCtxt<'_>, did: DefId) -> String {
    with_no_visible_paths!(with_crate_prefix!(with_no_trimmed_paths!(tcx.def_path_str(did))))
}

fn tystr(ty: Ty<'_>) -> String {
    with_no_visible_paths!(with_crate_prefix!(with_no_trimmed_paths!(format!("{}", ty))))
}

struct Cx<'a, 'tcx> {
    tcx: TyCtxt<'tcx>,
    body: &'a Body<'tcx>,
    def: DefId,
    env: TypingEnv<'tcx>,
}

impl<'a, 'tcx> Cx<'a, 'tcx> {
    fn span(&self, sp: Span, out: &mut String) {
        // "ln": line of the (macro call-site) span, "ex": 1 when from a macro expansion, "mac": outermost macro name
        let sm = self.tcx.sess.source_map();
        let exp = sp.from_expansion();
        let cs = if exp { sp.source_callsite() } else { sp };
        let lo = sm.lookup_char_pos(cs.lo());
        let _ = write!(out, "\"ln\":{}", lo.line);
        if exp {
            out.push_str(",\"ex\":1");
            let ed = sp.ctxt().outer_expn_data();
            if let Some(mid) = ed.macro_def_id {
                out.push_str(",\"mac\":");
                esc(&dpath(self.tcx, mid), out);
            } else {
                let _ = write!(out, ",\"mac\":\"<{:?}>\"", ed.kind);
            }
        }
    }

    fn place(&self, p: &Place<'tcx>, out: &mut String) {
        let _ = write!(out, "{{\"l\":{}", p.local.as_usize());
        if !p.projection.is_empty() {
            out.push_str(",\"p\":[");
            let mut pty = rustc_middle::mir::PlaceTy::from_ty(self.body.local_decls[p.local].ty);
            for (i, elem) in p.projection.iter().enumerate() {
                if i > 0 {
                    out.push(',');
                }
                match elem {
                    ProjectionElem::Deref => out.push_str("\"*\""),
                    ProjectionElem::Field(f, _) => {
                        let mut name = String::new();
                        let mut owner = String::new();
                        match pty.ty.kind() {
                            ty::Adt(adt, _) => {
                                owner = dpath(self.tcx, adt.did());
                                let v = match pty.variant_index {
                                    Some(v) => Some(v),
                                    None if adt.is_struct() || adt.is_union() => Some(rustc_abi::FIRST_VARIANT),
                                    None => None,
                                };
                                if let Some(v) = v {
                                    if let Some(fd) = adt.variant(v).fields.get(f) {
                                        name = fd.name.to_string();
                                    }
                                }
                            },
                            ty::Tuple(_) => owner = "()".into(),
                            ty::Closure(d, _) | ty::Coroutine(d, _) | ty::CoroutineClosure(d, _) => {
                                owner = dpath(self.tcx, *d);
                                // captured variable name
                                if let Some(ld) = d.as_local() {
                                    let caps = self.tcx.closure_captures(ld);
                                    if let Some(c) = caps.get(f.as_usize()) {
                                        name = c.to_string(self.tcx);
                                    }
                                }
                            },
                            _ => {},
                        }
                        let _ = write!(out, "{{\"f\":{}", f.as_usize());
                        if !name.is_empty() {
                            out.push_str(",\"n\":");
                            esc(&name, out);
                        }
                        if !owner.is_empty() {
                            out.push_str(",\"o\":");
                            esc(&owner, out);
                        }
                        out.push('}');
                    },
                    ProjectionElem::Index(l) => {
                        let _ = write!(out, "{{\"ix\":{}}}", l.as_usize());
                    },
                    ProjectionElem::ConstantIndex { offset, from_end, .. } => {
                        let _ = write!(out, "{{\"cix\":{},\"fe\":{}}}", offset, from_end);
                    },
                    ProjectionElem::Subslice { from, to, from_end } => {
                        let _ = write!(out, "{{\"sub\":[{},{}],\"fe\":{}}}", from, to, from_end);
                    },
                    ProjectionElem::Downcast(sym, vi) => {
                        let nm = match sym {
                            Some(s) => s.to_string(),
                            None => format!("#{}", vi.as_usize()),
                        };
                        out.push_str("{\"dc\":");
                        esc(&nm, out);
                        let _ = write!(out, ",\"vi\":{}}}", vi.as_usize());
                    },
                    ProjectionElem::OpaqueCast(_) => out.push_str("\"opaque\""),
                    ProjectionElem::UnwrapUnsafeBinder(_) => out.push_str("\"unbind\""),
                }
                pty = pty.projection_ty(self.tcx, elem);
            }
            out.push(']');
        }
        out.push('}');
    }

    fn constant(&self, c: &Const<'tcx>, out: &mut String) {
        let ty = c.ty();
        out.push_str("{\"c\":1,\"ty\":");
        esc(&tystr(ty), out);
        match ty.kind() {
            ty::FnDef(did, args) => {
                out.push_str(",\"fn\":");
                esc(&dpath(self.tcx, *did), out);
                if !args.is_empty() {
                    out.push_str(",\"ga\":");
                    esc(&with_no_visible_paths!(with_crate_prefix!(with_no_trimmed_paths!(format!("{:?}", args)))), out);
                }
            },
            _ => {
                match c {
                    Const::Unevaluated(uv, _) => {
                        out.push_str(",\"item\":");
                        esc(&dpath(self.tcx, uv.def), out);
                        if let Some(p) = uv.promoted {
                            let _ = write!(out, ",\"promoted\":{}", p.as_usize());
                        }
                    },
                    _ => {},
                }
                let is_scalar = ty.is_integral() || ty.is_bool() || ty.is_char();
                if is_scalar {
                    if let Some(si) = c.try_eval_scalar_int(self.tcx, self.env) {
                        let sz = si.size();
                        let v = si.to_bits(sz);
                        if ty.is_signed() {
                            let sv = sz.sign_extend(v) as i128;
                            let _ = write!(out, ",\"v\":\"{}\"", sv);
                        } else {
                            let _ = write!(out, ",\"v\":\"{}\"", v);
                        }
                    }
                } else if let (Const::Unevaluated(..), ty::Ref(_, inner, _)) = (c, ty.kind()) {
                    // promoted / named `&[u8; N]` constants (hash keys): evaluate and dump as hex
                    if let ty::Array(elem, len) = inner.kind() {
                        if *elem == self.tcx.types.u8 {
                            if let (Some(n), Ok(cv)) = (len.try_to_target_usize(self.tcx), c.eval(self.tcx, self.env, rustc_span::DUMMY_SP)) {
                                if let ConstValue::Scalar(rustc_middle::mir::interpret::Scalar::Ptr(ptr, _)) = cv {
                                    let (prov, off) = ptr.prov_and_relative_offset();
                                    if let rustc_middle::mir::interpret::GlobalAlloc::Memory(a) = self.tcx.global_alloc(prov.alloc_id()) {
                                        let a = a.inner();
                                        let lo = off.bytes_usize();
                                        let hi = lo + n as usize;
                                        if hi <= a.size().bytes_usize() && n <= 256 {
                                            let bytes = a.inspect_with_uninit_and_ptr_outside_interpreter(lo..hi);
                                            let hex: String = bytes.iter().map(|b| format!("{:02x}", b)).collect();
                                            out.push_str(",\"hex\":");
                                            esc(&hex, out);
                                        }
                                    }
                                }
                            }
                        }
                    }
                } else if let Const::Val(ConstValue::Scalar(rustc_middle::mir::interpret::Scalar::Ptr(ptr, _)), _) = c {
                    // `&[u8; N]` literals (format_args! templates, byte strings): dump the bytes (lossy)
                    if let ty::Ref(_, inner, _) = ty.kind() {
                        if let ty::Array(elem, len) = inner.kind() {
                            if *elem == self.tcx.types.u8 {
                                if let Some(n) = len.try_to_target_usize(self.tcx) {
                                    let (prov, off) = ptr.prov_and_relative_offset();
                                    if let rustc_middle::mir::interpret::GlobalAlloc::Memory(a) = self.tcx.global_alloc(prov.alloc_id()) {
                                        let a = a.inner();
                                        let lo = off.bytes_usize();
                                        let hi = lo + n as usize;
                                        if hi <= a.size().bytes_usize() && n <= 4096 {
                                            let bytes = a.inspect_with_uninit_and_ptr_outside_interpreter(lo..hi);
                                            out.push_str(",\"s\":");
                                            esc(&String::from_utf8_lossy(bytes), out);
                                        }
                                    }
                                }
                            }
                        }
                    }
                } else if let Const::Val(ConstValue::Slice { .. }, _) = c {
                    if let ty::Ref(_, inner, _) = ty.kind() {
                        if inner.is_str() {
                            if let Const::Val(cv, _) = c {
                                if let Some(bytes) = cv.try_get_slice_bytes_for_diagnostics(self.tcx) {
                                    out.push_str(",\"s\":");
                                    esc(&String::from_utf8_lossy(bytes), out);
                                }
                            }
                        }
                    }
                }
            },
        }
        out.push('}');
    }

    fn operand(&self, o: &Operand<'tcx>, out: &mut String) {
        match o {
            Operand::Copy(p) => {
                out.push_str("{\"cp\":");
                self.place(p, out);
                out.push('}');
            },
            Operand::Move(p) => {
                out.push_str("{\"mv\":");
                self.place(p, out);
                out.push('}');
            },
            Operand::Constant(c) => self.constant(&c.const_, out),
            Operand::RuntimeChecks(rc) => {
                let _ = write!(out, "{{\"rtc\":\"{:?}\"}}", rc);
            },
        }
    }

    fn rvalue(&self, rv: &Rvalue<'tcx>, out: &mut String) {
        match rv {
            Rvalue::Use(o, _) => {
                out.push_str("{\"k\":\"use\",\"a\":");
                self.operand(o, out);
                out.push('}');
            },
            Rvalue::Repeat(o, n) => {
                out.push_str("{\"k\":\"repeat\",\"a\":");
                self.operand(o, out);
                out.push_str(",\"n\":");
                esc(&format!("{}", n), out);
                out.push('}');
            },
            Rvalue::Ref(_, bk, p) => {
                let m = matches!(bk, BorrowKind::Mut { .. });
                let _ = write!(out, "{{\"k\":\"ref\",\"m\":{},\"p\":", if m { 1 } else { 0 });
                self.place(p, out);
                out.push('}');
            },
            Rvalue::RawPtr(_, p) => {
                out.push_str("{\"k\":\"rawptr\",\"p\":");
                self.place(p, out);
                out.push('}');
            },
            Rvalue::Cast(ck, o, ty) => {
                let ckn = match ck {
                    CastKind::IntToInt => "IntToInt".to_string(),
                    CastKind::Transmute => "Transmute".to_string(),
                    CastKind::PtrToPtr => "PtrToPtr".to_string(),
                    CastKind::PointerCoercion(pc, _) => format!("Coerce:{:?}", pc),
                    other => format!("{:?}", other),
                };
                out.push_str("{\"k\":\"cast\",\"ck\":");
                esc(&ckn, out);
                out.push_str(",\"a\":");
                self.operand(o, out);
                out.push_str(",\"ty\":");
                esc(&tystr(*ty), out);
                out.push('}');
            },
            Rvalue::BinaryOp(op, ab) => {
                let (a, b) = &**ab;
                let opn = binop_name(*op);
                let _ = write!(out, "{{\"k\":\"bin\",\"op\":\"{}\",\"a\":", opn);
                self.operand(a, out);
                out.push_str(",\"b\":");
                self.operand(b, out);
                out.push('}');
            },
            Rvalue::UnaryOp(op, a) => {
                let opn = match op {
                    UnOp::Not => "Not",
                    UnOp::Neg => "Neg",
                    UnOp::PtrMetadata => "PtrMetadata",
                };
                let _ = write!(out, "{{\"k\":\"un\",\"op\":\"{}\",\"a\":", opn);
                self.operand(a, out);
                out.push('}');
            },
            Rvalue::Discriminant(p) => {
                out.push_str("{\"k\":\"discr\",\"p\":");
                self.place(p, out);
                out.push_str(",\"pty\":");
                esc(&tystr(p.ty(&self.body.local_decls, self.tcx).ty), out);
                out.push('}');
            },
            Rvalue::Aggregate(ak, ops) => {
                out.push_str("{\"k\":\"agg\"");
                match &**ak {
                    AggregateKind::Array(_) => out.push_str(",\"ak\":\"array\""),
                    AggregateKind::Tuple => out.push_str(",\"ak\":\"tuple\""),
                    AggregateKind::Adt(did, vi, _, _, _) => {
                        out.push_str(",\"ak\":\"adt\",\"adt\":");
                        esc(&dpath(self.tcx, *did), out);
                        let adt = self.tcx.adt_def(*did);
                        let v = adt.variant(*vi);
                        out.push_str(",\"var\":");
                        esc(&v.name.to_string(), out);
                        if adt.is_enum() {
                            let _ = write!(out, ",\"dv\":{}", adt.discriminant_for_variant(self.tcx, *vi).val);
                        }
                        out.push_str(",\"fn\":[");
                        for (i, f) in v.fields.iter().enumerate() {
                            if i > 0 {
                                out.push(',');
                            }
                            esc(&f.name.to_string(), out);
                        }
                        out.push(']');
                    },
                    AggregateKind::Closure(did, _) => {
                        out.push_str(",\"ak\":\"closure\",\"def\":");
                        esc(&dpath(self.tcx, *did), out);
                        self.capture_names(*did, out);
                    },
                    AggregateKind::Coroutine(did, _) => {
                        out.push_str(",\"ak\":\"coroutine\",\"def\":");
                        esc(&dpath(self.tcx, *did), out);
                        self.capture_names(*did, out);
                    },
                    AggregateKind::CoroutineClosure(did, _) => {
                        out.push_str(",\"ak\":\"coroutine_closure\",\"def\":");
                        esc(&dpath(self.tcx, *did), out);
                        self.capture_names(*did, out);
                    },
                    AggregateKind::RawPtr(..) => out.push_str(",\"ak\":\"rawptr\""),
                }
                out.push_str(",\"ops\":[");
                for (i, o) in ops.iter().enumerate() {
                    if i > 0 {
                        out.push(',');
                    }
                    self.operand(o, out);
                }
                out.push_str("]}");
            },
            Rvalue::CopyForDeref(p) => {
                out.push_str("{\"k\":\"use\",\"cfd\":1,\"a\":{\"cp\":");
                self.place(p, out);
                out.push_str("}}");
            },
            Rvalue::ThreadLocalRef(d) => {
                out.push_str("{\"k\":\"tls\",\"def\":");
                esc(&dpath(self.tcx, *d), out);
                out.push('}');
            },
            Rvalue::WrapUnsafeBinder(o, _) => {
                out.push_str("{\"k\":\"use\",\"a\":");
                self.operand(o, out);
                out.push('}');
            },
        }
    }

    fn capture_names(&self, did: DefId, out: &mut String) {
        if let Some(ld) = did.as_local() {
            out.push_str(",\"fn\":[");
            for (i, c) in self.tcx.closure_captures(ld).iter().enumerate() {
                if i > 0 {
                    out.push(',');
                }
                esc(&c.to_string(self.tcx), out);
            }
            out.push(']');
        }
    }

    fn body_json(&self, out: &mut String) {
        let tcx = self.tcx;
        let body = self.body;
        // locals
        out.push_str("\"locals\":[");
        let mut names: Vec<Option<String>> = vec![None; body.local_decls.len()];
        for vdi in &body.var_debug_info {
            if let rustc_middle::mir::VarDebugInfoContents::Place(p) = &vdi.value {
                if p.projection.is_empty() {
                    names[p.local.as_usize()] = Some(vdi.name.to_string());
                }
            }
        }
        for (i, (l, decl)) in body.local_decls.iter_enumerated().enumerate() {
            if i > 0 {
                out.push(',');
            }
            out.push_str("{\"ty\":");
            esc(&tystr(decl.ty), out);
            if let Some(n) = &names[l.as_usize()] {
                out.push_str(",\"n\":");
                esc(n, out);
            }
            out.push('}');
        }
        out.push_str("],\"vdi\":[");
        // debug info for captured variables etc. (projected places)
        let mut first = true;
        for vdi in &body.var_debug_info {
            if let rustc_middle::mir::VarDebugInfoContents::Place(p) = &vdi.value {
                if !p.projection.is_empty() {
                    if !first {
                        out.push(',');
                    }
                    first = false;
                    out.push_str("{\"n\":");
                    esc(&vdi.name.to_string(), out);
                    out.push_str(",\"p\":");
                    self.place(p, out);
                    out.push('}');
                }
            }
        }
        out.push_str("],\"blocks\":[");
        for (bi, (_bb, data)) in body.basic_blocks.iter_enumerated().enumerate() {
            if bi > 0 {
                out.push(',');
            }
            out.push_str("{\"s\":[");
            let mut firsts = true;
            for st in &data.statements {
                match &st.kind {
                    StatementKind::Assign(b) => {
                        let (p, rv) = &**b;
                        if !firsts {
                            out.push(',');
                        }
                        firsts = false;
                        out.push_str("{\"d\":");
                        self.place(p, out);
                        out.push_str(",\"r\":");
                        self.rvalue(rv, out);
                        out.push(',');
                        self.span(st.source_info.span, out);
                        out.push('}');
                    },
                    StatementKind::SetDiscriminant { place, variant_index } => {
                        if !firsts {
                            out.push(',');
                        }
                        firsts = false;
                        out.push_str("{\"setdiscr\":");
                        self.place(place, out);
                        let _ = write!(out, ",\"vi\":{},", variant_index.as_usize());
                        self.span(st.source_info.span, out);
                        out.push('}');
                    },
                    _ => {},
                }
            }
            out.push_str("],\"t\":");
            let term = data.terminator();
            out.push('{');
            match &term.kind {
                TerminatorKind::Goto { target } => {
                    let _ = write!(out, "\"k\":\"goto\",\"t\":{}", target.as_usize());
                },
                TerminatorKind::SwitchInt { discr, targets } => {
                    out.push_str("\"k\":\"switch\",\"d\":");
                    self.operand(discr, out);
                    out.push_str(",\"ts\":[");
                    for (i, (v, t)) in targets.iter().enumerate() {
                        if i > 0 {
                            out.push(',');
                        }
                        let _ = write!(out, "[\"{}\",{}]", v, t.as_usize());
                    }
                    let _ = write!(out, "],\"o\":{}", targets.otherwise().as_usize());
                    // discriminant type (for enum variant naming)
                    out.push_str(",\"dty\":");
                    esc(&tystr(discr.ty(&body.local_decls, tcx)), out);
                },
                TerminatorKind::UnwindResume => out.push_str("\"k\":\"resume\""),
                TerminatorKind::UnwindTerminate(_) => out.push_str("\"k\":\"terminate\""),
                TerminatorKind::Return => out.push_str("\"k\":\"return\""),
                TerminatorKind::Unreachable => out.push_str("\"k\":\"unreachable\""),
                TerminatorKind::Drop { place, target, unwind, drop, .. } => {
                    out.push_str("\"k\":\"drop\",\"p\":");
                    self.place(place, out);
                    let _ = write!(out, ",\"t\":{}", target.as_usize());
                    if let rustc_middle::mir::UnwindAction::Cleanup(u) = unwind {
                        let _ = write!(out, ",\"u\":{}", u.as_usize());
                    }
                    if let Some(d) = drop {
                        let _ = write!(out, ",\"cd\":{}", d.as_usize());
                    }
                    out.push_str(",\"pty\":");
                    esc(&tystr(place.ty(&body.local_decls, tcx).ty), out);
                },
                TerminatorKind::Call { func, args, destination, target, unwind, .. } => {
                    out.push_str("\"k\":\"call\"");
                    let fty = func.ty(&body.local_decls, tcx);
                    match fty.kind() {
                        ty::FnDef(cdid, gargs) => {
                            out.push_str(",\"fn\":");
                            esc(&dpath(tcx, *cdid), out);
                            let res = Instance::try_resolve(tcx, self.env, *cdid, gargs);
                            if let Ok(Some(inst)) = res {
                                let rd = inst.def_id();
                                if rd != *cdid {
                                    out.push_str(",\"res\":");
                                    esc(&dpath(tcx, rd), out);
                                }
                                let ik = match inst.def {
                                    ty::InstanceKind::Item(_) => "item",
                                    ty::InstanceKind::Virtual(..) => "virtual",
                                    ty::InstanceKind::Intrinsic(_) => "intrinsic",
                                    ty::InstanceKind::ClosureOnceShim { .. } => "closure_once",
                                    ty::InstanceKind::FnPtrShim(..) => "fnptr_shim",
                                    ty::InstanceKind::DropGlue(..) => "drop_glue",
                                    ty::InstanceKind::CloneShim(..) => "clone_shim",
                                    _ => "other",
                                };
                                let _ = write!(out, ",\"ik\":\"{}\"", ik);
                            } else {
                                out.push_str(",\"ik\":\"unresolved\"");
                            }
                            if !gargs.is_empty() {
                                out.push_str(",\"ga\":");
                                esc(&with_no_visible_paths!(with_crate_prefix!(with_no_trimmed_paths!(format!("{:?}", gargs)))), out);
                            }
                            // size_of::<T>() with a concrete T: export the evaluated size
                            if dpath(tcx, *cdid) == "core::mem::size_of" {
                                if let Some(t0) = gargs.types().next() {
                                    if !t0.has_non_region_param() {
                                        if let Ok(l) = tcx.layout_of(self.env.as_query_input(t0)) {
                                            let _ = write!(out, ",\"sz\":{}", l.size.bytes());
                                        }
                                    }
                                    out.push_str(",\"szty\":");
                                    esc(&tystr(t0), out);
                                }
                            }
                            // trait of the callee if it is a trait method
                            if let Some(tr) = tcx.trait_of_assoc(*cdid) {
                                out.push_str(",\"tr\":");
                                esc(&dpath(tcx, tr), out);
                            }
                        },
                        _ => {
                            out.push_str(",\"ind\":");
                            self.operand(func, out);
                            out.push_str(",\"fty\":");
                            esc(&tystr(fty), out);
                        },
                    }
                    out.push_str(",\"args\":[");
                    for (i, a) in args.iter().enumerate() {
                        if i > 0 {
                            out.push(',');
                        }
                        self.operand(&a.node, out);
                    }
                    out.push_str("],\"d\":");
                    self.place(destination, out);
                    if let Some(t) = target {
                        let _ = write!(out, ",\"t\":{}", t.as_usize());
                    }
                    if let rustc_middle::mir::UnwindAction::Cleanup(u) = unwind {
                        let _ = write!(out, ",\"u\":{}", u.as_usize());
                    }
                },
                TerminatorKind::TailCall { .. } => out.push_str("\"k\":\"tailcall\""),
                TerminatorKind::Assert { cond, expected, msg, target, unwind } => {
                    out.push_str("\"k\":\"assert\",\"c\":");
                    self.operand(cond, out);
                    let _ = write!(out, ",\"e\":{},\"t\":{}", expected, target.as_usize());
                    let mk = match &**msg {
                        rustc_middle::mir::AssertKind::BoundsCheck { .. } => "bounds".to_string(),
                        rustc_middle::mir::AssertKind::Overflow(op, ..) => format!("overflow:{}", binop_name(*op)),
                        rustc_middle::mir::AssertKind::OverflowNeg(_) => "overflow:Neg".to_string(),
                        rustc_middle::mir::AssertKind::DivisionByZero(_) => "divzero".to_string(),
                        rustc_middle::mir::AssertKind::RemainderByZero(_) => "remzero".to_string(),
                        other => format!("{:?}", other).chars().take(40).collect(),
                    };
                    out.push_str(",\"m\":");
                    esc(&mk, out);
                    if let rustc_middle::mir::AssertKind::BoundsCheck { len, index } = &**msg {
                        out.push_str(",\"len\":");
                        self.operand(len, out);
                        out.push_str(",\"idx\":");
                        self.operand(index, out);
                    }
                    if let rustc_middle::mir::UnwindAction::Cleanup(u) = unwind {
                        let _ = write!(out, ",\"u\":{}", u.as_usize());
                    }
                },
                TerminatorKind::Yield { value, resume, resume_arg, drop } => {
                    out.push_str("\"k\":\"yield\",\"v\":");
                    self.operand(value, out);
                    let _ = write!(out, ",\"t\":{}", resume.as_usize());
                    out.push_str(",\"ra\":");
                    self.place(resume_arg, out);
                    if let Some(d) = drop {
                        let _ = write!(out, ",\"cd\":{}", d.as_usize());
                    }
                },
                TerminatorKind::CoroutineDrop => out.push_str("\"k\":\"coroutine_drop\""),
                TerminatorKind::FalseEdge { real_target, imaginary_target } => {
                    let _ = write!(
                        out,
                        "\"k\":\"goto\",\"fe\":1,\"t\":{},\"im\":{}",
                        real_target.as_usize(),
                        imaginary_target.as_usize()
                    );
                },
                TerminatorKind::FalseUnwind { real_target, .. } => {
                    let _ = write!(out, "\"k\":\"goto\",\"fu\":1,\"t\":{}", real_target.as_usize());
                },
                TerminatorKind::InlineAsm { .. } => out.push_str("\"k\":\"asm\""),
            }
            out.push(',');
            self.span(term.source_info.span, out);
            out.push('}');
            if data.is_cleanup {
                out.push_str(",\"cl\":1");
            }
            out.push('}');
        }
        out.push(']');
    }
}

fn binop_name(op: BinOp) -> &'static str {
    match op {
        BinOp::Add => "Add",
        BinOp::AddUnchecked => "Add",
        BinOp::AddWithOverflow => "AddO",
        BinOp::Sub => "Sub",
        BinOp::SubUnchecked => "Sub",
        BinOp::SubWithOverflow => "SubO",
        BinOp::Mul => "Mul",
        BinOp::MulUnchecked => "Mul",
        BinOp::MulWithOverflow => "MulO",
        BinOp::Div => "Div",
        BinOp::Rem => "Rem",
        BinOp::BitXor => "BitXor",
        BinOp::BitAnd => "BitAnd",
        BinOp::BitOr => "BitOr",
        BinOp::Shl => "Shl",
        BinOp::ShlUnchecked => "Shl",
        BinOp::Shr => "Shr",
        BinOp::ShrUnchecked => "Shr",
        BinOp::Eq => "Eq",
        BinOp::Lt => "Lt",
        BinOp::Le => "Le",
        BinOp::Ne => "Ne",
        BinOp::Ge => "Ge",
        BinOp::Gt => "Gt",
        BinOp::Cmp => "Cmp",
        BinOp::Offset => "Offset",
    }
}

struct Cb;
impl rustc_driver::Callbacks for Cb {
    fn after_expansion<'tcx>(&mut self, _c: &rustc_interface::interface::Compiler, tcx: TyCtxt<'tcx>) -> Compilation {
        // Extraction happens *before* rustc's own analysis pass: `mir_promoted` is computed on demand here and
        // nothing has had a chance to steal it yet (later phases steal it on cold, non-incremental builds).
        let Ok(outdir) = std::env::var("XL_FACTS") else {
            return Compilation::Continue;
        };
        let krate = tcx.crate_name(LOCAL_CRATE).to_string();
        let crate_types = tcx.crate_types();
        let ckind = format!("{:?}", crate_types.first());
        let is_test = tcx.sess.opts.test;
        let sm = tcx.sess.source_map();
        let mut out = String::with_capacity(1 << 22);
        out.push_str("{\"crate\":");
        esc(&krate, &mut out);
        out.push_str(",\"crate_kind\":");
        esc(&ckind, &mut out);
        let _ = write!(out, ",\"test\":{}", is_test);
        let _ = write!(
            out,
            ",\"debug_assertions\":{},\"overflow_checks\":{}",
            tcx.sess.opts.debug_assertions,
            tcx.sess.overflow_checks()
        );
        out.push_str(",\"bodies\":[");
        let ev = tcx.effective_visibilities(());
        let mut nb = 0usize;
        let mut stolen = 0usize;
        let mut stolen_paths: Vec<String> = Vec::new();
        for ldid in tcx.mir_keys(()) {
            let did = ldid.to_def_id();
            let kind = tcx.def_kind(did);
            if !matches!(kind, DefKind::Fn | DefKind::AssocFn | DefKind::Closure | DefKind::SyntheticCoroutineBody) {
                continue;
            }
            let steal = &tcx.mir_promoted(*ldid).0;
            if steal.is_stolen() {
                stolen += 1;
                stolen_paths.push(dpath(tcx, did));
                continue;
            }
            let body_ref = steal.borrow();
            let body = &*body_ref;
            if nb > 0 {
                out.push(',');
            }
            nb += 1;
            out.push_str("{\"path\":");
            esc(&dpath(tcx, did), &mut out);
            let _ = write!(out, ",\"kind\":\"{:?}\"", kind);
            if matches!(kind, DefKind::Closure | DefKind::SyntheticCoroutineBody) {
                let parent = tcx.parent(did);
                out.push_str(",\"parent\":");
                esc(&dpath(tcx, parent), &mut out);
            }
            let sp = body.span;
            let lo = sm.lookup_char_pos(sp.lo());
            let hi = sm.lookup_char_pos(sp.hi());
            out.push_str(",\"file\":");
            esc(&format!("{}", lo.file.name.prefer_local_unconditionally()), &mut out);
            let _ = write!(out, ",\"lo\":{},\"hi\":{}", lo.line, hi.line);
            if sp.from_expansion() {
                out.push_str(",\"ex\":1");
            }
            if matches!(kind, DefKind::Fn | DefKind::AssocFn) {
                let vis = tcx.visibility(did);
                let vs = match vis {
                    ty::Visibility::Public => "pub".to_string(),
                    ty::Visibility::Restricted(m) => format!("in:{}", dpath(tcx, m)),
                };
                out.push_str(",\"vis\":");
                esc(&vs, &mut out);
                let _ = write!(out, ",\"exported\":{}", ev.is_reachable(*ldid));
                if kind == DefKind::AssocFn {
                    let ai = tcx.associated_item(did);
                    if let Some(tid) = ai.trait_item_def_id() {
                        if tid != did {
                            out.push_str(",\"implements\":");
                            esc(&dpath(tcx, tid), &mut out);
                        }
                    }
                    // the type the impl is for
                    let parent = tcx.parent(did);
                    if matches!(tcx.def_kind(parent), DefKind::Impl { .. }) {
                        let self_ty = tcx.type_of(parent).instantiate_identity().skip_norm_wip();
                        out.push_str(",\"self_ty\":");
                        esc(&tystr(self_ty), &mut out);
                    }
                }
            }
            let _ = write!(out, ",\"argc\":{}", body.arg_count);
            if body.coroutine.is_some() {
                out.push_str(",\"coroutine\":1");
            }
            if tcx.asyncness(did).is_async() {
                out.push_str(",\"async\":1");
            }
            out.push(',');
            let cx = Cx { tcx, body, def: did, env: TypingEnv::post_analysis(tcx, did) };
            let _ = cx.def;
            cx.body_json(&mut out);
            out.push('}');
        }
        out.push_str("],\"adts\":[");
        // ADT table
        let mut na = 0usize;
        for id in tcx.hir_crate_items(()).definitions() {
            let did = id.to_def_id();
            let kind = tcx.def_kind(did);
            if !matches!(kind, DefKind::Struct | DefKind::Enum | DefKind::Union) {
                continue;
            }
            let adt = tcx.adt_def(did);
            if na > 0 {
                out.push(',');
            }
            na += 1;
            out.push_str("{\"path\":");
            esc(&dpath(tcx, did), &mut out);
            let _ = write!(out, ",\"kind\":\"{:?}\"", kind);
            let _ = write!(out, ",\"exported\":{}", ev.is_reachable(id));
            let _ = write!(out, ",\"repr_packed\":{},\"repr_c\":{}", adt.repr().packed(), adt.repr().c());
            out.push_str(",\"variants\":[");
            for (vi, v) in adt.variants().iter().enumerate() {
                if vi > 0 {
                    out.push(',');
                }
                out.push_str("{\"n\":");
                esc(&v.name.to_string(), &mut out);
                out.push_str(",\"fields\":[");
                for (fi, f) in v.fields.iter().enumerate() {
                    if fi > 0 {
                        out.push(',');
                    }
                    out.push_str("{\"n\":");
                    esc(&f.name.to_string(), &mut out);
                    out.push_str(",\"ty\":");
                    let fty = tcx.type_of(f.did).instantiate_identity().skip_norm_wip();
                    esc(&tystr(fty), &mut out);
                    let fv = match f.vis {
                        ty::Visibility::Public => "pub".to_string(),
                        ty::Visibility::Restricted(m) => format!("in:{}", dpath(tcx, m)),
                    };
                    out.push_str(",\"vis\":");
                    esc(&fv, &mut out);
                    out.push('}');
                }
                out.push_str("]}");
            }
            out.push_str("]}");
        }
        out.push_str("],\"consts\":[");
        // const / static items with evaluated scalar values
        let mut nc = 0usize;
        for id in tcx.hir_crate_items(()).definitions() {
            let did = id.to_def_id();
            let kind = tcx.def_kind(did);
            if !matches!(kind, DefKind::Const { .. } | DefKind::AssocConst { .. }) {
                continue;
            }
            if tcx.generics_of(did).requires_monomorphization(tcx) {
                continue;
            }
            let ty = tcx.type_of(did).instantiate_identity().skip_norm_wip();
            if !(ty.is_integral() || ty.is_bool()) {
                continue;
            }
            let c = Const::from_unevaluated(tcx, did).instantiate_identity().skip_norm_wip();
            let env = TypingEnv::post_analysis(tcx, did);
            if let Some(si) = c.try_eval_scalar_int(tcx, env) {
                if nc > 0 {
                    out.push(',');
                }
                nc += 1;
                out.push_str("{\"path\":");
                esc(&dpath(tcx, did), &mut out);
                out.push_str(",\"ty\":");
                esc(&tystr(ty), &mut out);
                let sz = si.size();
                let v = si.to_bits(sz);
                if ty.is_signed() {
                    let _ = write!(out, ",\"v\":\"{}\"", sz.sign_extend(v) as i128);
                } else {
                    let _ = write!(out, ",\"v\":\"{}\"", v);
                }
                out.push('}');
            }
        }
        out.push_str("],\"stolen\":[");
        for (i, p) in stolen_paths.iter().enumerate() {
            if i > 0 {
                out.push(',');
            }
            esc(p, &mut out);
        }
        let _ = write!(out, "],\"n_bodies\":{},\"n_stolen\":{}}}", nb, stolen);
        let tag = if is_test { "test" } else { "main" };
        let fname = format!("{outdir}/{krate}.{ckind}.{tag}.{}.json", std::process::id())
            .replace("Some(", "")
            .replace(')', "");
        // one write per process
        std::fs::write(&fname, out.as_bytes()).expect("xetlint: cannot write fact file");
        Compilation::Continue
    }
}

fn main() {
    let mut args: Vec<String> = std::env::args().collect();
    // RUSTC_WORKSPACE_WRAPPER: argv[1] is the real rustc path
    if args.len() > 1 && (args[1].ends_with("rustc") || args[1].contains("/rustc")) {
        args.remove(1);
    }
    rustc_driver::run_compiler(&args, &mut Cb);
}
