#!/bin/bash
# usage: extract.sh <repo dir> <facts out dir> <config: rel|dbg> [extra cargo args]
# Runs the xetlint driver over the workspace at <repo dir>; facts go to <facts out dir>.
set -euo pipefail
REPO=$1; OUT=$2; CFG=${3:-rel}; shift 3 || true
VERIF=$(cd "$(dirname "$0")/.." && pwd)
DRV=$VERIF/xetlint/target/release/xetlint
[ -x "$DRV" ] || (cd $VERIF/xetlint && cargo +nightly build --release --offline >&2)
TGT=${XL_TARGET_DIR:-$VERIF/.cache/target-$CFG}
mkdir -p "$OUT" "$TGT"
# one extraction at a time per target directory (concurrent runs would delete each other's fingerprints)
exec 9>"$TGT/.xl-extract.lock"
flock 9
rm -f "$OUT"/*.json
case $CFG in
  rel) FLAGS="-Zmir-opt-level=0 -Awarnings -Cdebug-assertions=off -Coverflow-checks=off";;
  dbg) FLAGS="-Zmir-opt-level=0 -Awarnings -Cdebug-assertions=on -Coverflow-checks=on";;
esac
# cargo's freshness cache would skip the wrapper: forget the workspace members' fingerprints
MEMBERS=$(cd "$REPO" && cargo +nightly metadata --offline --no-deps --format-version 1 2>/dev/null | python3 -c "import json,sys; print(' '.join(sorted({p['name'] for p in json.load(sys.stdin)['packages']})))")
for m in $MEMBERS; do rm -rf "$TGT"/debug/.fingerprint/${m}-* ; done
cd "$REPO"
LD_LIBRARY_PATH=$(rustc +nightly --print sysroot)/lib XL_FACTS="$OUT" RUSTFLAGS="$FLAGS" \
  RUSTC_WORKSPACE_WRAPPER="$DRV" CARGO_TARGET_DIR="$TGT" CARGO_NET_OFFLINE=true \
  cargo +nightly check --offline --workspace "$@" >"$OUT/cargo.log" 2>&1 || { tail -40 "$OUT/cargo.log" >&2; exit 3; }
