"""Path-wise length accounting: does a counter field track the length of a buffer field?

For a method `fn f(&mut self, data: &[u8], ..)` without loops, every acyclic path from the entry to a return is evaluated
symbolically over linear forms (atoms: the initial counter value L0, the length N of each slice parameter, one opaque atom
per call result / unknown definition site).  Two abstract quantities are followed:

  CUR  the value of `self.<len_field>`            (assignments to the field)
  BUF  the length of `self.<buf_field>` (a Vec)   (extend_from_slice adds the slice length, push adds 1, mem::take /
                                                   clear / truncate(0) set it to 0, any other &mut use makes it unknown)

with the inductive hypothesis BUF == CUR (== L0) at entry.  Obligations: BUF == CUR at every `mem::take` of the buffer
(the emitted chunk has the tracked length) and at every return (the hypothesis is re-established).  Equalities learnt
from `==` tests on the path are used (substitution).  Anything the evaluator does not understand makes the verdict
"cannot establish" for the paths concerned, never a pass.
"""
from .core import strip_generics as sg
from . import cfg as cfgm

MAXPATHS = 20000


def lin_add(a, b, sign=1):
    out = dict(a)
    for k, v in b.items():
        out[k] = out.get(k, 0) + sign * v
        if out[k] == 0:
            del out[k]
    return out


def is_lin(v):
    return isinstance(v, dict)


def show_lin(lf, names=None):
    if not is_lin(lf):
        return str(lf)
    names = names or {}
    parts = []
    for k in sorted(lf, key=str):
        c = lf[k]
        nm = '' if k == 1 else names.get(k, str(k))
        parts.append(('%d' % c) if k == 1 else (nm if c == 1 else '%d*%s' % (c, nm)))
    return ' + '.join(parts) if parts else '0'


class Acct:
    def __init__(self, a, len_field, buf_field, self_local=1, consumed_index=None, spec=None):
        self.a = a
        self.body = a.body
        self.len_field = len_field
        self.buf_field = buf_field
        self.self_local = self_local
        self.names = {'L0': 'the length at entry'}
        self.issues = []        # (kind, block, detail)
        self.cissues = []       # consumed != appended
        self.consumed_index = consumed_index
        self.spec = spec          # callable(acct, env, return block) -> [(construct, message)] evaluated on every path
        self.spec_issues = []
        self.carriers = set()
        self.npaths = 0
        self.checked = 0

    # -- places ---------------------------------------------------------------------------------
    def field_of_self(self, pl, env=None):
        """name if place is (*self).name (self: the receiver, or a reborrow of it held in another local)"""
        p = pl.get('p')
        is_self = pl['l'] == self.self_local or (env is not None and env.get(('l', pl['l'])) == ('selfref',))
        if is_self and p and len(p) == 2 and p[0] == '*' and isinstance(p[1], dict) and 'f' in p[1]:
            return p[1].get('n', str(p[1]['f']))
        return None

    def read_place(self, pl, env):
        p = pl.get('p')
        if not p:
            return env.get(('l', pl['l']))
        f = self.field_of_self(pl, env)
        if f is not None:
            return env.get(('f', f), {('init', f): 1} if f != self.len_field else {'L0': 1})
        base = env.get(('l', pl['l']))
        # (*r) of a reference value: the referent
        if p == ['*']:
            if isinstance(base, tuple) and base[0] == 'ref':
                return self.read_key(base[1], env)
            return base
        # checked arithmetic tuple: .0 is the value
        if len(p) == 1 and isinstance(p[0], dict) and p[0].get('f') == 0 and isinstance(base, tuple) and base[0] == 'ovf':
            return base[1]
        if len(p) == 1 and isinstance(p[0], dict) and 'f' in p[0] and isinstance(base, tuple) and base[0] == 'tuple' and p[0]['f'] < len(base[1]):
            return base[1][p[0]['f']]
        # (x as Some).0 of the option a boundary search returned: its payload
        if len(p) == 2 and isinstance(p[0], dict) and p[0].get('dc') == 'Some' and isinstance(p[1], dict) and p[1].get('f') == 0 \
                and isinstance(base, tuple) and base[0] == 'opt':
            return {('pay', base[1]): 1}
        return None

    def read_key(self, k, env):
        if k[0] == 'f':
            return env.get(k, {('init', k[1]): 1} if k[1] != self.len_field else {'L0': 1})
        return env.get(k)

    def operand(self, o, env):
        pl = o.get('cp') or o.get('mv')
        if pl is not None:
            return self.read_place(pl, env)
        if 'c' in o and 'v' in o:
            ty, v = o.get('ty', ''), str(o['v'])
            if ty == 'bool':
                return ('bool', v in ('1', 'true'))
            try:
                c = int(v)
            except ValueError:
                return None
            return {1: c} if c else {}
        return None

    # -- statements -----------------------------------------------------------------------------
    def assign(self, st, env, site):
        d, r = st.get('d'), st.get('r')
        if not d or not r:
            return
        val = self.rvalue(r, env, site)
        if 'p' not in d:
            if val is None:
                val = {('v',) + site: 1} if self.is_int(d['l']) else None
            if d['l'] in self.carriers and is_lin(val):
                before = env.get('T')
                if self.spec and is_lin(before) and val != before:
                    env['EV'] = env['EV'] + [('inc', site, lin_add(val, before, -1), before, val)]
                env['T'] = val
            if val is None:
                env.pop(('l', d['l']), None)
            else:
                env[('l', d['l'])] = val
            return
        f = self.field_of_self(d, env)
        if f is not None:
            if val is None:
                val = {('v',) + site: 1}
            if f == self.len_field:
                before = env.get('T')
                if self.spec and not (is_lin(val) and is_lin(before) and val == before):
                    env['EV'] = env['EV'] + [('inc', site, lin_add(val, before, -1) if is_lin(val) and is_lin(before) else None, before, val)]
                env['T'] = val
            env[('f', f)] = val
            if f == self.buf_field:
                env['BUF'] = None
            return
        # store through some other projection: forget the base local
        env.pop(('l', d['l']), None)

    def is_int(self, l):
        ty = self.body['locals'][l].get('ty', '')
        return ty in ('usize', 'u64', 'u32', 'u16', 'u8', 'isize', 'i64', 'i32')

    def rvalue(self, r, env, site):
        k = r['k']
        if k == 'use':
            return self.operand(r['a'], env)
        if k == 'cast':
            v = self.operand(r['a'], env)
            return v if is_lin(v) else None
        if k == 'bin':
            x, y = self.operand(r['a'], env), self.operand(r['b'], env)
            op = r['op']
            base = op[:-1] if op in ('AddO', 'SubO', 'MulO') else op
            val = None
            if is_lin(x) and is_lin(y):
                if base == 'Add':
                    val = lin_add(x, y)
                elif base == 'Sub':
                    val = lin_add(x, y, -1)
                elif base == 'Mul' and (set(x) <= {1} or set(y) <= {1}):
                    c, o = (x.get(1, 0), y) if set(x) <= {1} else (y.get(1, 0), x)
                    val = {kk: vv * c for kk, vv in o.items() if vv * c}
                elif base in ('Eq', 'Ne', 'Lt', 'Le', 'Gt', 'Ge'):
                    return ('cmp', base, x, y)
            if op in ('AddO', 'SubO', 'MulO'):
                return ('ovf', val if val is not None else {('v',) + site: 1})
            return val
        if k == 'discr':
            v = env.get(('l', r['p']['l'])) if 'p' not in r['p'] else None
            return ('disc', v[1]) if isinstance(v, tuple) and v[0] == 'opt' else None
        if k == 'un' and r.get('op') == 'Not':
            v = self.operand(r['a'], env)
            if isinstance(v, tuple) and v[0] == 'cmp':
                neg = {'Eq': 'Ne', 'Ne': 'Eq', 'Lt': 'Ge', 'Ge': 'Lt', 'Gt': 'Le', 'Le': 'Gt'}
                return ('cmp', neg[v[1]], v[2], v[3])
            if isinstance(v, tuple) and v[0] == 'bool':
                return ('bool', not v[1])
            return None
        if k == 'ref' or k == 'addr':
            pl = r.get('p') or r.get('pl') or {}
            if not pl:
                return None
            p = pl.get('p')
            f = self.field_of_self(pl, env)
            if f is not None:
                return ('ref', ('f', f))
            if p == ['*'] and (pl['l'] == self.self_local or env.get(('l', pl['l'])) == ('selfref',)):
                return ('selfref',)
            if not p:
                return ('ref', ('l', pl['l']))
            if p == ['*']:
                return env.get(('l', pl['l']))      # reborrow: same referent / same slice value
            return None
        if k == 'agg' and r.get('ak') == 'tuple':
            return ('tuple', [self.operand(o, env) for o in r['ops']])
        if k == 'agg':
            if r.get('ak') == 'adt' and 'ops' in r:
                ty = sg(r.get('adt', ''))
                fields = r.get('fn') or []
                vals = [self.operand(o, env) for o in r['ops']]
                nm = ty.split('::')[-1]
                if nm in ('Range', 'RangeTo', 'RangeFrom', 'RangeFull', 'RangeInclusive', 'RangeToInclusive'):
                    d = dict(zip(fields, vals)) if fields else {}
                    return ('range', nm, d.get('start'), d.get('end'))
            return None
        return None

    # -- calls ----------------------------------------------------------------------------------
    def slice_len(self, v, env):
        """length (linear form) of a slice-like value"""
        if isinstance(v, tuple) and v[0] == 'slice':
            return v[1]
        if isinstance(v, tuple) and v[0] == 'ref':
            vv = self.read_key(v[1], env)
            if isinstance(vv, tuple) and vv[0] == 'slice':
                return vv[1]
            if v[1] == ('f', self.buf_field):
                return env.get('BUF')
        return None

    def call(self, b, t, env):
        fn = sg(t.get('fn', ''))
        res = sg(t.get('res', ''))
        nm = fn.split('::')[-1]
        args = [self.operand(o, env) for o in t['args']]
        d = t['d']
        out = None
        touches_buf = any(isinstance(x, tuple) and x[0] == 'ref' and x[1] == ('f', self.buf_field) for x in args)
        mut_buf = touches_buf and any(self.body['locals'][(o.get('mv') or o.get('cp') or {'l': 0})['l']].get('ty', '').startswith('&mut')
                                      for o, x in zip(t['args'], args) if isinstance(x, tuple) and x[0] == 'ref' and x[1] == ('f', self.buf_field))
        if nm == 'min' and len(args) == 2 and ('cmp::min' in fn or 'Ord::min' in fn):
            out = {('v', b, 'call'): 1}
            if self.spec:
                env['MIN'] = dict(env['MIN'])
                env['MIN'][('v', b, 'call')] = (args[0], args[1])
        elif nm == 'next_match' and len(args) >= 2:
            sv = args[1]
            if isinstance(sv, tuple) and sv[0] == 'ref':
                sv = self.read_key(sv[1], env)
            out = ('opt', b)
            if self.spec:
                env['NM'] = env['NM'] + [(b, sv, env.get('T'))]
        elif nm in ('is_some', 'is_none') and args and isinstance(args[0], tuple) and (args[0][0] == 'opt' or (args[0][0] == 'ref' and isinstance(self.read_key(args[0][1], env), tuple) and self.read_key(args[0][1], env)[0] == 'opt')):
            ov = args[0] if args[0][0] == 'opt' else self.read_key(args[0][1], env)
            out = ('issome', ov[1], nm == 'is_some')
        elif nm == 'unwrap_or' and len(args) == 2 and isinstance(args[0], tuple) and args[0][0] == 'opt':
            out = {('uo', args[0][1]): 1}
            env['UO'] = dict(env.get('UO', {}))
            env['UO'][args[0][1]] = args[1]
        elif nm == 'len' and args:
            out = self.slice_len(args[0], env)
        elif nm == 'is_empty' and args:
            ln = self.slice_len(args[0], env)
            out = ('cmp', 'Eq', ln, {}) if is_lin(ln) else None
        elif nm == 'index' and len(args) == 2 and isinstance(args[1], tuple) and args[1][0] == 'range':
            base_len = self.slice_len(args[0], env)
            _, kind, st, en = args[1]
            ln = None
            if kind == 'Range' and is_lin(st) and is_lin(en):
                ln = lin_add(en, st, -1)
            elif kind == 'RangeTo' and is_lin(en):
                ln = en
            elif kind == 'RangeFrom' and is_lin(st) and is_lin(base_len):
                ln = lin_add(base_len, st, -1)
            elif kind == 'RangeFull' and is_lin(base_len):
                ln = base_len
            base = args[0]
            if isinstance(base, tuple) and base[0] == 'ref':
                base = self.read_key(base[1], env)
            bname, bstart = (base[2], base[3]) if isinstance(base, tuple) and base[0] == 'slice' and len(base) > 2 else (None, None)
            start = {} if kind in ('RangeTo', 'RangeFull') else st
            nstart = lin_add(bstart, start) if is_lin(bstart) and is_lin(start) else None
            out = ('slice', ln, bname, nstart) if ln is not None else None
        elif nm in ('deref', 'deref_mut', 'as_ref', 'as_mut', 'as_slice', 'as_mut_slice', 'borrow', 'borrow_mut') and args:
            out = args[0]
            mut_buf = False
        elif mut_buf:
            if nm == 'extend_from_slice' and len(args) == 2:
                ln = self.slice_len(args[1], env)
                sv = args[1]
                if isinstance(sv, tuple) and sv[0] == 'ref':
                    sv = self.read_key(sv[1], env)
                if isinstance(sv, tuple) and sv[0] == 'slice' and len(sv) > 2 and sv[2] is not None and is_lin(sv[3]) and is_lin(ln) and is_lin(env.get('APP')) \
                        and env.get('APPBASE') in (None, sv[2]) and self.equal(sv[3], env['APP'], env['EQS']):
                    env['APP'] = lin_add(env['APP'], ln)
                    env['APPBASE'] = sv[2]
                else:
                    env['APP'] = None
                env['BUF'] = lin_add(env['BUF'], ln) if is_lin(env.get('BUF')) and is_lin(ln) else None
                if env['BUF'] is None:
                    self.issues.append(('unknown', b, 'the length of the slice appended to %s cannot be evaluated' % self.buf_field))
            elif nm == 'push':
                env['BUF'] = lin_add(env['BUF'], {1: 1}) if is_lin(env.get('BUF')) else None
            elif nm in ('take', 'clear') or (nm == 'replace' and True):
                self.at_take(b, env, 'chunk creation' if nm != 'clear' else 'clear')
                env['BUF'] = {}
            elif nm == 'truncate' and len(args) == 2 and args[1] == {}:
                env['BUF'] = {}
            elif nm in ('reserve', 'reserve_exact', 'shrink_to_fit'):
                pass
            else:
                env['BUF'] = None
                self.issues.append(('unknown', b, '%s is handed mutably to %s' % (self.buf_field, fn)))
        if 'p' not in d:
            if out is None and self.is_int(d['l']):
                out = {('v', b, 'call'): 1}
            if out is None:
                env.pop(('l', d['l']), None)
            else:
                env[('l', d['l'])] = out

    # -- obligations ----------------------------------------------------------------------------
    def equal(self, x, y, eqs):
        if not is_lin(x) or not is_lin(y):
            return False
        diff = lin_add(x, y, -1)
        for _ in range(len(eqs) + 1):
            if not diff:
                return True
            progressed = False
            for e in eqs:
                for atom, c in e.items():
                    if atom != 1 and c in (1, -1) and atom in diff:
                        # atom = -(e - c*atom)/c
                        k = diff[atom]
                        rest = {kk: -vv * c for kk, vv in e.items() if kk != atom}
                        diff = lin_add({kk: vv for kk, vv in diff.items() if kk != atom}, {kk: vv * k for kk, vv in rest.items()})
                        progressed = True
                        break
                if progressed:
                    break
            if not progressed:
                break
        return not diff

    def at_take(self, b, env, what):
        self.checked += 1
        cur = self.read_key(('f', self.len_field), env)
        buf = env.get('BUF')
        if not self.equal(buf, cur, env['EQS']) and not any(self.equal(buf, env.get(('l', c)), env['EQS']) for c in self.carriers) and not self.equal(buf, env.get('T'), env['EQS']):
            self.issues.append(('mismatch', b, 'at the %s the buffer holds %s bytes while %s is %s' % (what, self.show(buf), self.len_field, self.show(cur))))

    def at_return(self, b, env):
        self.checked += 1
        if self.spec:
            for it in self.spec(self, env, b):
                if it not in self.spec_issues:
                    self.spec_issues.append(it)
        if self.consumed_index is not None:
            rv = env.get(('l', 0))
            cons = rv[1][self.consumed_index] if isinstance(rv, tuple) and rv[0] == 'tuple' and len(rv[1]) > self.consumed_index else None
            app = env.get('APP')
            if not self.equal(cons, app, env['EQS']):
                self.cissues.append(('consumed', b, 'on a path to the return the reported count is %s while %s of the input were appended to %s' % (
                    self.show(cons), ('the first %s bytes' % self.show(app)) if is_lin(app) else 'bytes that are not the next unconsumed prefix', self.buf_field)))
        cur = self.read_key(('f', self.len_field), env)
        buf = env.get('BUF')
        if not self.equal(buf, cur, env['EQS']):
            self.issues.append(('mismatch', b, 'on a path to the return the buffer holds %s bytes while %s is %s' % (self.show(buf), self.len_field, self.show(cur))))

    def show(self, lf):
        if not is_lin(lf):
            return 'an unknown number of'
        def nm(k):
            if k == 'L0':
                return 'L0'
            if isinstance(k, tuple) and k[0] == 'N':
                return 'len(%s)' % k[1]
            if isinstance(k, tuple) and k[0] == 'v':
                return 'v@%s' % self.a.line(k[1], k[2] if isinstance(k[2], int) else None)
            if isinstance(k, tuple) and k[0] == 'init':
                return 'self.%s' % k[1]
            return str(k)
        return show_lin(lf, {k: nm(k) for k in lf})

    # -- driver ---------------------------------------------------------------------------------
    def run(self):
        a = self.a
        if a.cfg.loops():
            self.issues.append(('unknown', 0, 'the function contains a loop: path-wise length accounting does not apply'))
            return self
        env0 = {'BUF': {'L0': 1}, 'EQS': [], 'APP': {}, 'APPBASE': None, 'EV': [], 'MIN': {}, 'NM': [], 'OPT': {}, 'DEC': {}, 'T': {'L0': 1}}
        for i in range(1, self.body['argc'] + 1):
            ty = self.body['locals'][i].get('ty', '')
            if ty.startswith('&[') or ty.startswith('&mut ['):
                env0[('l', i)] = ('slice', {('N', self.body['locals'][i].get('n', str(i))): 1}, self.body['locals'][i].get('n', str(i)), {})
        env0[('l', self.self_local)] = ('selfref',)
        # carriers: locals that hold a copy of the length field and are written back to it (the function may keep the
        # running length in a local and store it once at the end)
        self.carriers = set()
        from . import flow as flowm
        for l_, ds_ in a.flow.defs.items():
            def is_field(e):
                return e[0] == 'field' and e[2] == self.len_field and e[1][0] == 'param' and e[1][1] == self.self_local
            inits = [d_ for d_ in ds_ if d_[0] == 'assign' and is_field(a.flow.rvalue(d_[3], 0))]
            if inits and len(ds_) >= 2:
                for (b_, si_, st_) in a.stores_to_field(self.len_field):
                    e_ = a.flow.rvalue(st_['r'], 0)
                    if flowm.mentions(e_, lambda z: z[0] == 'local' and z[1] == l_):
                        self.carriers.add(l_)
        rets = set(a.cfg.returns)
        seen_issue = set()

        def walk(b, env, depth):
            if self.npaths > MAXPATHS:
                return
            blk = a.blocks[b]
            env = dict(env)
            env['EQS'] = list(env['EQS'])
            for si, st in enumerate(blk['s']):
                self.assign(st, env, (b, si))
            t = blk['t']
            k = t['k']
            if k == 'return':
                self.npaths += 1
                self.at_return(b, env)
                return
            if k == 'call':
                self.call(b, t, env)
                if t.get('t') is not None:
                    walk(t['t'], env, depth + 1)
                return
            if k == 'switch':
                v = self.operand(t['d'], env)
                for s in a.cfg.succ[b]:
                    e2 = env
                    if isinstance(v, tuple) and v[0] in ('disc', 'issome'):
                        listed = {str(val): tgt for val, tgt in t['ts']}
                        if v[0] == 'disc':
                            some = (listed.get('1') == s) if '1' in listed else (s == t['o'] and '0' in listed)
                        else:
                            truth = not any(str(val) == '0' and tgt == s for val, tgt in t['ts'])
                            some = truth == v[2]
                        prev = env['OPT'].get(v[1])
                        if prev is not None and prev != some:
                            continue
                        e2 = dict(env)
                        e2['OPT'] = dict(env['OPT'])
                        e2['OPT'][v[1]] = some
                        walk(s, e2, depth + 1)
                        continue
                    if isinstance(v, tuple) and v[0] == 'cmp' and is_lin(v[2]) and is_lin(v[3]):
                        isfalse = any(str(val) == '0' and tgt == s for val, tgt in t['ts'])
                        holds = not isfalse
                        # the same test decided earlier on this path (operands unchanged: same linear forms) has the same outcome
                        key = tuple(sorted(lin_add(v[2], v[3], -1).items(), key=str))
                        NEG = {'Eq': 'Ne', 'Ne': 'Eq', 'Lt': 'Ge', 'Ge': 'Lt', 'Gt': 'Le', 'Le': 'Gt'}
                        prev = env.get('DEC', {})
                        if prev.get((v[1], key), holds) != holds or prev.get((NEG[v[1]], key), not holds) != (not holds):
                            continue
                        e2 = dict(env)
                        e2['DEC'] = dict(prev)
                        e2['DEC'][(v[1], key)] = holds
                        env_for = e2
                        if (v[1] == 'Eq' and holds) or (v[1] == 'Ne' and not holds):
                            e2 = dict(e2)
                            e2['EQS'] = env['EQS'] + [lin_add(v[2], v[3], -1)]
                    elif isinstance(v, tuple) and v[0] == 'bool':
                        isfalse = any(str(val) == '0' and tgt == s for val, tgt in t['ts'])
                        if v[1] == isfalse:
                            continue            # infeasible
                    walk(s, e2, depth + 1)
                return
            # goto, drop, assert, falseEdge...: normal successors only
            nxt = [s for s in a.cfg.succ[b]]
            tgt = t.get('t')
            if tgt is not None and tgt in nxt:
                walk(tgt, env, depth + 1)
            else:
                for s in nxt:
                    walk(s, env, depth + 1)

        walk(0, env0, 0)
        # de-duplicate issues
        out = []
        for i in self.issues:
            if i not in seen_issue:
                seen_issue.add(i)
                out.append(i)
        self.issues = out
        self.cissues = sorted(set(self.cissues))
        return self


def facts_of(env):
    """decided comparisons of the path as inequalities: [(linear form e, strict)] meaning e < 0 (strict) or e <= 0"""
    out = []
    for (op, key), truth in env.get('DEC', {}).items():
        d = dict(key)
        neg = {k: -v for k, v in d.items()}
        if op == 'Lt':
            out.append((d, True) if truth else (neg, False))
        elif op == 'Le':
            out.append((d, False) if truth else (neg, True))
        elif op == 'Gt':
            out.append((neg, True) if truth else (d, False))
        elif op == 'Ge':
            out.append((neg, False) if truth else (d, True))
    return out


def chunker_spec(ac, env, b):
    """The size rules of a content-defined chunker, stated on one path (all quantities are linear forms):
      * every advance of the tracked length C is zero, the *skip* min(threshold - C - k, N - consumed) taken under
        C + k' < threshold, or the *scan advance*;
      * the boundary search looks at data[consumed .. min(N, consumed + maximum - C)] (consumed = C - L0);
      * the scan advance is the match position / the window length where that plus C stays below the maximum, and
        maximum - C where it does not (or their minimum)."""
    issues = []
    L0 = {'L0': 1}
    eqs = env['EQS']
    facts = facts_of(env)
    mins = env['MIN']

    def consumed(C):
        return lin_add(C, L0, -1)

    def n_atoms(z):
        return [k for k in z if isinstance(k, tuple) and k[0] == 'N']

    def is_input_left(z, C):
        # N - consumed
        na = n_atoms(z)
        return len(na) == 1 and ac.equal(z, lin_add({na[0]: 1}, consumed(C), -1), eqs)

    def rel_threshold(z, C, want_const=True):
        """z + C == field - k (k >= 0): a bound relative to the open chunk; returns the field name"""
        d = lin_add(z, C)
        fs = [k for k in d if isinstance(k, tuple) and k[0] == 'init' and k[1] != ac.len_field]
        if len(fs) == 1 and d[fs[0]] == 1 and set(d) <= {fs[0], 1} and d.get(1, 0) <= 0:
            return fs[0][1]
        return None

    def holds(e, strict):
        for (f, st) in facts:
            if ac.equal(f, e, eqs) and (st or not strict):
                return True
        return False

    def minlike(x, pa, pb):
        """x = min(a, b) with pa(a), pb(b): a min() call, or one of the operands chosen by a decided comparison"""
        if is_lin(x) and len(x) == 1:
            k = next(iter(x))
            if x[k] == 1 and k in mins:
                a_, b_ = mins[k]
                if is_lin(a_) and is_lin(b_) and ((pa(a_) and pb(b_)) or (pa(b_) and pb(a_))):
                    return True
                return False
        if not is_lin(x):
            return False
        for (me, other) in ((pa, pb), (pb, pa)):
            if me(x):
                # x <= y decided for some y with other(y)
                for (f, st) in facts:
                    y = lin_add(x, f, -1)       # f = x - y  =>  y = x - f
                    if other(y):
                        return True
        return False

    incs = [e for e in env['EV'] if e[0] == 'inc']
    nm = env['NM']
    if len(nm) > 1:
        issues.append(('next_match', 'more than one boundary search on a path'))
        return issues
    scan = None
    if nm:
        bcall, sv, c_at = nm[0]
        if not (isinstance(sv, tuple) and sv[0] == 'slice' and len(sv) > 3 and is_lin(sv[1]) and is_lin(sv[3]) and is_lin(c_at)):
            issues.append(('window', 'the slice handed to the boundary search cannot be evaluated'))
            return issues
        ln, st = sv[1], sv[3]
        if not ac.equal(st, consumed(c_at), eqs):
            issues.append(('skip cursor', 'the boundary search starts at input offset %s although %s bytes of the input were added to the open chunk' % (ac.show(st), ac.show(consumed(c_at)))))
        end = lin_add(st, ln)
        is_n = lambda z: len(n_atoms(z)) == 1 and ac.equal(z, {n_atoms(z)[0]: 1}, eqs)
        is_rel_max = lambda z: rel_threshold(lin_add(z, consumed(c_at), -1), c_at) is not None and lin_add(lin_add(z, consumed(c_at), -1), c_at).get(1, 0) == 0
        if not minlike(end, is_n, is_rel_max):
            issues.append(('window', 'the boundary search window ends at %s, not at min(len, consumed + maximum_chunk - cur_chunk_len)' % ac.show(end)))
        some = env['OPT'].get(bcall)
        uo = env.get('UO', {}).get(bcall)
        scan = [{('pay', bcall): 1}] if some else [ln]
        if uo is not None and is_lin(uo) and ac.equal(uo, ln, eqs):
            scan.append({('uo', bcall): 1})
    seen_scan = False
    for (_, site, X, C, V) in incs:
        if X is None or not is_lin(C):
            issues.append(('skip bound', 'an update of the open-chunk length cannot be evaluated'))
            continue
        if not X or V == {}:
            continue
        scan_failed = False
        # the scan advance
        if scan is not None and not seen_scan:
            mx = [k for k in lin_add(X, C) if isinstance(k, tuple) and k[0] == 'init' and k[1] != ac.len_field]
            ok = False
            for sc in scan:
                tot = lin_add(sc, C)
                if ac.equal(X, sc, eqs):
                    # below the maximum: (sc + C - max) < 0 decided for some field max, or a clamp min(sc, max - C)
                    ok = ok or any(st_ and any(ac.equal(f, lin_add(tot, {k: 1}, -1), eqs) for k in [kk for kk in f if isinstance(kk, tuple) and kk[0] == 'init']) for (f, st_) in facts)
                if len(mx) == 1 and ac.equal(lin_add(X, C), {mx[0]: 1}, eqs):
                    # forced: X = max - C, decided (max - sc - C) <= 0
                    ok = ok or holds(lin_add({mx[0]: 1}, tot, -1), False)
                ok = ok or minlike(X, lambda z, sc=sc: ac.equal(z, sc, eqs), lambda z: rel_threshold(z, C) is not None and lin_add(z, C).get(1, 0) == 0)
            if ok:
                seen_scan = True
                continue
            scan_failed = True
        # the skip
        fld = [None]
        def pa(z):
            f_ = rel_threshold(z, C)
            if f_ is not None:
                fld[0] = f_
            return f_ is not None
        is_skip = not seen_scan and minlike(X, pa, lambda z: is_input_left(z, C))
        if is_skip and fld[0] is not None and not any(isinstance(k, tuple) and k[0] == 'N' for k in X) and not (len(X) == 1 and next(iter(X)) in mins):
            # X itself is the threshold operand: then the decided comparison must bound it by the input left
            pass
        if is_skip:
            # guard: C + k < threshold
            def is_guard(f):
                d = lin_add(f, C, -1)
                return set(d) <= {('init', fld[0]), 1} and d.get(('init', fld[0])) == -1 and d.get(1, 0) >= 0
            okg = any(st_ and is_guard(f) for (f, st_) in facts)
            if not okg:
                issues.append(('skip site', 'the minimum-size skip is taken without a cur_chunk_len + k < %s test on the path' % fld[0]))
            continue
        if scan_failed:
            issues.append(('forced cut', 'the open-chunk length advances by %s after the boundary search: neither the scanned amount below the maximum nor maximum_chunk - cur_chunk_len where the maximum is reached' % ac.show(X)))
            continue
        issues.append(('skip bound', 'the open-chunk length advances by %s (from %s), which is neither min(threshold - cur_chunk_len - k, unconsumed input) nor the advance of the boundary search' % (ac.show(X), ac.show(C))))
    return issues
