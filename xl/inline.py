"""Inlining of functions that do not exist in the baseline decomposition.

The rules are written against the function decomposition of the pinned tree (xl/baseline_fns.json: every fn / method of
the workspace crates at the commit the rules were confirmed on).  A later change may move a piece of one of those
functions into a *new* private helper (extract-function refactoring) — or hide a defect in one.  Either way the rules
must see the code, so every call of a synchronous workspace function that is not in the baseline table is replaced by
the callee's MIR (locals and blocks renumbered, parameters bound to the arguments, `return` turned into an assignment
of the destination and a jump to the continuation), up to MAX_ROUNDS levels.  A helper all of whose calls were inlined
and that is not exported is removed from the fact base, so censuses ("who writes this field") attribute its
statements to the callers.  Async helpers (their body is a coroutine that the caller awaits) cannot be inlined this way;
the rules that need them use summaries (DESIGN.md §10.6).

This is a transformation of the analysed program representation, not of /repo.
"""
import copy
import json
import os

from .flow import strip_generics

MAX_ROUNDS = 3
MAX_BLOCKS = 400
HERE = os.path.dirname(os.path.abspath(__file__))
BASELINE = os.path.join(HERE, 'baseline_fns.json')
FN_KINDS = ('Fn', 'AssocFn')
BLOCK_KEYS = ('t', 'u', 'o', 'im', 'cd')


def load_baseline():
    with open(BASELINE) as fh:
        return set(json.load(fh))


def fn_paths(F):
    return sorted(p for p, b in F.bodies.items() if b.get('kind') in FN_KINDS)


def _ren(x, loff, boff, term=False, lmap=None):
    """renumber locals (place 'l', index 'ix') and, inside terminators, block ids; lmap: callee local -> caller local
    for the locals that are not simply shifted (coroutine environment, resume argument)"""
    if isinstance(x, dict):
        out = {}
        for k, v in x.items():
            if k == 'l' and isinstance(v, int):
                out[k] = lmap[v] if lmap and v in lmap else v + loff
            elif k == 'ix' and isinstance(v, int):
                out[k] = lmap[v] if lmap and v in lmap else v + loff
            elif term and k in BLOCK_KEYS and isinstance(v, int) and not isinstance(v, bool):
                out[k] = v + boff
            elif term and k == 'ts':
                out[k] = [[a, b + boff] for (a, b) in v]
            else:
                out[k] = _ren(v, loff, boff, False, lmap)
        return out
    if isinstance(x, list):
        return [_ren(y, loff, boff, False, lmap) for y in x]
    return x


def _inline_site(caller, site, callee):
    L = len(caller['locals'])
    B = len(caller['blocks'])
    t = caller['blocks'][site]['t']
    if len(t['args']) != callee['argc']:
        return False
    for l in callee['locals']:
        nl = dict(l)
        nl['inl'] = callee['qpath']
        caller['locals'].append(nl)
    ln = t.get('ln', 0)
    stmts = caller['blocks'][site]['s']
    for i, arg in enumerate(t['args']):
        stmts.append({'d': {'l': L + 1 + i}, 'r': {'k': 'use', 'a': arg}, 'ln': ln, 'inl': callee['qpath']})
    cont, unwind, dest = t.get('t'), t.get('u'), t['d']
    for blk in callee['blocks']:
        nb = {'s': [_ren(s, L, B) for s in copy.deepcopy(blk['s'])], 't': _ren(copy.deepcopy(blk['t']), L, B, True)}
        for s in nb['s']:
            s['inl'] = callee['qpath']
            s['fl'] = callee['file']
        if blk.get('cl'):
            nb['cl'] = blk['cl']
        k = nb['t']['k']
        tl = nb['t'].get('ln', ln)
        if k == 'return':
            nb['s'].append({'d': dest, 'r': {'k': 'use', 'a': {'mv': {'l': L}}}, 'ln': ln, 'inl': callee['qpath']})
            nb['t'] = {'k': 'goto', 't': cont, 'ln': ln} if cont is not None else {'k': 'unreachable', 'ln': tl}
        elif k == 'resume':
            nb['t'] = {'k': 'goto', 't': unwind, 'ln': tl} if unwind is not None else {'k': 'resume', 'ln': tl}
        nb['t']['fl'] = callee['file']
        nb['t']['inl'] = callee['qpath']
        caller['blocks'].append(nb)
    caller['blocks'][site]['t'] = {'k': 'goto', 't': B, 'ln': ln}
    caller.setdefault('inlined', []).append(callee['qpath'])
    return True


def _awaitee_local(body, operand, depth=0):
    """the local that holds the future polled through `operand` (Pin::new_unchecked(&mut *&mut awaitee))"""
    pl = operand.get('mv') or operand.get('cp') if isinstance(operand, dict) else None
    if pl is None or depth > 6:
        return None
    l = pl['l']
    defs = []
    for blk in body['blocks']:
        for st in blk['s']:
            d = st.get('d')
            if d and d.get('l') == l and 'p' not in d:
                defs.append(('s', st['r']))
        t = blk['t']
        if t['k'] == 'call' and t['d'].get('l') == l and 'p' not in t['d']:
            defs.append(('c', t))
    if len(defs) != 1:
        return None
    kind, r = defs[0]
    if kind == 'c':
        if (r.get('fn') or '').endswith('Pin::<Ptr>::new_unchecked') or strip_generics(r.get('fn') or '').endswith('Pin::new_unchecked'):
            return _awaitee_local(body, r['args'][0], depth + 1)
        return None
    if r['k'] == 'ref':
        base = r['p']
        if 'p' not in base or not base['p']:
            return base['l']                              # &mut awaitee
        if base['p'] == ['*']:
            return _awaitee_local(body, {'mv': {'l': base['l']}}, depth + 1)   # &mut *r
        return None
    if r['k'] == 'use':
        return _awaitee_local(body, r['a'], depth + 1)
    return None


def _inline_poll_site(caller, site, callee):
    """Replace `p = Future::poll(pin(&mut awaitee), cx)` — where the awaitee is the coroutine of a new async fn — by the
    coroutine's body: its environment `_1` is the awaitee, its resume argument `_2` the caller's, its `return v` becomes
    `p = Poll::Ready(v)` followed by the original continuation (the Pending arm then is unreachable for the
    path-sensitive reachability)."""
    t = caller['blocks'][site]['t']
    aw = _awaitee_local(caller, t['args'][0])
    if aw is None or len(caller['locals']) < 3 or 'ResumeTy' not in caller['locals'][2].get('ty', ''):
        return False
    L = len(caller['locals'])
    B = len(caller['blocks'])
    for l in callee['locals']:
        nl = dict(l)
        nl['inl'] = callee['qpath']
        caller['locals'].append(nl)
    lmap = {1: aw, 2: 2}
    ln = t.get('ln', 0)
    cont, unwind, dest = t.get('t'), t.get('u'), t['d']
    for blk in callee['blocks']:
        nb = {'s': [_ren(st, L, B, False, lmap) for st in copy.deepcopy(blk['s'])], 't': _ren(copy.deepcopy(blk['t']), L, B, True, lmap)}
        for st in nb['s']:
            st['inl'] = callee['qpath']
            st['fl'] = callee['file']
        if blk.get('cl'):
            nb['cl'] = blk['cl']
        k = nb['t']['k']
        tl = nb['t'].get('ln', ln)
        if k == 'return':
            nb['s'].append({'d': dest, 'r': {'k': 'agg', 'ak': 'adt', 'adt': 'core::task::poll::Poll', 'var': 'Ready', 'dv': 0, 'fn': ['0'], 'ops': [{'mv': {'l': L}}]},
                            'ln': ln, 'inl': callee['qpath']})
            nb['t'] = {'k': 'goto', 't': cont, 'ln': ln} if cont is not None else {'k': 'unreachable', 'ln': tl}
        elif k == 'resume':
            nb['t'] = {'k': 'goto', 't': unwind, 'ln': tl} if unwind is not None else {'k': 'resume', 'ln': tl}
        elif k == 'coroutine_drop':
            nb['t'] = {'k': 'unreachable', 'ln': tl}
        nb['t']['fl'] = callee['file']
        nb['t']['inl'] = callee['qpath']
        caller['blocks'].append(nb)
    caller['blocks'][site]['t'] = {'k': 'goto', 't': B, 'ln': ln}
    caller.setdefault('inlined', []).append(callee['qpath'])
    return True


def inline_new_functions(F, baseline=None):
    """mutates F.bodies; returns {helper path: [callers]} for the evidence"""
    baseline = baseline if baseline is not None else load_baseline()
    new = {p for p, b in F.bodies.items()
           if b.get('kind') in FN_KINDS and p not in baseline and not b.get('coroutine') and not b['crate'].startswith('bin:')
           and '::tests::' not in p and len(b['blocks']) <= MAX_BLOCKS
           }
    # `async fn`s among them: the shell (which only builds the coroutine) is inlined like any function; the coroutine
    # body is inlined where the caller polls it (an `.await`)
    new_async = {p + '::{closure#0}' for p in new if (F.bodies.get(p + '::{closure#0}') or {}).get('coroutine')}
    F.inlined_bodies = {}
    if not new:
        return {}
    norm = {}
    for p in new:
        norm[strip_generics(p)] = p
    report = {}
    pristine = {p: copy.deepcopy(F.bodies[p]) for p in new}
    for _round in range(MAX_ROUNDS):
        changed = False
        for p, b in list(F.bodies.items()):
            if '::tests::' in p:
                continue
            nblocks = len(b['blocks'])
            for bi in range(nblocks):
                blk = b['blocks'][bi]
                t = blk['t']
                if t['k'] != 'call' or blk.get('cl'):
                    continue
                q = None
                for key in ('res', 'fn'):
                    v = t.get(key)
                    if v and strip_generics(v) in norm:
                        q = norm[strip_generics(v)]
                        break
                if q is None or q == p or q in b.get('inlined_chain', ()):
                    continue
                callee = pristine[q]
                if _inline_site(b, bi, callee):
                    report.setdefault(q, []).append(p)
                    changed = True
        if not changed:
            break
    if new_async:
        pristine_co = {q: copy.deepcopy(F.bodies[q]) for q in new_async if len(F.bodies[q]['blocks']) <= 4 * MAX_BLOCKS}
        for _round in range(MAX_ROUNDS):
            changed = False
            for p, b in list(F.bodies.items()):
                if '::tests::' in p or not b.get('coroutine'):
                    continue
                for bi in range(len(b['blocks'])):
                    blk = b['blocks'][bi]
                    t = blk['t']
                    if t['k'] != 'call' or blk.get('cl') or not (t.get('fn') or '').endswith('Future::poll'):
                        continue
                    q = t.get('res')
                    if q not in pristine_co or q == p:
                        continue
                    if _inline_poll_site(b, bi, pristine_co[q]):
                        report.setdefault(q, []).append(p)
                        changed = True
            if not changed:
                break
    # a coroutine body all of whose poll sites were expanded, and whose shell is gone, is no unit of its own any more
    def _drop_inlined_coroutines():
        polled = set()
        for p, b in F.bodies.items():
            for blk in b['blocks']:
                t = blk['t']
                if t['k'] == 'call' and (t.get('fn') or '').endswith('Future::poll') and t.get('res') in new_async:
                    polled.add(t['res'])
        for q in list(new_async):
            shell = q[:-len('::{closure#0}')]
            if q in report and q not in polled and shell not in F.bodies and q in F.bodies:
                b = F.bodies[q]
                F.inlined_bodies[q] = b
                del F.bodies[q]
                F.by_crate[b['crate']] = [x for x in F.by_crate[b['crate']] if x is not b]
    # drop helpers that are fully inlined and cannot be reached from outside the workspace
    still_called = set()
    for p, b in F.bodies.items():
        for blk in b['blocks']:
            t = blk['t']
            if t['k'] == 'call':
                for key in ('res', 'fn'):
                    v = t.get(key)
                    if v and strip_generics(v) in norm and norm[strip_generics(v)] != p:
                        still_called.add(norm[strip_generics(v)])
                for o in t['args']:
                    if isinstance(o, dict) and 'fn' in o and strip_generics(o['fn']) in norm:
                        still_called.add(norm[strip_generics(o['fn'])])
            for s in blk['s']:
                r = s.get('r')
                if r:
                    for o in ([r.get('a'), r.get('b')] + list(r.get('ops', []))):
                        if isinstance(o, dict) and 'fn' in o and strip_generics(o['fn']) in norm:
                            still_called.add(norm[strip_generics(o['fn'])])
    F.inlined_bodies = {q: pristine[q] for q in report if q in pristine}     # the helpers as written (for rules about the helper as a unit)
    for q in list(report):
        if q not in pristine:
            continue        # coroutine bodies stay in the fact base
        b = F.bodies.get(q)
        if b is not None and q not in still_called and not b.get('exported'):
            del F.bodies[q]
            F.by_crate[b['crate']] = [x for x in F.by_crate[b['crate']] if x is not b]
            # nested closures of the removed helper stay: they are referenced from the inlined aggregate statements
    if new_async:
        _drop_inlined_coroutines()
    return report


# ---------------------------------------------------------------------------------------------------
# second view: Option / Result combinators with a closure argument written out as the match they stand for
#
#   r.map(f)            Ok(v) => Ok(f(v)),  Err(e) => Err(e)          o.map(f)            Some(v) => Some(f(v)), None => None
#   r.map_err(f)        Ok(v) => Ok(v),     Err(e) => Err(f(e))       o.and_then(f)       Some(v) => f(v),       None => None
#   r.and_then(f)       Ok(v) => f(v),      Err(e) => Err(e)          o.unwrap_or_else(f) Some(v) => v,          None => f()
#   r.or_else(f)        Ok(v) => Ok(v),     Err(e) => f(e)            o.ok_or_else(f)     Some(v) => Ok(v),      None => Err(f())
#   r.unwrap_or_else(f) Ok(v) => v,         Err(e) => f(e)
#
# The closure's MIR is inlined where it is applied.  The plain view stays the primary one; a property whose rules do
# not all pass on the plain view is evaluated again on this view, and the better verdict counts: both are faithful
# representations of the same program, and every rule fails closed on what it cannot find.
RES, OPT, POLL = 'core::result::Result', 'core::option::Option', 'core::task::poll::Poll'
# callee -> (enum, variant that is transformed, how): how in wrap(same variant) | flat | unwrap ; the other variant: keep | payload | wrap_err
COMB = {
    RES + '::map': (RES, 'Ok', 'wrap', 'keep'), RES + '::map_err': (RES, 'Err', 'wrap', 'keep'), RES + '::and_then': (RES, 'Ok', 'flat', 'keep'),
    RES + '::or_else': (RES, 'Err', 'flat', 'keep'), RES + '::unwrap_or_else': (RES, 'Err', 'flat', 'payload'),
    OPT + '::map': (OPT, 'Some', 'wrap', 'keep'), OPT + '::and_then': (OPT, 'Some', 'flat', 'keep'),
    OPT + '::unwrap_or_else': (OPT, 'None', 'flat', 'payload'), OPT + '::ok_or_else': (OPT, 'None', 'wrap_err', 'wrap_ok'),
    POLL + '::map': (POLL, 'Ready', 'wrap', 'keep'),        # Ready(v) => Ready(f(v)), Pending => Pending
}
VAR = {RES: {'Ok': 0, 'Err': 1}, OPT: {'None': 0, 'Some': 1}, POLL: {'Ready': 0, 'Pending': 1}}
HAS_PAYLOAD = {'Ok': True, 'Err': True, 'Some': True, 'None': False, 'Ready': True, 'Pending': False}


def _closure_of(body, operand):
    """(closure path, local holding the closure value) if the operand is a local whose only definition is a closure aggregate"""
    pl = operand.get('mv') or operand.get('cp')
    if pl is None or 'p' in pl:
        return None
    l = pl['l']
    found = None
    for blk in body['blocks']:
        for s in blk['s']:
            d = s.get('d')
            if d and d.get('l') == l and 'p' not in d:
                r = s.get('r')
                if found is not None or not r:
                    return None
                if r['k'] == 'agg' and r.get('ak') == 'closure':
                    found = (r['def'], l)
                elif r['k'] == 'use' and ('mv' in r['a'] or 'cp' in r['a']):
                    inner = _closure_of(body, r['a'])
                    if inner is None:
                        return None
                    found = inner
                else:
                    return None
        t = blk['t']
        if t['k'] == 'call' and t['d'].get('l') == l and 'p' not in t['d']:
            return None
    return found


def _agg(adt, var, ops):
    return {'k': 'agg', 'ak': 'adt', 'adt': adt, 'var': var, 'dv': VAR[adt][var], 'fn': ['0'] if ops else [], 'ops': ops}


def desugar_combinators(F):
    n = 0
    for p, b in list(F.bodies.items()):
        if '::tests::' in p or b['crate'].startswith('bin:'):
            continue
        for bi in range(len(b['blocks'])):
            blk = b['blocks'][bi]
            t = blk['t']
            if t['k'] != 'call' or blk.get('cl') or len(t['args']) != 2:
                continue
            spec = COMB.get(strip_generics(t.get('fn') or ''))
            if spec is None or t.get('t') is None:
                continue
            clo = _closure_of(b, t['args'][1])
            cb = F.bodies.get(clo[0]) if clo else None
            # a variant constructor used as the function (`.map(Some)`, `.map_err(MyError::Io)`): f(x) is the aggregate
            ctor = None
            a1 = t['args'][1]
            if clo is None and 'fn' in a1 and 'c' in a1:
                cp = strip_generics(a1['fn'])
                if cp in ('core::option::Option::Some', 'core::result::Result::Ok', 'core::result::Result::Err'):
                    ctor = (cp.rsplit('::', 1)[0], cp.rsplit('::', 1)[1])
                elif '{' + cp + '}' in a1.get('ty', '') and cp.split('::')[-1][:1].isupper() and len(cp.split('::')) >= 2 and cp.rsplit('::', 1)[0] in F.adts:
                    adt_ = F.adts[cp.rsplit('::', 1)[0]]
                    if any(v_.get('n') == cp.split('::')[-1] or v_.get('name') == cp.split('::')[-1] for v_ in adt_.get('variants', [])):
                        ctor = (cp.rsplit('::', 1)[0], cp.rsplit('::', 1)[1])
            if ctor is None and (cb is None or cb.get('coroutine') or len(cb['blocks']) > MAX_BLOCKS):
                continue
            enum, var, how, other = spec
            takes_arg = HAS_PAYLOAD[var]
            if ctor is not None and not takes_arg:
                continue
            if ctor is None and cb['argc'] != (2 if takes_arg else 1):
                continue
            ln = t.get('ln', 0)
            recv = t['args'][0]
            rpl = recv.get('mv') or recv.get('cp')
            if rpl is None:
                continue
            L = len(b['locals'])
            # new locals: receiver copy, discriminant, payload of the transformed variant, closure result, payload of the other variant
            for ty in ('<receiver>', 'isize', '<payload>', '<closure result>', '<other payload>'):
                b['locals'].append({'ty': ty})
            R, D, V, C, O = L, L + 1, L + 2, L + 3, L + 4
            blk['s'].append({'d': {'l': R}, 'r': {'k': 'use', 'a': recv}, 'ln': ln})
            blk['s'].append({'d': {'l': D}, 'r': {'k': 'discr', 'p': {'l': R}, 'pty': enum + '<..>'}, 'ln': ln})
            B = len(b['blocks'])
            cont, unwind, dest = t['t'], t.get('u'), t['d']
            vi_t, vi_o = VAR[enum][var], 1 - VAR[enum][var]
            ovar = [k for k, v in VAR[enum].items() if v == vi_o][0]
            # block B: transformed variant: bind payload, run the closure (as a call so that _inline_site can expand it)
            stm = []
            if takes_arg:
                stm.append({'d': {'l': V}, 'r': {'k': 'use', 'a': {'mv': {'l': R, 'p': [{'dc': var, 'vi': vi_t}, {'f': 0, 'n': '0', 'o': enum}]}}}, 'ln': ln})
            if ctor is not None:
                if ctor[0] in VAR and ctor[1] in VAR[ctor[0]]:
                    ag = _agg(ctor[0], ctor[1], [{'mv': {'l': V}}])
                else:
                    ag = {'k': 'agg', 'ak': 'adt', 'adt': ctor[0], 'var': ctor[1], 'fn': ['0'], 'ops': [{'mv': {'l': V}}]}
                stm.append({'d': {'l': C}, 'r': ag, 'ln': ln})
                b['blocks'].append({'s': stm, 't': {'k': 'goto', 't': B + 1, 'ln': ln}})
            else:
                env_ref = cb['locals'][1]['ty'].startswith('&')
                E = len(b['locals'])
                b['locals'].append({'ty': cb['locals'][1]['ty']})
                stm.append({'d': {'l': E}, 'r': ({'k': 'ref', 'm': cb['locals'][1]['ty'].startswith('&mut'), 'p': {'l': clo[1]}} if env_ref else {'k': 'use', 'a': {'mv': {'l': clo[1]}}}), 'ln': ln})
                args = [{'mv': {'l': E}}] + ([{'mv': {'l': V}}] if takes_arg else [])
                b['blocks'].append({'s': stm, 't': {'k': 'call', 'fn': clo[0], 'args': args, 'd': {'l': C}, 't': B + 1, 'u': unwind, 'ln': ln, 'ik': 'item'}})
            # block B+1: wrap the closure result
            if how == 'wrap':
                rv = _agg(enum, var, [{'mv': {'l': C}}])
            elif how == 'wrap_err':
                rv = _agg(RES, 'Err', [{'mv': {'l': C}}])
            else:
                rv = {'k': 'use', 'a': {'mv': {'l': C}}}
            b['blocks'].append({'s': [{'d': dest, 'r': rv, 'ln': ln}], 't': {'k': 'goto', 't': cont, 'ln': ln}})
            # block B+2: the other variant
            stm = []
            if HAS_PAYLOAD[ovar]:
                stm.append({'d': {'l': O}, 'r': {'k': 'use', 'a': {'mv': {'l': R, 'p': [{'dc': ovar, 'vi': vi_o}, {'f': 0, 'n': '0', 'o': enum}]}}}, 'ln': ln})
            if other == 'keep':
                rv = _agg(enum, ovar, [{'mv': {'l': O}}] if HAS_PAYLOAD[ovar] else [])
            elif other == 'wrap_ok':
                rv = _agg(RES, 'Ok', [{'mv': {'l': O}}])
            else:
                rv = {'k': 'use', 'a': {'mv': {'l': O}}}
            stm.append({'d': dest, 'r': rv, 'ln': ln})
            b['blocks'].append({'s': stm, 't': {'k': 'goto', 't': cont, 'ln': ln}})
            blk['t'] = {'k': 'switch', 'd': {'mv': {'l': D}}, 'dty': 'isize', 'ts': [[vi_t, B]], 'o': B + 2, 'ln': ln}
            # expand the closure call
            if ctor is None and not _inline_site(b, B, cb):
                raise RuntimeError('cannot inline closure %s' % clo[0])
            n += 1
    return n
