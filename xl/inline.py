"""Inlining of functions that do not exist in the baseline decomposition.

The rules are written against the function decomposition of the pinned tree (xl/baseline_fns.json: every fn / method of
the workspace crates at the commit the rules were confirmed on).  A later change may move a piece of one of those
functions into a *new* private helper (extract-function refactoring) — or hide a defect in one.  Either way the rules
must see the code, so every call of a synchronous workspace function that is not in the baseline table is replaced by
the callee's MIR (locals and blocks renumbered, parameters bound to the arguments, `return` turned into an assignment
of the destination and a jump to the continuation), up to MAX_ROUNDS levels.  A helper all of whose calls were inlined
and that is not exported is removed from the fact base, so censuses ("who writes this field") attribute its
statements to the callers.  Async helpers (their body is a coroutine that the caller awaits) cannot be inlined this way;
the rules that need them use summaries (DESIGN.md §10.6).

This is a transformation of the analysed program representation, not of /repo.
"""
import copy
import json
import os

from .flow import strip_generics

MAX_ROUNDS = 3
MAX_BLOCKS = 400
HERE = os.path.dirname(os.path.abspath(__file__))
BASELINE = os.path.join(HERE, 'baseline_fns.json')
FN_KINDS = ('Fn', 'AssocFn')
BLOCK_KEYS = ('t', 'u', 'o', 'im', 'cd')


def load_baseline():
    with open(BASELINE) as fh:
        return set(json.load(fh))


def fn_paths(F):
    return sorted(p for p, b in F.bodies.items() if b.get('kind') in FN_KINDS)


def _ren(x, loff, boff, term=False):
    """renumber locals (place 'l', index 'ix') and, inside terminators, block ids"""
    if isinstance(x, dict):
        out = {}
        for k, v in x.items():
            if k == 'l' and isinstance(v, int):
                out[k] = v + loff
            elif k == 'ix' and isinstance(v, int):
                out[k] = v + loff
            elif term and k in BLOCK_KEYS and isinstance(v, int) and not isinstance(v, bool):
                out[k] = v + boff
            elif term and k == 'ts':
                out[k] = [[a, b + boff] for (a, b) in v]
            else:
                out[k] = _ren(v, loff, boff, False) if not (term and k in ('args', 'd', 'p', 'v', 'ra', 'c', 'idx', 'len')) else _ren(v, loff, boff, False)
        return out
    if isinstance(x, list):
        return [_ren(y, loff, boff, False) for y in x]
    return x


def _inline_site(caller, site, callee):
    L = len(caller['locals'])
    B = len(caller['blocks'])
    t = caller['blocks'][site]['t']
    if len(t['args']) != callee['argc']:
        return False
    for l in callee['locals']:
        nl = dict(l)
        nl['inl'] = callee['qpath']
        caller['locals'].append(nl)
    ln = t.get('ln', 0)
    stmts = caller['blocks'][site]['s']
    for i, arg in enumerate(t['args']):
        stmts.append({'d': {'l': L + 1 + i}, 'r': {'k': 'use', 'a': arg}, 'ln': ln, 'inl': callee['qpath']})
    cont, unwind, dest = t.get('t'), t.get('u'), t['d']
    for blk in callee['blocks']:
        nb = {'s': [_ren(s, L, B) for s in copy.deepcopy(blk['s'])], 't': _ren(copy.deepcopy(blk['t']), L, B, True)}
        for s in nb['s']:
            s['inl'] = callee['qpath']
            s['fl'] = callee['file']
        if blk.get('cl'):
            nb['cl'] = blk['cl']
        k = nb['t']['k']
        tl = nb['t'].get('ln', ln)
        if k == 'return':
            nb['s'].append({'d': dest, 'r': {'k': 'use', 'a': {'mv': {'l': L}}}, 'ln': ln, 'inl': callee['qpath']})
            nb['t'] = {'k': 'goto', 't': cont, 'ln': ln} if cont is not None else {'k': 'unreachable', 'ln': tl}
        elif k == 'resume':
            nb['t'] = {'k': 'goto', 't': unwind, 'ln': tl} if unwind is not None else {'k': 'resume', 'ln': tl}
        nb['t']['fl'] = callee['file']
        nb['t']['inl'] = callee['qpath']
        caller['blocks'].append(nb)
    caller['blocks'][site]['t'] = {'k': 'goto', 't': B, 'ln': ln}
    caller.setdefault('inlined', []).append(callee['qpath'])
    return True


def inline_new_functions(F, baseline=None):
    """mutates F.bodies; returns {helper path: [callers]} for the evidence"""
    baseline = baseline if baseline is not None else load_baseline()
    new = {p for p, b in F.bodies.items()
           if b.get('kind') in FN_KINDS and p not in baseline and not b.get('coroutine') and not b['crate'].startswith('bin:')
           and '::tests::' not in p and len(b['blocks']) <= MAX_BLOCKS
           # an `async fn`: its body only builds the coroutine; the caller awaits it (handled by summaries, not inlining)
           and not (F.bodies.get(p + '::{closure#0}') or {}).get('coroutine')}
    if not new:
        return {}
    norm = {}
    for p in new:
        norm[strip_generics(p)] = p
    report = {}
    pristine = {p: copy.deepcopy(F.bodies[p]) for p in new}
    for _round in range(MAX_ROUNDS):
        changed = False
        for p, b in list(F.bodies.items()):
            if '::tests::' in p:
                continue
            nblocks = len(b['blocks'])
            for bi in range(nblocks):
                blk = b['blocks'][bi]
                t = blk['t']
                if t['k'] != 'call' or blk.get('cl'):
                    continue
                q = None
                for key in ('res', 'fn'):
                    v = t.get(key)
                    if v and strip_generics(v) in norm:
                        q = norm[strip_generics(v)]
                        break
                if q is None or q == p or q in b.get('inlined_chain', ()):
                    continue
                callee = pristine[q]
                if _inline_site(b, bi, callee):
                    report.setdefault(q, []).append(p)
                    changed = True
        if not changed:
            break
    # drop helpers that are fully inlined and cannot be reached from outside the workspace
    still_called = set()
    for p, b in F.bodies.items():
        for blk in b['blocks']:
            t = blk['t']
            if t['k'] == 'call':
                for key in ('res', 'fn'):
                    v = t.get(key)
                    if v and strip_generics(v) in norm and norm[strip_generics(v)] != p:
                        still_called.add(norm[strip_generics(v)])
                for o in t['args']:
                    if isinstance(o, dict) and 'fn' in o and strip_generics(o['fn']) in norm:
                        still_called.add(norm[strip_generics(o['fn'])])
            for s in blk['s']:
                r = s.get('r')
                if r:
                    for o in ([r.get('a'), r.get('b')] + list(r.get('ops', []))):
                        if isinstance(o, dict) and 'fn' in o and strip_generics(o['fn']) in norm:
                            still_called.add(norm[strip_generics(o['fn'])])
    for q in list(report):
        b = F.bodies.get(q)
        if b is not None and q not in still_called and not b.get('exported'):
            del F.bodies[q]
            F.by_crate[b['crate']] = [x for x in F.by_crate[b['crate']] if x is not b]
            # nested closures of the removed helper stay: they are referenced from the inlined aggregate statements
    return report
