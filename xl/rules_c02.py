"""C02 — everything a session uploads is self-consistent and server-verifiable (two structural clauses only).

  R02a  RawXorbData::from_chunks: one pass over the chunk slice pushes, per chunk c, the record (c.hash, len(c.data), pos)
        and the data c.data, with pos read before it advances by len(c.data) and by nothing else; the xorb hash is
        cas_node_hash over (c.hash, len(c.data)) mapped over the same slice; the header records that hash, the slice
        length and the final pos.  So the name under which a xorb is stored is the hash of exactly the chunks stored in
        it, in order, with the lengths of the stored data — what both validators recompute.
  R02b  FileDeduper::finalize: the verification hash of a segment is range_hash_from_chunks over
        chunk_hashes[idx .. idx + n] with n = entry.chunk_index_end - entry.chunk_index_start, idx read before it advances
        by exactly n, once per segment; the file hash is file_node_hash(chunk_hashes, salt) and heads the record; the record
        counts file_info.len() segments, carries the verification flag, and the metadata-ext flag is is_some() of the ext
        that is stored.
"""
from .core import an, strip_generics as sg
from . import flow, paths
from .rules_c17 import lin, lin_eq, lin_sub, uncast, updates, reads, precedes, range_parts, _strip_sites, _path, _deref

EXPLANATION = (
    'Decides two structural necessary conditions: (R02a) the hash a xorb is stored under is computed over exactly the (hash, data length) pairs of the chunks stored in it, in '
    'order, from one pass over the same slice, and its recorded chunk offsets are the running sum of the stored lengths read before each advance; (R02b) each segment\'s verification '
    'hash covers chunk_hashes[idx .. idx + n] with n the segment\'s chunk count and idx advanced by exactly n per segment, the record is headed by file_node_hash(chunk_hashes, salt), '
    'counts its segments and flags verification/metadata-ext consistently. Not decided: that stored xorbs decode, that referenced xorbs exist and indices are in range, byte sums, SHA-256.')

FC = 'deduplication::raw_xorb_data::RawXorbData::from_chunks'
FIN = 'deduplication::file_deduplication::FileDeduper::<DataInterfaceType>::finalize'


def run(ctx):
    ctx.rule('R02a', 'from_chunks: records, data and the xorb hash come from one pass over the same chunks; offsets are the running sum of the stored lengths, read before each advance')
    ctx.rule('R02b', 'finalize: a segment\'s verification hash covers chunk_hashes[idx .. idx + n], idx advancing by n per segment; header hash, count and flags agree with what is stored')
    ctx.guarded('R02a', FC, lambda: r02a(ctx))
    ctx.guarded('R02b', FIN, lambda: r02b(ctx))


def _is_len_of_param(e):
    e = uncast(e)
    if e[0] == 'len':
        b = _deref(e[1])
    elif e[0] == 'call' and _last(e[1]) == 'len' and len(e[2]) == 1:
        b = _deref(e[2][0])
    else:
        return False
    return b[0] == 'param' and b[1] == 1


def _last(c):
    return sg(c).split('::')[-1]


def r02a(ctx):
    F = ctx.F
    a = an(F.body(FC))
    fn = FC
    bodies = [a] + [an(b) for p_, b in sorted(F.bodies.items()) if p_.startswith(FC + '::{')]
    is_param1 = lambda z: _deref(z)[0] == 'param' and _deref(z)[1] == 1
    PLAIN = ('iter', 'map', 'collect', 'deref', 'into_iter', 'as_slice', 'as_ref', 'cloned', 'copied', 'to_vec', 'from_iter', 'clone')
    is_len_of_data = lambda z, base: uncast(z)[0] in ('call', 'len') and flow.mentions(z, lambda y: y[0] == 'field' and y[2] == 'data' and _strip_sites(y[1]) == _strip_sites(base))

    def mapped_over_param(x):
        """closure body x is the per-element function of a `map` over the chunks parameter (nothing selecting or reordering in between)"""
        for m in a.calls():
            t = a.term(m)
            if _last(t.get('fn', '')) != 'map' or len(t['args']) != 2:
                continue
            f_ = uncast(a.arg(m, 1))
            if f_[0] == 'agg' and f_[1] == 'closure' and f_[2] == x.path:
                ad = []
                flow.mentions(a.arg(m, 0), lambda y: y[0] == 'call' and (ad.append(_last(y[1])) or False))
                return flow.mentions(a.arg(m, 0), lambda y: y[0] == 'param' and y[1] == 1) and all(n_ in PLAIN for n_ in ad)
        return False

    # --- the per-chunk record
    recs = [(x, c) for x in bodies for c in x.calls() if 'CASChunkSequenceEntry' in sg(x.term(c).get('fn', '')) and _last(x.term(c).get('fn', '')) == 'new']
    if not ctx.check(len(recs) == 1, 'R02a', fn, 'record site', '-', 'one site builds the per-chunk record', 'expected one CASChunkSequenceEntry::new site, found %d' % len(recs)):
        return
    x, r = recs[0]
    h, ln, pos = [uncast(x.arg(r, i)) for i in range(3)]
    elem = _path(h)[0] if _path(h)[1] == ('hash',) else None
    ctx.check(elem is not None and is_len_of_data(ln, elem), 'R02a', fn, 'record fields', x.loc(r), 'the record holds the chunk\'s hash and the length of the chunk\'s data',
              'the record built for a chunk is not (c.hash, c.data.len(), ..) of one chunk: %s, %s' % (flow.show(h)[:50], flow.show(ln)[:50]))
    in_main = x.path == FC
    lp = None
    if in_main:
        from . import loops as L
        lps = [l for l in x.cfg.loops().items() if r in l[1]]
        lp = min(lps, key=lambda l: len(l[1])) if lps else None
        wp = L.whole_pass(x, lp, lambda z: z[0] == 'param' and z[1] == 1) if lp else None
        ctx.check(wp is not None, 'R02a', fn, 'whole pass', x.loc(r), 'the record is built once per element of a loop that passes over the whole chunks parameter, in order',
                  'cannot establish that the loop visits every chunk of the parameter once, in order')
        pushed = [c for c in x.calls('alloc::vec::Vec::push') if c in (lp[1] if lp else ()) and x.rooted_at(x.arg(c, 1), r)]
        ctx.check(len(pushed) == 1, 'R02a', fn, 'record kept', x.loc(r), 'the record is pushed once in that iteration')
    else:
        ctx.check(mapped_over_param(x) and elem is not None and _deref(elem)[0] == 'param', 'R02a', fn, 'whole pass', x.loc(r), 'the record is built by a closure mapped over the whole chunks parameter',
                  'cannot establish that the per-chunk record closure is mapped over every chunk of the parameter, in order')
    # --- the offset: running sum of the stored lengths
    pk = paths.expr_place_key(pos)
    ups = [u for u in updates(x, lp[1] if lp else None) if u[0] == pk]
    if ctx.check(pk is not None and len(ups) == 1 and ups[0][1] == 1 and elem is not None and is_len_of_data(ups[0][2], elem), 'R02a', fn, 'offset advance', x.loc(*ups[0][3]) if ups else x.loc(r),
                 'the recorded offset is a running value advanced once per chunk by the length of that chunk\'s data',
                 'the byte offset recorded for a chunk is not a running sum advanced once per chunk by c.data.len()'):
        rs = [y for y in reads(x, pk) if y != ups[0][3] and (lp is None or y[0] in lp[1])]
        bad = [y for y in rs if not precedes(x, y, ups[0][3])]
        ctx.check(bool(rs) and not bad, 'R02a', fn, 'offset before advance', x.loc(*ups[0][3]), 'the offset recorded for a chunk is read before it advances past that chunk',
                  'the offset is recorded after it advanced: every chunk\'s recorded start is its end')
        other = [u for y_ in bodies for u in updates(y_) if u[0] == pk and not (y_ is x and u == ups[0])]
        ctx.check(not other, 'R02a', fn, 'offset only', '-', 'nothing else changes the running offset')
    # --- the data
    def is_data_of(e_, base):
        e_ = _deref(e_)
        while e_[0] == 'call' and _last(e_[1]) in ('clone', 'into', 'to_owned', 'from') and e_[2]:
            e_ = _deref(e_[2][0])
        return _path(e_)[1] == ('data',) and _strip_sites(_path(e_)[0]) == _strip_sites(base)
    okd = False
    dsite = '-'
    if in_main and lp and elem is not None:
        dp = [c for c in x.calls('alloc::vec::Vec::push') if c in lp[1] and is_data_of(x.arg(c, 1), elem)]
        okd = len(dp) == 1
        dsite = x.loc(dp[0]) if dp else '-'
    if not okd and not in_main and elem is not None:
        # one closure yields (record, data) pairs that are unzipped into the two lists
        rets = [e_ for (_, _, _, e_) in x.ret_sites()]
        if len(rets) == 1 and rets[0][0] == 'agg' and rets[0][1] == 'tuple':
            parts = [v_ for (_, v_) in rets[0][3]]
            if any(x.rooted_at(v_, r) for v_ in parts) and any(is_data_of(v_, elem) for v_ in parts):
                okd = True
                dsite = x.loc(r)
    if not okd:
        for y_ in bodies:
            if y_.path == FC or not mapped_over_param(y_):
                continue
            rets = [e_ for (_, _, _, e_) in y_.ret_sites()]
            if len(rets) == 1 and is_data_of(rets[0], ('param', 2, y_.flow.lname(2))):
                okd = True
                dsite = y_.loc(0)
    ctx.check(okd, 'R02a', fn, 'data stored', dsite, 'the data stored per chunk is that chunk\'s data (same pass, or a map over the same parameter)',
              'cannot establish that the data list holds c.data of every chunk of the parameter, in order')
    # --- the hash
    ch = a.calls('merkledb::aggregate_hashes::cas_node_hash')
    if ctx.check(len(ch) == 1, 'R02a', fn, 'cas_node_hash', a.loc(ch[0]) if ch else '-', 'one cas_node_hash call'):
        arg = a.arg(ch[0], 0)
        okc = False
        cl = []
        flow.mentions(arg, lambda y: y[0] == 'agg' and y[1] == 'closure' and (cl.append(y) or False))
        if cl:
            cb = F.bodies.get(cl[0][2])
            if cb is not None:
                ca = an(cb)
                rets = [e_ for (_, _, _, e_) in ca.ret_sites()]
                if len(rets) == 1 and rets[0][0] == 'agg':
                    fs = dict(rets[0][3])
                    h0, l0 = uncast(fs.get('0', ('?',))), uncast(fs.get('1', ('?',)))
                    okc = _path(h0)[1] == ('hash',) and is_len_of_data(l0, _path(h0)[0]) and mapped_over_param(ca)
            adapt = []
            flow.mentions(arg, lambda y: y[0] == 'call' and (adapt.append(_last(y[1])) or False))
            okc = okc and all(n_ in PLAIN for n_ in adapt)
        elif in_main and lp and elem is not None:
            # a list filled in the same pass with (c.hash, c.data.len())
            hp = []
            for c in x.calls('alloc::vec::Vec::push'):
                if c not in lp[1]:
                    continue
                v = _deref(x.arg(c, 1))
                if v[0] == 'agg' and v[1] == 'tuple':
                    fs = dict(v[3])
                    h0, l0 = uncast(fs.get('0', ('?',))), uncast(fs.get('1', ('?',)))
                    if _path(h0)[1] == ('hash',) and _strip_sites(_path(h0)[0]) == _strip_sites(elem) and is_len_of_data(l0, elem):
                        hp.append(c)
            buf = _deref(arg)
            okc = len(hp) == 1 and _strip_sites(_deref(x.arg(hp[0], 0))) == _strip_sites(buf)
        ctx.check(okc, 'R02a', fn, 'hash input', a.loc(ch[0]), 'the xorb hash is computed over (c.hash, c.data.len()) of every chunk of the same parameter, in order',
                  'cannot establish that the xorb hash is computed over the (hash, data length) pairs of exactly the chunks that are stored')
        hd = a.calls('mdb_shard::cas_structs::CASChunkSequenceHeader::new')
        if ctx.check(len(hd) == 1, 'R02a', fn, 'header', a.loc(hd[0]) if hd else '-', 'one header'):
            y = hd[0]
            ctx.check(a.rooted_at(a.arg(y, 0), ch[0]) and _is_len_of_param(a.arg(y, 1)) and (pk is None or paths.expr_place_key(uncast(a.arg(y, 2))) == pk), 'R02a', fn, 'header fields', a.loc(y),
                      'the header records that hash, the number of chunks and the final running offset')
            rets = [e_ for (_, _, _, e_) in a.ret_sites()]
            ctx.check(len(rets) == 1 and flow.mentions(rets[0], lambda z: z[0] == 'call' and z[-1] == y), 'R02a', fn, 'returned', '-', 'the returned xorb carries that header')


def r02b(ctx):
    F = ctx.F
    a = an(F.body(FIN))
    fn = FIN
    fh = a.calls('merkledb::aggregate_hashes::file_node_hash')
    hd = a.calls('mdb_shard::file_structs::FileDataSequenceHeader::new')
    if not ctx.check(len(fh) == 1 and len(hd) == 1, 'R02b', fn, 'sites', '-', 'one file_node_hash and one header'):
        return
    is_ch = lambda z: flow.mentions(z, lambda y: (y[0] == 'field' and y[2] == 'chunk_hashes') or (y[0] == 'upvar' and str(y[1]).endswith('chunk_hashes')))
    ctx.check(is_ch(a.arg(fh[0], 0)) and _deref(a.arg(fh[0], 1))[0] == 'param', 'R02b', fn, 'file hash', a.loc(fh[0]), 'the file hash is file_node_hash(self.chunk_hashes, salt parameter)')
    h = hd[0]
    ext = _deref(a.arg(h, 3))
    ext_ok = ext[0] == 'call' and _last(ext[1]) == 'is_some' and _deref(ext[2][0])[0] == 'param'
    ctx.check(a.rooted_at(a.arg(h, 0), fh[0]) and flow.mentions(a.arg(h, 1), lambda y: y[0] == 'field' and y[2] == 'file_info') and uncast(a.arg(h, 1))[0] in ('call', 'len')
              and uncast(a.arg(h, 2))[:2] == ('const', 1) and ext_ok, 'R02b', fn, 'header fields', a.loc(h),
              'the record header carries the file hash, file_info.len(), verification = true and metadata_ext.is_some()',
              'the file record header does not carry (file hash, number of segments, verification flag, is_some of the metadata ext): %s' % ', '.join(flow.show(a.arg(h, i))[:40] for i in range(4)))
    # the stored ext is the parameter whose presence was flagged
    rets = [e_ for (_, _, _, e_) in a.ret_sites()]
    fi = []
    for e_ in rets:
        flow.mentions(e_, lambda y: y[0] == 'agg' and y[2].endswith('MDBFileInfo') and (fi.append(y) or False))
    if ctx.check(len(fi) >= 1, 'R02b', fn, 'file info', '-', 'the file record is assembled here'):
        d = dict(fi[0][3])
        ctx.check(ext_ok and _strip_sites(_deref(d.get('metadata_ext', ('?',)))) == _strip_sites(_deref(ext[2][0])) and flow.mentions(d.get('metadata', ('?',)), lambda y: y[0] == 'call' and y[-1] == h)
                  and flow.mentions(d.get('segments', ('?',)), lambda y: y[0] == 'field' and y[2] == 'file_info'), 'R02b', fn, 'record parts', '-',
                  'the record stores that header, self.file_info as segments and the flagged metadata ext')
    # the per-segment verification
    sites = []
    for b in [F.body(FIN)] + [x for p, x in sorted(F.bodies.items()) if p.startswith(FIN + '::{')]:
        x = an(b)
        for c in x.calls('mdb_shard::chunk_verification::range_hash_from_chunks'):
            sites.append((x, c))
    if not ctx.check(len(sites) == 1, 'R02b', fn, 'range hash', '-', 'one range_hash_from_chunks site', 'expected one range_hash_from_chunks site, found %d' % len(sites)):
        return
    x, c = sites[0]
    rng = []
    flow.mentions(x.arg(c, 0), lambda y: y[0] == 'index' and is_ch(y[1]) and range_parts(y[2]) is not None and (rng.append(y) or False))
    if not rng:
        # the hashes may be copied out of the range by an explicit loop: then the body has exactly one range of self.chunk_hashes
        seen = {}
        for cb_ in x.calls():
            for i_ in range(len(x.term(cb_)['args'])):
                flow.mentions(x.arg(cb_, i_), lambda y: y[0] == 'index' and is_ch(y[1]) and range_parts(y[2]) is not None and (seen.setdefault(repr(_strip_sites(y)), y) and False))
        if len(seen) == 1:
            rng = list(seen.values())
    if not ctx.check(len(rng) >= 1, 'R02b', x.path, 'range', x.loc(c), 'the hashes are a range of self.chunk_hashes', 'cannot establish that the verification hash is computed over a range of self.chunk_hashes'):
        return
    S, E = range_parts(rng[0][2])
    n = lin_sub(lin(E), lin(S))
    # n = entry.chunk_index_end - entry.chunk_index_start of one entry
    ks = sorted(((k, v) for k, v in n.items()), key=lambda kv: -kv[1])
    okn = len(ks) == 2 and ks[0][1] == 1 and ks[1][1] == -1 and isinstance(ks[0][0], tuple) and isinstance(ks[1][0], tuple) \
        and _path(ks[0][0])[1][-1:] == ('chunk_index_end',) and _path(ks[1][0])[1][-1:] == ('chunk_index_start',) and _strip_sites(_path(ks[0][0])[0]) == _strip_sites(_path(ks[1][0])[0])
    ctx.check(okn, 'R02b', x.path, 'range length', x.loc(c), 'the range has the segment\'s chunk count (chunk_index_end - chunk_index_start) as its length',
              'cannot establish that the range of chunk hashes that is verified has the length chunk_index_end - chunk_index_start of the segment')
    sk = paths.expr_place_key(uncast(S))
    lps = [l for l in x.cfg.loops().items() if c in l[1]]
    ups = [u for u in updates(x, min(lps, key=lambda l: len(l[1]))[1] if lps else None) if u[0] == sk]
    if ctx.check(sk is not None and len(ups) == 1 and ups[0][1] == 1 and lin_eq(lin(ups[0][2]), n), 'R02b', x.path, 'cursor advance', x.loc(*ups[0][3]) if ups else x.loc(c),
                 'the range starts at a cursor that advances once per segment by exactly the range length',
                 'cannot establish that the verified range starts at a cursor advanced once per segment by exactly that segment\'s chunk count (if it is not, segments are verified against the wrong chunks)'):
        rs = [r_ for r_ in reads(x, sk) if r_ != ups[0][3]]
        bad = [r_ for r_ in rs if not precedes(x, r_, ups[0][3])]
        ctx.check(bool(rs) and not bad, 'R02b', x.path, 'cursor before advance', x.loc(*ups[0][3]), 'the cursor is read before it advances past the segment')
        # every segment advances the cursor: no path of the per-segment step skips the advance (seed C02b: a memoised hit returned early)
        ub = ups[0][3][0]
        if lps:
            from . import loops as L_
            every = L_.every_iteration_passes(x, min(lps, key=lambda l: len(l[1])), ub)
        else:
            every = all(rb == ub or x.cfg.must_pass(rb, via_blocks=[ub]) for rb in x.cfg.returns)
        ctx.check(every, 'R02b', x.path, 'advance on every path', x.loc(*ups[0][3]), 'every path of the per-segment step advances the cursor',
                  'a path of the per-segment step yields an entry without advancing the cursor over that segment\'s chunks: every later segment is verified against the wrong chunks')
    # the entry produced per segment is built from that range hash, one per element of file_info
    rets = [e_ for (_, _, _, e_) in x.ret_sites()] if x.path != FIN else []
    if rets:
        ctx.check(all(flow.mentions(e_, lambda y: y[0] == 'call' and y[-1] == c) for e_ in rets), 'R02b', x.path, 'entry', x.loc(c), 'every verification entry is built from the range hash of its segment')
        maps = [m for m in a.calls() if _last(a.term(m).get('fn', '')) == 'map' and len(a.term(m)['args']) == 2 and uncast(a.arg(m, 1))[0] == 'agg' and uncast(a.arg(m, 1))[2] == x.path]
        ctx.check(len(maps) == 1 and flow.mentions(a.arg(maps[0], 0), lambda y: y[0] == 'field' and y[2] == 'file_info'), 'R02b', fn, 'one entry per segment', a.loc(maps[0]) if maps else '-',
                  'the entries are produced by mapping that step over self.file_info')
