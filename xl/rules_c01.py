"""C01 — upload then download returns every byte (one structural clause only: the index shift of DataAggregator::merge_in).

  R01a  When a file's remainder is merged into the session aggregator its chunks are appended behind the chunks already
        there, so every segment of the merged files that still points into the not-yet-cut xorb (zero hash) must be moved by
        the number of chunks that were there before: the shift is `self.chunks.len()` read *before* the append of the other
        aggregator's chunks; chunk_index_start and chunk_index_end of a segment move by that same shift, exactly once, and only
        behind `cas_hash == default` (a segment that already names a stored xorb is left alone); the other aggregator's
        chunks, byte count and pending file infos are all taken over (appended after the shift loop).
  R01b  = C15-R15d: DataAggregator::finalize patches the hash of the xorb cut from the aggregated chunks into every pending
        segment, and file records leave the aggregator only through it.
"""
from .core import an, strip_generics as sg, edges_where
from . import flow, paths
from .rules_c17 import lin, lin_eq, uncast, updates, precedes, _strip_sites, _path, _deref

EXPLANATION = (
    'Decides one structural necessary condition of the round trip: in DataAggregator::merge_in the chunk indices of every merged segment that still points into the pending xorb '
    '(zero hash) are shifted, start and end alike and exactly once, by the number of chunks the receiving aggregator held before the other\'s chunks were appended (length read before '
    'the append), segments that already name a xorb are not shifted, and the other aggregator\'s chunks, byte total and pending file infos are all taken over. Everything else of C01 '
    '(segment bookkeeping in process_chunks, reconstruction, byte equality) is value-level and not decided; related structural clauses are decided under C11, C14, C15, C16, C17.')

MI = 'deduplication::data_aggregator::DataAggregator::merge_in'


def run(ctx):
    ctx.rule('R01a', 'merge_in: zero-hash segments of the merged files are shifted (start and end, once) by the receiver\'s chunk count read before the append; chunks, bytes and pending infos are taken over')
    ctx.guarded('R01a', MI, lambda: r01a(ctx))
    # the other half of the same mechanism: the placeholder hash of every pending segment is replaced by the hash of the xorb cut from the aggregated chunks
    from . import rules_c15 as c15
    from .rules_c11 import _Alias
    ctx.rule('R01b', 'file records leave the aggregator only through DataAggregator::finalize, which patches the hash of the xorb built from the aggregated chunks into every pending segment (= C15-R15d)')
    ctx.guarded('R01b', c15.AGG + 'finalize', lambda: c15.r15d(_Alias(ctx, 'R15d', 'R01b')))


def _last(c):
    return sg(c).split('::')[-1]


def r01a(ctx):
    a = an(ctx.F.body(MI))
    fn = MI
    is_self_f = lambda z, f: _path(z)[1][-1:] == (f,) and _path(z)[0][0] == 'param' and _path(z)[0][1] == 1
    is_other_f = lambda z, f: _path(z)[1][-1:] == (f,) and _path(z)[0][0] == 'param' and _path(z)[0][1] == 2
    app = [c for c in a.calls() if _last(a.term(c).get('fn', '')) in ('append', 'extend', 'extend_from_slice') and len(a.term(c)['args']) == 2]
    capp = [c for c in app if is_self_f(_deref(a.arg(c, 0)), 'chunks') and flow.mentions(a.arg(c, 1), lambda z: z[0] == 'field' and z[2] == 'chunks' and z[1][0] == 'param' and z[1][1] == 2)]
    papp = [c for c in app if is_self_f(_deref(a.arg(c, 0)), 'pending_file_info') and flow.mentions(a.arg(c, 1), lambda z: z[0] == 'field' and z[2] == 'pending_file_info' and z[1][0] == 'param' and z[1][1] == 2)]
    if not ctx.check(len(capp) == 1 and len(papp) == 1, 'R01a', fn, 'appends', '-', 'the other aggregator\'s chunks and pending file infos are appended to the receiver\'s (one site each)',
                     'cannot establish that merge_in appends the other aggregator\'s chunks and its pending file infos to the receiver (found %d / %d sites)' % (len(capp), len(papp))):
        return
    C, P = capp[0], papp[0]
    rets = a.cfg.returns
    ctx.check(all(a.cfg.must_pass(r, via_blocks=[C]) and a.cfg.must_pass(r, via_blocks=[P]) for r in rets), 'R01a', fn, 'taken over', a.loc(P), 'every return passed both appends')
    ups = updates(a)
    nb = [u for u in ups if u[0][-1:] == ('num_bytes',) and u[0][0] == 'self']
    ctx.check(len(nb) == 1 and nb[0][1] == 1 and is_other_f(uncast(nb[0][2]), 'num_bytes'), 'R01a', fn, 'byte total', a.loc(*nb[0][3]) if nb else '-', 'the receiver\'s byte total grows by the other\'s byte total, once',
              'the receiver\'s byte total is not increased by exactly the other aggregator\'s num_bytes')
    st = [u for u in ups if u[0][-1:] == ('chunk_index_start',)]
    en = [u for u in ups if u[0][-1:] == ('chunk_index_end',)]
    if not ctx.check(len(st) == 1 and len(en) == 1 and st[0][1] == 1 and en[0][1] == 1, 'R01a', fn, 'shift sites', '-', 'one shift of chunk_index_start and one of chunk_index_end',
                     'expected exactly one `+=` on chunk_index_start and one on chunk_index_end, found %d and %d' % (len(st), len(en))):
        return
    s, e = st[0], en[0]
    ctx.check(s[0][:-1] == e[0][:-1], 'R01a', fn, 'same segment', a.loc(*e[3]), 'both shifts act on the same segment')
    ctx.check(lin_eq(lin(s[2]), lin(e[2])), 'R01a', fn, 'same shift', a.loc(*e[3]), 'start and end move by the same amount',
              'chunk_index_start moves by %s but chunk_index_end by %s: the segment changes its length' % (flow.show(s[2])[:50], flow.show(e[2])[:50]))
    sh = uncast(s[2])
    is_len = (sh[0] == 'len' and is_self_f(_deref(sh[1]), 'chunks')) or (sh[0] == 'call' and _last(sh[1]) == 'len' and len(sh[2]) == 1 and is_self_f(_deref(sh[2][0]), 'chunks'))
    if ctx.check(is_len, 'R01a', fn, 'shift value', a.loc(*s[3]), 'the shift is the receiver\'s chunk count (self.chunks.len())',
                 'the shift applied to the merged segments is %s, not the number of chunks the receiver already holds' % flow.show(sh)[:70]):
        lb = sh[-1] if sh[0] == 'call' else None
        if lb is not None:
            ctx.check(precedes(a, (lb, 10 ** 6), (C, 10 ** 6)) and a.cfg.must_pass(C, via_blocks=[lb]), 'R01a', fn, 'length before append', a.loc(lb),
                      'that length is read before the other\'s chunks are appended',
                      'self.chunks.len() is read after the other aggregator\'s chunks were appended: the shift includes the merged chunks themselves and every merged segment points past its data')
    # each shift happens at most once per segment: it sits in the innermost segment loop, not in an inner loop of it, and is not repeated
    loops = a.cfg.loops()
    inner = [l for l in loops.items() if s[3][0] in l[1]]
    ctx.check(len(inner) >= 2 or len(inner) == 1, 'R01a', fn, 'per segment', a.loc(*s[3]), 'the shift runs inside the loop over the merged files\' segments (%d enclosing loop(s))' % len(inner))
    ctx.floor('R01a', 'loops enclosing the shift (files, segments)', len(inner), 2)
    # only behind cas_hash == default
    is_hash = lambda z: _path(uncast(z))[1][-1:] == ('cas_hash',)
    is_def = lambda z: uncast(z)[0] == 'call' and _last(uncast(z)[1]) in ('default', 'new', 'zero') or (uncast(z)[0] in ('const', 'item', 'agg'))
    eq = edges_where(a, lambda op, l, r: op == 'Eq' and ((is_hash(l) and is_def(r)) or (is_hash(r) and is_def(l))))
    ctx.check(bool(eq) and a.cfg.must_pass(s[3][0], via_edges=eq) and a.cfg.must_pass(e[3][0], via_edges=eq), 'R01a', fn, 'zero-hash only', a.loc(*s[3]),
              'a segment is shifted only behind cas_hash == default (it still points into the pending xorb)',
              'segments are shifted without establishing cas_hash == MerkleHash::default(): segments that name an already stored xorb get their chunk range moved')
    # the shifted segments belong to the other aggregator's files, and the loop runs before they are handed over
    ctx.check(flow.mentions(('x', s[0][0]), lambda z: False) or 'other.pending_file_info' in str(s[0][0]), 'R01a', fn, 'whose segments', a.loc(*s[3]), 'the shifted segments are those of the other aggregator\'s pending files')
    ctx.check(a.cfg.must_pass(P, via_blocks=[C]) and P not in a.cfg.reach(list(a.cfg.succ[P])) and s[3][0] not in a.cfg.reach(list(a.cfg.succ[P])), 'R01a', fn, 'shift before hand-over', a.loc(P),
              'the pending file infos are handed over after the shift loop')
