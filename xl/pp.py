"""Pretty printer for extracted MIR (debugging aid and violation rendering)."""


def place(p):
    s = '_%d' % p['l']
    for e in p.get('p', []):
        if e == '*':
            s = '(*%s)' % s
        elif isinstance(e, str):
            s = '%s as %s' % (s, e)
        elif 'f' in e:
            s = '%s.%s' % (s, e.get('n', e['f']))
        elif 'ix' in e:
            s = '%s[_%d]' % (s, e['ix'])
        elif 'cix' in e:
            s = '%s[%s%d]' % (s, '-' if e['fe'] else '', e['cix'])
        elif 'sub' in e:
            s = '%s[%d..%s%d]' % (s, e['sub'][0], '-' if e['fe'] else '', e['sub'][1])
        elif 'dc' in e:
            s = '(%s as %s)' % (s, e['dc'])
    return s


def operand(o):
    if 'cp' in o:
        return place(o['cp'])
    if 'mv' in o:
        return 'move ' + place(o['mv'])
    if 'rtc' in o:
        return 'rtc(%s)' % o['rtc']
    if 'fn' in o:
        return 'fn ' + o['fn']
    if 'v' in o:
        return 'const %s_%s' % (o['v'], short(o['ty']))
    if 's' in o:
        return 'const %r' % o['s']
    if 'item' in o:
        return 'const ' + o['item'] + ('[promoted %d]' % o['promoted'] if 'promoted' in o else '')
    return 'const <%s>' % short(o.get('ty', '?'))


def short(t):
    return t if len(t) < 60 else t[:57] + '...'


def rvalue(r):
    k = r['k']
    if k == 'use':
        return operand(r['a'])
    if k == 'ref':
        return '&%s%s' % ('mut ' if r['m'] else '', place(r['p']))
    if k == 'rawptr':
        return '&raw ' + place(r['p'])
    if k == 'cast':
        return '%s as %s (%s)' % (operand(r['a']), short(r['ty']), r['ck'])
    if k == 'bin':
        return '%s(%s, %s)' % (r['op'], operand(r['a']), operand(r['b']))
    if k == 'un':
        return '%s(%s)' % (r['op'], operand(r['a']))
    if k == 'discr':
        return 'discriminant(%s)' % place(r['p'])
    if k == 'agg':
        ak = r['ak']
        ops = [operand(o) for o in r['ops']]
        if ak == 'adt':
            fn = r.get('fn', [])
            return '%s::%s { %s }' % (r['adt'], r['var'], ', '.join('%s: %s' % (fn[i] if i < len(fn) else i, ops[i]) for i in range(len(ops))))
        if ak in ('closure', 'coroutine', 'coroutine_closure'):
            fn = r.get('fn', [])
            return '{%s %s}(%s)' % (ak, r['def'], ', '.join('%s: %s' % (fn[i] if i < len(fn) else i, ops[i]) for i in range(len(ops))))
        return '%s(%s)' % (ak, ', '.join(ops))
    if k == 'repeat':
        return '[%s; %s]' % (operand(r['a']), r['n'])
    return k


def term(t):
    k = t['k']
    if k == 'goto':
        return 'goto -> bb%d%s' % (t['t'], ' [falseEdge im=bb%d]' % t['im'] if 'fe' in t else (' [falseUnwind]' if 'fu' in t else ''))
    if k == 'switch':
        return 'switchInt(%s) -> [%s, otherwise: bb%d]' % (operand(t['d']), ', '.join('%s: bb%d' % (v, b) for v, b in t['ts']), t['o'])
    if k == 'call':
        callee = t.get('res') or t.get('fn') or ('(' + operand(t['ind']) + ')')
        if 'res' in t and t['res'] != t.get('fn'):
            callee = '%s [=%s]' % (t['fn'], t['res'])
        ga = ''
        return '%s = %s%s(%s) -> %s%s' % (place(t['d']), callee, ga, ', '.join(operand(a) for a in t['args']),
                                         'bb%d' % t['t'] if 't' in t else '!', ' unwind bb%d' % t['u'] if 'u' in t else '')
    if k == 'drop':
        return 'drop(%s) -> bb%d%s%s' % (place(t['p']), t['t'], ' unwind bb%d' % t['u'] if 'u' in t else '', ' cdrop bb%d' % t['cd'] if 'cd' in t else '')
    if k == 'assert':
        return 'assert(%s == %s, %s) -> bb%d' % (operand(t['c']), t['e'], t['m'], t['t'])
    if k == 'yield':
        return 'yield(%s) -> bb%d%s' % (operand(t['v']), t['t'], ' cdrop bb%d' % t['cd'] if 'cd' in t else '')
    return k


def _noise(x):
    m = x.get('mac', '')
    return m.startswith('tracing') or 'FormatLiteral' in m


def body(b, show_cleanup=False, brief=False):
    out = ['fn %s  [%s:%d-%d]%s' % (b['qpath'], b['file'], b['lo'], b['hi'], ' coroutine' if b.get('coroutine') else '')]
    for i, l in enumerate(b['locals'] if not brief else []):
        out.append('    let _%d: %s;%s' % (i, l['ty'], '  // ' + l['n'] if 'n' in l else ''))
    for v in b.get('vdi', []):
        out.append('    debug %s => %s' % (v['n'], place(v['p'])))
    for i, blk in enumerate(b['blocks']):
        if blk.get('cl') and not show_cleanup:
            continue
        if brief and _noise(blk['t']) and all(_noise(s) for s in blk['s']):
            continue
        out.append('  bb%d%s:' % (i, ' (cleanup)' if blk.get('cl') else ''))
        for s in blk['s']:
            if brief and _noise(s):
                continue
            tag = '  // L%d%s' % (s['ln'], ' ' + s.get('mac', '') if s.get('ex') else '')
            if 'd' in s:
                out.append('      %s = %s;%s' % (place(s['d']), rvalue(s['r']), tag))
            else:
                out.append('      discriminant(%s) = %d;%s' % (place(s['setdiscr']), s['vi'], tag))
        t = blk['t']
        out.append('      %s;  // L%d%s' % (term(t), t['ln'], ' ' + t.get('mac', '') if t.get('ex') else ''))
    return '\n'.join(out)
