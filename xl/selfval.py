"""Self-validation: every rule must fire on a seeded break of /repo's current tree that still type-checks.

Mutants live in /verif/mutants/<PROP>/<name>.diff with <name>.json:
  {"property": "C16", "rules": ["R16c"], "expect": "substring of the violation key", "description": "...",
   "suite_silent": "why the 181 tests do not notice", "control": false}
A scratch copy of /repo's working tree is made under ${TMPDIR:-/var/tmp} (never inside /repo or /verif), the diff is
applied, facts are extracted with the same extractor, the property's rules are evaluated, and the scratch copy is
removed.  Failures here mean the *checker* is broken; they never print VIOLATION.
"""
import glob, json, os, shutil, subprocess, sys, time
from . import facts

VERIF = facts.VERIF
MUT = os.path.join(VERIF, 'mutants')
SEEDED = os.path.join(VERIF, 'seeded')


def scratch_dir():
    base = os.environ.get('TMPDIR') or '/var/tmp'
    return os.path.join(base, 'xl-scratch', 'repo')


def make_scratch(patch):
    d = scratch_dir()
    if os.path.exists(d):
        shutil.rmtree(d)
    os.makedirs(os.path.dirname(d), exist_ok=True)
    r = subprocess.run(['rsync', '-a', '--exclude', '/target', '--exclude', '.git', facts.REPO + '/', d + '/'])
    if r.returncode != 0:
        raise RuntimeError('rsync failed')
    r = subprocess.run(['git', 'apply', '--whitespace=nowarn', patch], cwd=d, stdout=subprocess.PIPE, stderr=subprocess.PIPE, text=True)
    if r.returncode != 0:
        r2 = subprocess.run(['patch', '-p1', '--no-backup-if-mismatch', '-i', patch], cwd=d, stdout=subprocess.PIPE, stderr=subprocess.PIPE, text=True)
        if r2.returncode != 0:
            shutil.rmtree(d, ignore_errors=True)
            raise RuntimeError('mutant does not apply: %s' % (r.stderr.strip() or r2.stdout.strip())[:300])
    return d


def drop_scratch():
    d = scratch_dir()
    shutil.rmtree(os.path.dirname(d), ignore_errors=True)


def list_mutants(prop=None):
    out = []
    for j in sorted(glob.glob(os.path.join(MUT, '*', '*.json'))):
        m = json.load(open(j))
        m['name'] = os.path.basename(j)[:-5]
        m['diff'] = j[:-5] + '.diff'
        if prop is None or m['property'] == prop:
            out.append(m)
    for j in sorted(glob.glob(os.path.join(SEEDED, '*', 'meta.json'))):
        m = json.load(open(j))
        if 'expect' not in m:
            continue
        m['name'] = 'seeded/' + os.path.basename(os.path.dirname(j))
        m['diff'] = os.path.join(os.path.dirname(j), 'patch.diff')
        m.setdefault('rules', [])
        if prop is None or m['property'] == prop:
            out.append(m)
    return out


def fail_keys(prop, repo=None):
    from .runner import run_rules
    ctx, _ = run_rules(prop, 'rel', repo)
    return {r['key']: r for r in ctx.results if r['verdict'] == 'fail'}, ctx


def run_mutant(m, baseline_keys, verbose=False):
    t0 = time.time()
    res = dict(name=m['name'], property=m['property'], expect=m.get('expect'), ok=False)
    try:
        d = make_scratch(m['diff'])
    except RuntimeError as e:
        # the seeded break does not apply to this tree (the tree differs from the one the corpus was written for):
        # nothing can be concluded about the checker from it
        res['skipped'] = str(e)
        res['ok'] = True
        return res
    try:
        try:
            keys, ctx = fail_keys(m['property'], d)
        except RuntimeError as e:
            res['skipped'] = 'mutant does not type-check on this tree: %s' % e
            res['ok'] = True
            return res
        new = {k: v for k, v in keys.items() if k not in baseline_keys}
        res['fired'] = sorted(new)
        exp = m.get('expect')
        if m.get('benign'):
            # behaviour-preserving variant: no rule may change its verdict
            res['hit'] = []
            res['ok'] = not new
            if new:
                res['error'] = 'FALSE ALARM on a behaviour-preserving variant: %s' % sorted(new)
        else:
            hit = [k for k in new if exp in k] if exp else list(new)
            res['hit'] = hit
            res['ok'] = bool(hit)
            if not hit:
                res['error'] = 'expected a new violation matching %r, got %s' % (exp, sorted(new))
        if verbose:
            for k in sorted(new):
                print('    fired: %s — %s' % (k, new[k]['detail'][:200]))
    finally:
        drop_scratch()
        # the facts of a scratch tree are of no further use
        th = getattr(ctx, 'F', None) and ctx.F.tree_hash if 'ctx' in dir() else None
        if th:
            shutil.rmtree(os.path.join(facts.CACHE, 'facts', th), ignore_errors=True)
        # release the fact base and the analyses of the scratch tree (hundreds of variants would otherwise accumulate)
        from . import core
        for k in [k for k, f in facts._FACTS.items() if th and getattr(f, 'tree_hash', None) == th]:
            del facts._FACTS[k]
        core._AN.clear()
        core._F[0] = None
        import gc
        gc.collect()
    res['wall_s'] = round(time.time() - t0, 1)
    return res


def run_for_property(prop, verbose=False):
    muts = list_mutants(prop)
    if not muts:
        return dict(ok=True, mutants=0, note='no seeded breaks registered for this property')
    base, _ = fail_keys(prop)
    results = []
    for m in muts:
        r = run_mutant(m, set(base), verbose)
        results.append(r)
        if verbose:
            word = ('SKIPPED' if r.get('skipped') else ('silent (benign)' if m.get('benign') else 'caught')) if r['ok'] else ('FALSE-ALARM' if m.get('benign') else 'MISSED')
            print('  %-50s %s %s' % (m['name'], word, r.get('error', '') or r.get('skipped', '')))
    failures = [r['name'] + ': ' + r.get('error', '') for r in results if not r['ok']]
    skipped = [r['name'] for r in results if r.get('skipped')]
    return dict(ok=not failures, mutants=len(results), caught=sum(1 for r in results if r['ok'] and not r.get('skipped')), skipped=skipped, failures=failures,
                benign_variants=sum(1 for m in muts if m.get('benign')),
                results=[{k: r.get(k) for k in ('name', 'ok', 'hit', 'wall_s')} for r in results])


def main(argv):
    props = [a for a in argv if not a.startswith('-')]
    if not props:
        props = sorted({m['property'] for m in list_mutants()})
    bad = 0
    for p in props:
        print('== %s' % p)
        r = run_for_property(p, verbose=True)
        print('   %s: %d/%d seeded breaks caught%s' % (p, r.get('caught', 0), r.get('mutants', 0), ' (%d skipped: %s)' % (len(r['skipped']), r['skipped']) if r.get('skipped') else ''))
        if not r['ok'] or ('--strict' in argv and r.get('skipped')):
            bad += 1
    return 2 if bad else 0
