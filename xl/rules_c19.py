"""C19 — interrupted writes never leave a partial file under a final name (process-stop model; DESIGN.md §5 C19)."""
from .core import an, strip_generics as sg, success_edges, propagation
from . import flow, locks
from . import rules_c10 as c10

EXPLANATION = (
    'Process-stop model (completed system calls persist). Decides: (R19a) in mdb_shard, file_utils, chunk_cache and LocalClient::put every call that creates or truncates a '
    'file for writing is given a temporary name (temp_shard_file_name(), SafeFileCreator::temp_file_path(), a ".…​.mdb_temp" literal) — directly or through an enumerated '
    'pass-through parameter whose every caller passes a temporary name; no fs::write/fs::copy to a non-temp path in those crates; (R19b) a final name appears only through '
    'rename of the temp file that was written, after the outermost writer was flushed, and for the hash-named shard writers the destination is derived from the hash of the '
    'bytes written (shared with C10-R10b); SafeFileCreator::close renames only once; (R19c) = C10-R10a merged shard written before inputs are deleted; (R19d) DiskCache::put_impl '
    'commits the item to the in-memory state only after SafeFileCreator::close succeeded; (R19e) the final-name recognisers (anchored shard regex) cannot match the temp-name literals. '
    'Not decided: durability without fsync, name parsing of leftovers beyond the literal check.')

CRATES = ('mdb_shard', 'file_utils', 'chunk_cache')
LPUT = '<cas_client::local_client::LocalClient as cas_client::interface::UploadClient>::put::{closure#0}'
SFC = 'file_utils::safe_file_creator::SafeFileCreator::'
CREATORS = ('std::fs::OpenOptions::open', 'std::fs::File::create', 'std::fs::File::create_new', 'file_utils::privilege_context::create_file',
            'file_utils::privilege_context::PrivilgedExecutionContext::create_file')
COPIERS = ('std::fs::write', 'std::fs::copy', 'std::fs::hard_link')
# parameters that carry a path to a creating call; every caller must pass a temp-derived path (checked, depth <= 3)
PASS_THROUGH = {
    'mdb_shard::shard_in_memory::MDBInMemoryShard::write_to_temp_shard_file': 'temp_file_name',
    'file_utils::privilege_context::create_file': 'path',
    'file_utils::privilege_context::PrivilgedExecutionContext::create_file': 'path',
    'file_utils::privilege_context::PrivilgedExecutionContext::create_file::{closure#0}': 'path',
}
TEMP_CALLS = ('mdb_shard::utils::temp_shard_file_name', 'file_utils::safe_file_creator::SafeFileCreator::temp_file_path')


def run(ctx):
    ctx.rule('R19a', 'files are created/truncated for writing only under temporary names (directly or through enumerated pass-through parameters); no write/copy onto final names')
    ctx.rule('R19b', 'a final name appears only by rename of the written temp file, after the outermost writer was flushed; SafeFileCreator::close renames at most once')
    ctx.rule('R19c', 'merged shard written before its inputs are deleted (= C10-R10a)')
    ctx.rule('R19d', 'DiskCache::put_impl commits to the in-memory state only after the cache file was closed (renamed) successfully; LocalClient::put reports success only after close')
    ctx.rule('R19e', 'final-name recognisers cannot match temp-name literals')
    ctx.guarded('R19a', 'creation census', lambda: r19a(ctx))
    ctx.guarded('R19b', 'rename discipline', lambda: r19b(ctx))
    ctx.guarded('R19c', c10.CONS, lambda: c10.r10a(_alias(ctx, 'R10a', 'R19c')))
    ctx.guarded('R19d', 'commit after close', lambda: r19d(ctx))
    ctx.guarded('R19e', 'names', lambda: r19e(ctx))
    ctx.rule('R19f', 'the chunk cache\'s restart scan skips a directory entry whose name is not a cache item name (a leftover temporary file of an interrupted put) instead of failing: the name-parse error is inspected by a match whose Err arm can end in Ok(None), never by `?`')
    ctx.guarded('R19f', SCAN, lambda: r19f(ctx))
    ctx.rule('R19g', 'a temporary file left behind by an interrupted process is never continued: every temporary name SafeFileCreator generates carries a random component, or the file is opened truncating / create-new')
    ctx.guarded('R19g', 'file_utils::safe_file_creator::SafeFileCreator::temp_file_path', lambda: r19g(ctx))


def _alias(ctx, frm, to):
    from .rules_c11 import _Alias
    return _Alias(ctx, frm, to)


def in_scope(p, b):
    if '::tests::' in p or '::test_utils' in p or 'concurrency_tests' in p or '::test_routines' in p or 'shard_benchmark' in p:
        return False
    return b['crate'] in CRATES or p == LPUT


def is_writable_open(a, cb):
    t = a.term(cb)
    fn = sg(t.get('fn', ''))
    if not fn.endswith('OpenOptions::open'):
        return True
    rec = a.arg(cb, 0)
    w = False
    for e in flow.subtrees(rec):
        if e[0] == 'call' and sg(e[1]).split('::')[-1] in ('write', 'create', 'append', 'truncate', 'create_new') and len(e[2]) > 1 and e[2][1] == ('const', 1, 'bool'):
            w = True
    return w


def temp_derived(ctx, a, e, depth=0):
    """why a path expression denotes a temporary name, or None"""
    for z in flow.subtrees(e):
        if z[0] == 'call' and sg(z[1]) in TEMP_CALLS:
            return 'derived from %s()' % sg(z[1]).split('::')[-1]
        if z[0] == 'str' and ('.mdb_temp' in z[1] or z[1].rstrip('\x00').endswith('.tmp')):
            return 'built from the literal %r' % z[1]
        if z[0] == 'field' and z[2] == 'temp_path':
            return 'the SafeFileCreator.temp_path field'
    # pass-through parameter?
    fnp = a.path
    base = ('top',)
    want0 = PASS_THROUGH.get(fnp)
    for z in flow.subtrees(e):
        if (z[0] == 'param' and z[2] == want0) or (z[0] == 'upvar' and z[1] == want0):
            base = z
    if base[0] in ('param', 'upvar') and depth < 4:
        pname = base[2] if base[0] == 'param' else base[1]
        want = PASS_THROUGH.get(fnp)
        if want == pname:
            # every caller passes a temp-derived path
            outer = fnp
            if '{closure' in fnp:
                # the closure's upvar comes from the enclosing function's same-named parameter/local
                par = ctx.F.bodies.get(a.body.get('qparent'))
                if par is not None:
                    ap = an(par)
                    for b in sorted(ap.cfg.reach0):
                        for st in ap.blocks[b]['s']:
                            r = st.get('r')
                            if r and r['k'] == 'agg' and r.get('def') == fnp:
                                ee = ap.flow.rvalue(r, 0)
                                comp = dict(ee[3]).get(pname)
                                if comp is not None:
                                    return temp_derived(ctx, ap, comp, depth + 1)
                return None
            sites = [(b, bi) for (b, bi) in ctx.cg.call_sites(fnp) if '::tests::' not in b['qpath'] and not b['crate'].startswith('bin:')]
            if not sites:
                return 'pass-through parameter %s (no callers in the libraries)' % pname
            idx = [i for i, l in enumerate(a.body['locals']) if l.get('n') == pname and 1 <= i <= a.body['argc']]
            why = []
            for (b, bi) in sites:
                ab = an(b)
                if bi not in ab.cfg.reach0:
                    continue
                if in_scope(b['qpath'], b) or b['crate'] in ('file_utils',):
                    w = temp_derived(ctx, ab, ab.arg(bi, idx[0] - 1), depth + 1) if idx else None
                    if w is None:
                        return None
                    why.append(w)
                else:
                    # callers outside the census (e.g. download writers) are not C19 operations
                    why.append('caller %s is outside C19\'s operations' % b['qpath'].split('::')[-1])
            return 'pass-through parameter %s; callers: %s' % (pname, '; '.join(sorted(set(why))))
    return None


def r19a(ctx):
    n = 0
    for p, b in sorted(ctx.F.bodies.items()):
        if not in_scope(p, b):
            continue
        a = an(b)
        for cb in a.calls(*CREATORS):
            if not is_writable_open(a, cb):
                continue
            t = a.term(cb)
            fn = sg(t.get('fn', ''))
            path = a.arg(cb, 1) if fn.endswith('OpenOptions::open') or fn.endswith('PrivilgedExecutionContext::create_file') else a.arg(cb, 0)
            n += 1
            why = temp_derived(ctx, a, path)
            ctx.check(why is not None, 'R19a', p, fn.split('::')[-1], a.loc(cb), 'file created under a temporary name: %s' % why,
                      'a file is created/truncated for writing under a name that is not temporary (%s): a stop mid-write leaves a partial file under a final name' % flow.show(path)[:80])
        for cb in a.calls(*COPIERS):
            t = a.term(cb)
            dst = a.arg(cb, 1) if not sg(t.get('fn', '')).endswith('fs::write') else a.arg(cb, 0)
            n += 1
            why = temp_derived(ctx, a, dst)
            ctx.check(why is not None, 'R19a', p, sg(t['fn']).split('::')[-1], a.loc(cb), 'copy/write target is temporary: %s' % why,
                      'fs::%s writes straight onto %s' % (sg(t['fn']).split('::')[-1], flow.show(dst)[:80]))
    ctx.floor('R19a', 'file-creating call sites in mdb_shard/file_utils/chunk_cache/LocalClient::put', n, 6)
    # tempfile-based writers (NamedTempFile::persist) are atomic by construction; listed for information
    # SafeFileCreator stores the temp path it created
    for ctor in ('new', 'new_unnamed'):
        a = an(ctx.F.one(SFC + ctor))
        cf = a.calls('file_utils::privilege_context::create_file')
        aggs = [(b, si, e) for (b, si, k, e) in a.ret_sites() if k == 'ok']
        # the constructor may end in a (since inlined) helper whose Result is returned as it is: expand the join point
        for (b_, si_, k_, e_) in a.ret_sites():
            if k_ == 'other':
                aggs += [(sb, ssi, se) for (sb, ssi, se) in a.flow.sources(e_, (b_, si_)) if se[0] == 'agg' and se[2].endswith('Result::Ok')]
        ok = len(cf) == 1 and len(aggs) == 1
        if ok:
            sfc = aggs[0][2][3][0][1]
            tp = dict(sfc[3]).get('temp_path') if sfc[0] == 'agg' else None
            ok = tp is not None and tp == a.arg(cf[0], 0)
        ctx.check(ok, 'R19a', a.path, 'temp_path', a.loc(cf[0]) if cf else '-', 'SafeFileCreator::%s records in temp_path exactly the path it created' % ctor)


def flush_calls(a):
    return [c for c in a.calls() if sg(a.term(c).get('fn', '')).split('::')[-1] == 'flush']


def r19b(ctx):
    F = ctx.F
    # (1) SafeFileCreator::close
    a = an(F.one(SFC + 'close'))
    fn = a.path
    rn = a.calls('std::fs::rename')
    if ctx.check(len(rn) == 1, 'R19b', fn, 'rename', '-', 'one rename in close'):
        r = rn[0]
        src, dst = a.arg(r, 0), a.arg(r, 1)
        ctx.check(flow.show(src) == 'self.temp_path' and flow.access_path(dst) is not None and 'dest_path' in flow.show(dst), 'R19b', fn, 'rename.args', a.loc(r), 'rename(self.temp_path -> self.dest_path)')
        fl = [f for f in flush_calls(a)]
        se = []
        for f in fl:
            se += success_edges(a, f)
        ctx.check(bool(se) and a.cfg.must_pass(r, via_edges=se), 'R19b', fn, 'flush<rename', a.loc(r), 'the rename is dominated by the success edge of the buffered writer\'s flush',
                  'the temp file can be renamed onto its final name before the buffered data was flushed: a stop in between leaves a partial file under the final name')
        # the writer is taken (Option::take) so a second close cannot rename again
        tk = [t for t in a.calls('core::option::Option::take') if flow.mentions(a.arg(t, 0), lambda z: z[0] == 'field' and z[2] == 'writer')]
        some_edges = []
        for t in tk:
            ve = a.variant_edges(t, 'core::option::Option<')
            some_edges += a.some_edges(ve)
        ctx.check(bool(some_edges) and a.cfg.must_pass(r, via_edges=some_edges), 'R19b', fn, 'take', a.loc(r), 'the rename happens only on the Some edge of self.writer.take() (a second close is a no-op)')
        # the flushed writer is the taken one and is dropped (file closed) before the rename
        dr = [d for d in a.calls('core::mem::drop') if tk and a.rooted_at(a.arg(d, 0), tk[0])]
        ctx.check(bool(dr) and a.cfg.must_pass(r, via_blocks=dr), 'R19b', fn, 'drop<rename', a.loc(r), 'the writer is dropped (file closed) before the rename')
    # (2) shard writers: flush before rename
    for name, rule_fn in ((c10.WOUT, None), (c10.SFOP, None)):
        a = an(F.body(name))
        rn = a.calls('std::fs::rename')
        fl = flush_calls(a)
        se = []
        for f in fl:
            se += success_edges(a, f)
        ctx.check(len(rn) == 1 and bool(se) and a.cfg.must_pass(rn[0], via_edges=se), 'R19b', name, 'flush<rename', a.loc(rn[0]) if rn else '-',
                  'rename is dominated by the success edge of a flush of the writer (%d flush site(s))' % len(fl),
                  'rename not dominated by a successful flush')
    a = an(F.body(c10.WTMP))
    oks = [(b, si) for (b, si, k, e) in a.ret_sites() if k == 'ok']
    fl = flush_calls(a)
    # the BufWriter flush (outermost) must succeed before Ok
    buf = [f for f in fl if 'BufWriter' in (a.flow.lty(a.term(f)['args'][0].get('mv', a.term(f)['args'][0].get('cp', {'l': 0}))['l']))]
    se = []
    for f in buf:
        se += success_edges(a, f)
    ctx.check(bool(oks) and bool(se) and all(a.cfg.must_pass(b, via_edges=se) for (b, si) in oks), 'R19b', c10.WTMP, 'bufflush<ok', a.loc(buf[0]) if buf else '-',
              'write_to_temp_shard_file returns Ok only after the BufWriter over the file was flushed successfully',
              'write_to_temp_shard_file can report success (and its caller rename) with data still buffered')
    # (3) R10b provenance (shared)
    c10.r10b(_alias(ctx, 'R10b', 'R19b'))


def r19d(ctx):
    F = ctx.F
    a = an(F.body('chunk_cache::disk::DiskCache::put_impl'))
    fn = a.path
    cl = a.calls(SFC + 'close')
    gs = [g for g in locks.guards(a, locks.SYNC_GUARDS) if flow.mentions(a.flow.local(g.local), lambda z: z[0] == 'field' and z[2] == 'state')]
    if ctx.check(len(cl) == 1 and len(gs) == 1, 'R19d', fn, 'sites', '-', 'one SafeFileCreator::close and one state guard in put_impl'):
        se = success_edges(a, cl[0])
        lockb = a.root_call(a.flow.local(gs[0].local))[3]
        ctx.check(bool(se) and a.cfg.must_pass(lockb, via_edges=se), 'R19d', fn, 'close<commit', a.loc(lockb), 'the state lock that commits the item is acquired only after close() (flush+rename) succeeded',
                  'the item can be committed to the in-memory state before its file exists under the final name')
        news = a.calls(SFC + 'new')
        wr = [w for w in a.calls('std::io::Write::write_all') if news and a.rooted_at(a.arg(w, 0), news[0])]
        ctx.check(len(news) == 1 and len(wr) >= 2 and a.rooted_at(a.arg(cl[0], 0), news[0]), 'R19d', fn, 'writer', a.loc(cl[0]), 'header and data are written to, and close is called on, the SafeFileCreator for the item path')
        for w in wr:
            okp, d = propagation(a, w)
            ctx.check(okp, 'R19d', fn, 'write_all?', a.loc(w), 'write errors abort the put: ' + d)
        ip = a.arg(news[0], 0) if news else ('top',)
        ctx.check(a.root_call(ip) is not None and sg(a.root_call(ip)[1]).endswith('DiskCache::item_path'), 'R19d', fn, 'dest', a.loc(news[0]) if news else '-', 'the destination is item_path(key, cache_item) (name encodes range, len, checksum)')
    # LocalClient::put
    a = an(F.body(LPUT))
    cl = a.calls(SFC + 'close')
    news = a.calls(SFC + 'new')
    ser = a.calls('cas_object::cas_object_format::CasObject::serialize')
    oks = [(b, si, e) for (b, si, k, e) in a.ret_sites() if k == 'ok']
    wrote = [(b, si) for (b, si, e) in oks if e[3][0][1] != ('const', 0, 'usize')]
    good = len(cl) == 1 and len(news) == 1 and len(ser) == 1 and bool(wrote)
    if ctx.check(good, 'R19d', LPUT, 'sites', '-', 'LocalClient::put: SafeFileCreator::new, CasObject::serialize, close, Ok(bytes)'):
        se = success_edges(a, cl[0])
        ctx.check(all(a.cfg.must_pass(b, via_edges=se) for (b, si) in wrote), 'R19d', LPUT, 'close<ok', a.loc(cl[0]), 'Ok(bytes_written) is dominated by the success edge of close()')
        ctx.check(a.rooted_at(a.arg(ser[0], 0), news[0]) and a.rooted_at(a.arg(cl[0], 0), news[0]) and a.cfg.must_pass(cl[0], via_edges=success_edges(a, ser[0])), 'R19d', LPUT, 'serialize<close', a.loc(ser[0]),
                  'the xorb is serialised into the SafeFileCreator and close follows a successful serialisation')


def r19e(ctx):
    F = ctx.F
    # shard file regex literal
    rx = None
    for p, b in F.bodies.items():
        if b['crate'] == 'mdb_shard' and 'MERKLE_DB_FILE_PATTERN' in p:
            a = an(b)
            for c in a.calls('regex::regex::string::Regex::new'):
                e = a.arg(c, 0)
                if e[0] == 'str':
                    rx = e[1]
    ok = rx is not None and rx.startswith('^') and rx.endswith('\\.mdb$')
    ctx.check(ok, 'R19e', 'mdb_shard::utils::MERKLE_DB_FILE_PATTERN', 'regex', '-', 'shard file names are recognised by an anchored pattern ending in .mdb$ (%r)' % rx,
              'the shard file name pattern is not anchored at both ends / does not require the .mdb suffix: %r' % rx)
    a = an(F.body('mdb_shard::utils::temp_shard_file_name'))
    lits = [z[1] for b in a.calls() for i in range(len(a.term(b)['args'])) for z in flow.subtrees(a.arg(b, i)) if z[0] == 'str']
    t = [l for l in lits if 'mdb_temp' in l]
    okt = bool(t) and all(not l.rstrip('\x00').endswith('.mdb') for l in t) and all('.mdb_temp' in l for l in t)
    ctx.check(okt, 'R19e', 'mdb_shard::utils::temp_shard_file_name', 'literal', '-', 'temp shard names end in ".mdb_temp" (%r), which the anchored .mdb$ pattern cannot match' % (t[:1],))
    it = an(F.body('mdb_shard::utils::is_temp_shard_file'))
    lits = [z[1] for b in it.calls() for i in range(len(it.term(b)['args'])) for z in flow.subtrees(it.arg(b, i)) if z[0] == 'str']
    ctx.check('mdb_temp' in lits, 'R19e', 'mdb_shard::utils::is_temp_shard_file', 'literal', '-', 'is_temp_shard_file recognises the same suffix')
    a = an(F.one(SFC + 'temp_file_path'))
    lits = [z[1] for b in a.calls() for i in range(len(a.term(b)['args'])) for z in flow.subtrees(a.arg(b, i)) if z[0] == 'str']
    t = [l for l in lits if '.tmp' in l]
    ctx.check(len(t) >= 2 and all(l.lstrip('\x00\x01\x02\x03\x04\x05\x06\x07\x08').startswith('.') or '.' in l[:3] for l in t), 'R19e', a.path, 'literal', '-',
              'SafeFileCreator temp names start with "." and end in ".tmp" (%d templates)' % len(t))


SCAN = 'chunk_cache::disk::try_parse_cache_file'


def r19f(ctx):
    """C19c: a stop between SafeFileCreator::new and close leaves `.name.rand.tmp` in a key directory; the next
    initialize must come up (and every complete item stay retrievable)."""
    a = an(ctx.F.body(SCAN))
    fn = SCAN
    ps = a.calls('chunk_cache::disk::cache_item::CacheItem::parse') or [c for c in a.calls() if sg(a.term(c).get('fn', '')).endswith('CacheItem::parse')]
    if not ctx.check(len(ps) >= 1, 'R19f', fn, 'parse site', '-', 'the directory entry\'s name is parsed as a cache item name'):
        return
    rets = a.ret_sites()
    for cb in ps:
        tries = a.try_sites(cb)
        direct = [(b, si) for (b, si, k, e) in rets if k == 'other' and a.err_rooted_at(e, cb)]
        ctx.check(not tries and not direct, 'R19f', fn, 'not propagated', a.loc((tries or [d[0] for d in direct] or [cb])[0]), 'the name-parse error is not propagated with `?`',
                  'a directory entry whose name is not a cache item name (e.g. the temporary file of an interrupted put) makes the scan, and with it DiskCache::initialize, fail')
        err_t = []
        for b, e, t in a.switches_on(lambda e: e[0] == 'discr' and e[2].startswith('core::result::Result<') and a.err_rooted_at(e[1], cb)):
            listed = {str(v): tgt for v, tgt in t['ts']}
            if '1' in listed:
                err_t.append(listed['1'])
            elif t['o'] in a.cfg.succ[b]:
                err_t.append(t['o'])
        r = a.cfg.reach(err_t) if err_t else set()
        skip = [(b, si) for (b, si, k, e) in rets if b in r and k == 'ok' and e[0] == 'agg' and e[3] and e[3][0][1][0] == 'agg' and e[3][0][1][2].endswith('Option::None')]
        some = [(b, si) for (b, si, k, e) in rets if b in r and k == 'ok' and not (e[0] == 'agg' and e[3] and e[3][0][1][0] == 'agg' and e[3][0][1][2].endswith('Option::None'))]
        ctx.check(bool(err_t) and bool(skip) and not some, 'R19f', fn, 'skipped', a.loc(cb), 'where the name does not parse the entry is skipped: the Err arm returns Ok(None) (possibly after removing the file)',
                  'no path from the name-parse failure ends in Ok(None): a leftover file is not skipped')


def r19g(ctx):
    """C19e: temp names from a process-wide counter restart at 0 after a crash, and create_file opens without truncating:
    the next process writes a shorter file into the leftover of the crashed one and renames old tail + new content under
    the final name.  Accepted: every name temp_file_path can return is built from a value drawn from `rand` (uuid), or the
    opening used by SafeFileCreator truncates (truncate(true) / create_new(true) / File::create / set_len(0))."""
    F = ctx.F
    TP = 'file_utils::safe_file_creator::SafeFileCreator::temp_file_path'
    a = an(F.body(TP))
    is_rand = lambda z: z[0] == 'call' and (sg(z[1]).startswith('rand::') or sg(z[1]).startswith('uuid::') or '::rand::' in sg(z[1]) or sg(z[1]).startswith('rand_core::') or sg(z[1]).startswith('getrandom::'))
    names = []
    for (b, si, k, e) in a.ret_sites():
        for (sb, ssi, se) in a.flow.sources(e, (b, si)):
            rc = se
            # Path::join(dir, NAME) / PathBuf::push
            if rc[0] == 'call' and sg(rc[1]).split('::')[-1] in ('join', 'with_file_name', 'with_extension') and len(rc[2]) == 2:
                nm = rc[2][1]
                for (nb, nsi, ne) in a.flow.sources(nm, (sb, ssi)):
                    names.append(((nb if nb is not None else (sb if sb is not None else b)), ne))
            else:
                names.append(((sb if sb is not None else b), se))
    def fed_random(ne):
        # a buffer that is part of the name and is filled (push / push_str / extend / write!) with something drawn from the generator
        for c in a.calls():
            t = a.term(c)
            if len(t['args']) < 2 or not any(flow.mentions(a.arg(c, i), is_rand) for i in range(1, len(t['args']))):
                continue
            buf = a.arg(c, 0)
            while buf[0] in ('ref', 'deref', 'cast'):
                buf = buf[1]
            if buf[0] in ('local', 'call') and flow.mentions(ne, lambda z: z == buf):
                return True
        return False
    random_all = bool(names) and all(flow.mentions(ne, is_rand) or fed_random(ne) for (_, ne) in names)
    if random_all:
        ctx.check(True, 'R19g', TP, 'random name', a.loc(names[0][0]), 'every temporary name (%d form(s)) contains a value drawn from a random generator: a leftover of an interrupted process is not reopened' % len(names))
        ctx.floor('R19g', 'temporary name forms', len(names), 2)
        return
    # otherwise the opening must discard old contents
    trunc = []
    for p_, b_ in sorted(F.bodies.items()):
        if not (p_.startswith('file_utils::privilege_context::PrivilgedExecutionContext::create_file') or p_.startswith('file_utils::safe_file_creator::SafeFileCreator::new')):
            continue
        x = an(b_)
        for c in x.calls():
            fn = sg(x.term(c).get('fn', ''))
            last = fn.split('::')[-1]
            if fn.endswith('OpenOptions::truncate') or fn.endswith('OpenOptions::create_new'):
                v = x.arg(c, 1)
                if v[:2] == ('const', 1):
                    trunc.append((x, c))
            elif fn.endswith('fs::File::create') or fn.endswith('fs::File::create_new'):
                trunc.append((x, c))
            elif last == 'set_len' and x.arg(c, 1)[:2] == ('const', 0):
                trunc.append((x, c))
    bad = [ne for (_, ne) in names if not (flow.mentions(ne, is_rand) or fed_random(ne))]
    ctx.check(bool(trunc), 'R19g', TP, 'predictable temporary name reopened', a.loc(names[0][0]) if names else '-',
              'temporary names are predictable but the file is opened truncating / create-new (%d site(s))' % len(trunc),
              'a temporary name without a random component (%s) is opened with create(true).truncate(false): after an interrupted write a later process reuses the leftover file and renames its stale tail under a final name' % (flow.show(bad[0])[:90] if bad else 'no name form found'))
