"""Rule-writing helpers on top of cfg/flow, and the per-check context that collects verdicts."""
import re
from . import cfg as cfgm
from . import flow as flowm
from .facts import AnchorMissing

_AN = {}


class An:
    """Analysis bundle for one body."""

    def __init__(self, body):
        self.body = body
        self.cfg = cfgm.CFG(body)
        self.flow = flowm.Flow(body)
        self.blocks = body['blocks']
        self.path = body['qpath']

    # -- call sites -----------------------------------------------------------------------------
    def calls(self, *names, reachable=True):
        out = []
        for b, blk in enumerate(self.blocks):
            if blk.get('cl'):
                continue
            if reachable and b not in self.cfg.reach0:
                continue
            t = blk['t']
            if t['k'] == 'call' and (not names or cfgm.callee_is(t, *names)):
                out.append(b)
        return out

    def term(self, b):
        return self.blocks[b]['t']

    def line(self, b, si=None):
        return self.cfg.line(b, si)

    def loc(self, b, si=None):
        blk = self.blocks[b]
        x = blk['t'] if (si is None or si >= len(blk['s'])) else blk['s'][si]
        return '%s:%d' % (x.get('fl') or self.body['file'], self.line(b, si))

    def arg(self, b, i):
        return self.flow.expr(self.blocks[b]['t']['args'][i])

    def dest(self, b):
        return self.blocks[b]['t']['d']

    # -- provenance -----------------------------------------------------------------------------
    def root_call(self, e):
        """the ('call', …) node an expression is a projection of, or None."""
        while True:
            k = e[0]
            if k == 'call':
                # adaptors that hand the success value on unchanged: `open(p).map_err(f)?` is the file `open` returned
                if e[2] and strip_generics(e[1]) in self.OK_PRESERVING:
                    e = e[2][0]
                    continue
                return e
            if k in ('field', 'variant', 'index', 'slice', 'cast', 'len'):
                e = e[1]
                continue
            return None

    def rooted_at(self, e, block):
        c = self.root_call(e)
        return c is not None and c[3] == block

    OK_PRESERVING = ('core::result::Result::map_err', 'core::result::Result::inspect', 'core::result::Result::inspect_err')

    ERR_PRESERVING = ('core::result::Result::map', 'core::result::Result::map_err', 'core::result::Result::inspect',
                      'core::result::Result::inspect_err', 'core::result::Result::and_then')

    def err_rooted_at(self, e, block, _depth=0):
        """like rooted_at, but also through Result adaptors that hand an Err on (map, map_err, inspect*, and_then):
        for error discipline `r.map_err(f)?` inspects r."""
        for _ in range(8):
            c = self.root_call(e)
            if c is None:
                # a join point (result variable, the return slot of an inlined helper): the call's result is one of the
                # values it can hold, and whoever inspects the variable inspects that result
                base = e
                while base[0] in ('field', 'variant', 'index', 'slice', 'cast', 'len'):
                    base = base[1]
                if base[0] == 'local' and _depth < 3:
                    srcs = self.flow.sources(base)
                    if len(srcs) >= 2 or (len(srcs) == 1 and srcs[0][2] != base):
                        return any(self.err_rooted_at(se, block, _depth + 1) for (_, _, se) in srcs)
                return False
            if c[3] == block:
                return True
            if strip_generics(c[1]) in self.ERR_PRESERVING and c[2]:
                e = c[2][0]
                continue
            return False
        return False

    def awaited(self, b):
        """the future returned by the call in block b flows into `into_future` + poll loop in this body."""
        for pb in self.calls('core::future::future::Future::poll'):
            e = self.flow.expr(self.blocks[pb]['t']['args'][0])
            if self.rooted_at(e, b):
                return pb
        return None

    def try_sites(self, b):
        """`?` sites (Try::branch from the QuestionMark desugaring) whose operand is rooted at the call in block b."""
        out = []
        for tb in self.calls('core::ops::try_trait::Try::branch'):
            t = self.blocks[tb]['t']
            if 'QuestionMark' not in t.get('mac', ''):
                continue
            e = self.flow.expr(t['args'][0])
            if self.err_rooted_at(e, b):
                out.append(tb)
        return out

    def switches_on(self, pred):
        """[(block, discr_expr, terminator)] for SwitchInt terminators whose discriminant expression satisfies pred."""
        out = []
        for b in sorted(self.cfg.reach0):
            t = self.blocks[b]['t']
            if t['k'] != 'switch':
                continue
            e = self.flow.expr(t['d'])
            if pred(e):
                out.append((b, e, t))
        return out

    def variant_edges(self, call_block, ty_prefix=None):
        """For `match <value rooted at call>`: {discriminant value: [(switch block, target)]} over all switches on
        discriminant(<rooted at call>) whose scrutinee type starts with ty_prefix."""
        out = {}
        for b, e, t in self.switches_on(lambda e: e[0] == 'discr' and self.rooted_at(e[1], call_block)
                                        and (ty_prefix is None or e[2].startswith(ty_prefix))):
            for v, tgt in t['ts']:
                out.setdefault(str(v), []).append((b, tgt))
            if t['o'] in self.cfg.succ[b]:
                out.setdefault('otherwise', []).append((b, t['o']))
        return out

    def dest_variant_edges(self, call_block):
        """{discriminant value: [(switch block, target)]} for switches on `discriminant(<destination local of the call>)`
        (syntactic: works for calls that flow.expr treats as transparent, e.g. Iterator::next)."""
        d = self.blocks[call_block]['t']['d']
        out = {}
        if 'p' in d:
            return out
        for b in sorted(self.cfg.reach0):
            t = self.blocks[b]['t']
            if t['k'] != 'switch':
                continue
            dl = (t['d'].get('mv') or t['d'].get('cp') or {}).get('l')
            for s in self.blocks[b]['s']:
                r = s.get('r')
                if r and r['k'] == 'discr' and s['d']['l'] == dl and r['p'] == {'l': d['l']}:  # noqa
                    for v, tgt in t['ts']:
                        out.setdefault(str(v), []).append((b, tgt))
                    if t['o'] in self.cfg.succ[b]:
                        out.setdefault('otherwise', []).append((b, t['o']))
        return out

    @staticmethod
    def none_edges(ve):
        """the edges on which an Option is None, from a variant-edge table (`0`, or `otherwise` when only Some is listed)"""
        return list(ve.get('0', [])) + (list(ve.get('otherwise', [])) if '0' not in ve and '1' in ve else [])

    @staticmethod
    def some_edges(ve):
        return list(ve.get('1', [])) + (list(ve.get('otherwise', [])) if '1' not in ve and '0' in ve else [])

    def stores_to_field(self, field, owner_suffix=None):
        """[(block, stmt idx, stmt)] assignments whose destination's last field projection is `field`."""
        out = []
        for b, blk in enumerate(self.blocks):
            if blk.get('cl') or b not in self.cfg.reach0:
                continue
            for si, s in enumerate(blk['s']):
                d = s.get('d')
                if not d or 'p' not in d:
                    continue
                fs = [e for e in d['p'] if isinstance(e, dict) and 'f' in e]
                if fs and fs[-1].get('n') == field and (owner_suffix is None or fs[-1].get('o', '').endswith(owner_suffix)):
                    out.append((b, si, s))
        return out

    def ret_sites(self):
        """sites assigning the return place `_0` (whole): [(block, si|TERM, kind, expr)], kind in ok|err|other."""
        out = []
        for b, blk in enumerate(self.blocks):
            if blk.get('cl') or b not in self.cfg.reach0:
                continue
            for si, s in enumerate(blk['s']):
                d = s.get('d')
                if d and d['l'] == 0 and 'p' not in d:
                    e = self.flow.rvalue(s['r'], 0)
                    out.append((b, si, self._ret_kind(e), e))
            t = blk['t']
            if t['k'] == 'call' and t['d']['l'] == 0 and 'p' not in t['d']:
                if cfgm.callee_is(t, 'core::ops::try_trait::FromResidual::from_residual'):
                    out.append((b, cfgm.TERM, 'err', ('top',)))
                else:
                    out.append((b, cfgm.TERM, 'other', self.flow.call(t, b, 0)))
        return out

    @staticmethod
    def _ret_kind(e):
        if e[0] == 'agg' and e[1] == 'adt':
            if e[2].endswith('Result::Err'):
                return 'err'
            if e[2].endswith('Result::Ok'):
                return 'ok'
        return 'other'

    def failing_blocks(self):
        """blocks from which no non-error return-value assignment is reachable any more (the failing arm of a `?`, an
        explicit `return Err(..)` path, a panic path): leaving a loop into one of them is not a normal loop exit."""
        c = getattr(self, '_failing', None)
        if c is None:
            nonb = {b for (b, si, k, _) in self.ret_sites() if k != 'err'}
            c = {b for b in self.cfg.reach0 if not (self.cfg.reach([b]) & nonb)}
            self._failing = c
        return c

    def error_blocks(self):
        """blocks from which every path to `return` carries an error value: computed as blocks only reachable
        *after* an err ret-site and from which no ok/other ret-site is reachable."""
        errs = [(b, si) for (b, si, k, _) in self.ret_sites() if k == 'err']
        non = [(b, si) for (b, si, k, _) in self.ret_sites() if k != 'err']
        after_err = self.cfg.reach_after([b for b, _ in errs]) | {b for b, _ in errs}
        can_ok = set()
        # blocks that can reach a non-error ret site
        nonb = {b for b, _ in non}
        for b in self.cfg.reach0:
            if self.cfg.reach([b]) & nonb:
                can_ok.add(b)
        return {b for b in after_err if b not in can_ok}


def an(body):
    k = id(body)
    a = _AN.get(k)
    if a is None or a.body is not body:
        a = An(body)
        _AN[k] = a
    return a


# ---------------------------------------------------------------------------------------------------
class CallGraph:
    """Workspace call graph over resolved callees; dynamic dispatch over-approximated by workspace impls;
    a closure/coroutine body is reached from the body that builds it."""

    def __init__(self, F):
        self.F = F
        self.out = {}      # qpath -> set(callee paths as written/resolved)
        self.sites = {}    # callee path -> [(body, block)]
        self.impls = {}    # trait method path -> [impl body qpath]
        for p, b in F.bodies.items():
            if 'implements' in b:
                self.impls.setdefault(b['implements'], []).append(p)
        for p, b in F.bodies.items():
            outs = set()
            for bi, blk in enumerate(b['blocks']):
                if blk.get('cl'):
                    continue
                t = blk['t']
                if t['k'] == 'call':
                    for k in ('fn', 'res'):
                        v = t.get(k)
                        if v:
                            v = strip_generics(v)
                            outs.add(v)
                            self.sites.setdefault(v, []).append((b, bi))
                            if k == 'fn' and 'res' not in t:
                                for imp in self.impls.get(v, []):
                                    outs.add(imp)
                # closures / coroutines built here, and fn items taken as values
                for s in blk['s']:
                    r = s.get('r')
                    if r and r['k'] == 'agg' and r['ak'] in ('closure', 'coroutine', 'coroutine_closure'):
                        outs.add(r['def'])
                    if r:
                        for o in _operands(r):
                            if 'fn' in o and 'c' in o:
                                outs.add(strip_generics(o['fn']))
                if t['k'] == 'call':
                    for o in t['args']:
                        if 'fn' in o and 'c' in o:
                            outs.add(strip_generics(o['fn']))
            # async fn: the body is its {closure#0}
            self.out[p] = outs
        self.norm = {strip_generics(p): p for p in F.bodies}

    def callees(self, qpath):
        return self.out.get(qpath, set())

    def reaches(self, src_qpath, pred, seen=None):
        """does any function reachable from src satisfy pred(path)? returns the witness chain or None."""
        seen = set()
        stack = [(src_qpath, (src_qpath,))]
        while stack:
            p, chain = stack.pop()
            if p in seen:
                continue
            seen.add(p)
            for c in self.out.get(p, ()):  # c is a stripped path
                if pred(c):
                    return chain + (c,)
                q = self.norm.get(c)
                if q and q not in seen:
                    stack.append((q, chain + (q,)))
        return None

    def call_sites(self, name):
        """[(body, block)] of calls whose written or resolved callee ends with `name` (generics stripped)."""
        out = []
        name = strip_generics(name)
        for c, ss in self.sites.items():
            if c == name or c.endswith('::' + name):
                out.extend(ss)
        # de-dup (fn and res may both match)
        seen = set()
        r = []
        for b, bi in out:
            k = (b['qpath'], b['crate'], bi)
            if k not in seen:
                seen.add(k)
                r.append((b, bi))
        return r


def _operands(r):
    k = r['k']
    if k in ('use', 'cast', 'un', 'repeat'):
        return [r['a']]
    if k == 'bin':
        return [r['a'], r['b']]
    if k == 'agg':
        return r['ops']
    return []


strip_generics = flowm.strip_generics


def outer_fn(body):
    """qualified path of the named function a closure/coroutine body belongs to."""
    p = body['qpath']
    return re.sub(r'(::\{closure#\d+\})+$', '', p)


# ---------------------------------------------------------------------------------------------------
class Ctx:
    """collects rule verdicts for one property check."""

    def __init__(self, F, prop):
        self.F = F
        _F[0] = F
        self.prop = prop
        self.results = []       # dicts: rule, fn, site, verdict(pass|fail|info), detail, key
        self._ord = {}
        self._cg = None
        self.rules = {}         # rule id -> sentence
        self.floors = []
        self.assumptions = []

    @property
    def cg(self):
        if self._cg is None:
            if not hasattr(self.F, '_cg'):
                self.F._cg = CallGraph(self.F)
            self._cg = self.F._cg
        return self._cg

    def rule(self, rid, sentence):
        self.rules[rid] = sentence

    def ok(self, rule, fn, site, detail=''):
        self.results.append(dict(rule=rule, fn=fn, site=site, verdict='pass', detail=detail))

    def info(self, rule, fn, site, detail=''):
        self.results.append(dict(rule=rule, fn=fn, site=site, verdict='info', detail=detail))

    def fail(self, rule, fn, construct, site, detail, path=None):
        base = '%s|%s|%s' % (rule, fn, construct)
        n = self._ord.get(base, 0)
        self._ord[base] = n + 1
        self.results.append(dict(rule=rule, fn=fn, site=site, verdict='fail', detail=detail, key='%s|%d' % (base, n),
                                 construct=construct, path=path))

    def check(self, cond, rule, fn, construct, site, detail_ok, detail_fail=None, path=None):
        if cond:
            self.ok(rule, fn, site, detail_ok)
        else:
            self.fail(rule, fn, construct, site, detail_fail or ('cannot establish: ' + detail_ok), path)
        return cond

    def floor(self, rule, what, found, expected, exact=False):
        good = (found == expected) if exact else (found >= expected)
        self.floors.append(dict(rule=rule, what=what, found=found, expected=expected, exact=exact, ok=good))
        if not good:
            self.fail(rule, '-', 'floor:' + what, '-', 'instance count for "%s": found %d, confirmed by reading %s%d'
                      % (what, found, '' if exact else '>= ', expected))
        return good

    def guarded(self, rule, fn_name, f):
        """run a rule body; a missing anchor is a violation of that rule (fail closed)."""
        try:
            f()
        except AnchorMissing as e:
            self.fail(rule, fn_name, 'anchor', '-', 'anchor missing: %s — cannot establish the rule' % e)


# ---------------------------------------------------------------------------------------------------
# K4 helpers
def inspection_sites(a, cb):
    """Places where the Result produced by the call in block `cb` (or a Result nested in its Ok / Some payload) is
    inspected so that its Err case ends in an error return: [(level, block, kind)].
      * `?` sites (QuestionMark desugaring of Try::branch) whose operand is rooted at the call;
      * explicit matches: a switch on the discriminant of a Result-typed value rooted at the call, all of whose Err
        edges lead only to error returns (no success return, no way back to the call).
    `level` identifies which (nested) Result is inspected: the scrutinee's type (payload projections are transparent in
    expression trees, so the type is what tells `r?` from `r??`)."""
    out = []
    for t in a.try_sites(cb):
        out.append((a.blocks[t]['t'].get('ga', '?').strip('[]'), t, '?'))
    rets = set(a.cfg.returns)
    errb = [b for (b, si, k, _) in a.ret_sites() if k == 'err']
    for b, e, t in a.switches_on(lambda e: e[0] == 'discr' and e[2].startswith('core::result::Result<') and a.err_rooted_at(e[1], cb)):
        listed = {str(v): tgt for v, tgt in t['ts']}
        if '1' in listed:
            err_t = [listed['1']]
        elif t['o'] in a.cfg.succ[b]:
            err_t = [t['o']]
        else:
            continue
        r = a.cfg.reach(err_t, cut_blocks=errb)
        if (r & rets) or cb in r or b in r:
            continue        # the Err case can continue normally: not a propagating inspection
        if not any(x in a.cfg.reach(err_t) for x in errb):
            continue
        out.append((e[2], b, 'match'))
    return out


def propagation(a, cb, need=1, start_blocks=None):
    """How the Result produced by the call in block `cb` of analysis `a` is consumed.
    Returns (ok, detail).  ok iff the value is inspected at >= `need` levels (see inspection_sites: `?` or an explicit
    match whose Err arm returns an error) or is the function's returned value, and no path from the call (or from
    `start_blocks`) reaches `return` or the call again while skipping the inspection of any level."""
    sites = inspection_sites(a, cb)
    # returned directly (tail expression): `_0 = <rooted at call>`
    direct = [(b, si) for (b, si, k, e) in a.ret_sites() if k == 'other' and a.err_rooted_at(e, cb)]
    if direct and not sites:
        return True, 'result is the function\'s return value'
    levels = {}
    for (lv, b, kind) in sites:
        levels.setdefault(lv, []).append(b)
    if len(levels) < need:
        return False, 'result reaches %d `?` site(s), %d required' % (len(levels), need)
    starts = start_blocks if start_blocks is not None else list(a.cfg.succ[cb])
    rets = set(a.cfg.returns)
    # an early return that carries an error (`?` failing arm, explicit Err) is not a swallowed failure
    errb = [b for (b, si, k, _) in a.ret_sites() if k == 'err']
    for lv, bs in sorted(levels.items()):
        cut = set()
        for t in bs:
            cut |= set(a.cfg.out_edges(t))
        r = a.cfg.reach(starts, cut_edges=cut, cut_blocks=errb)
        bad = (r & rets) | ({cb} & r)
        if bad:
            tgt = sorted(bad)[0]
            p = a.cfg.path(starts[0], tgt, cut_edges=cut, cut_blocks=errb)
            return False, 'a path from the call reaches %s without passing the error check at line %s (blocks %s)' % (
                'return' if tgt in rets else 'the next iteration', sorted({a.line(t) for t in bs}), p)
    return True, 'result passes %d error check(s) (`?` or a match whose Err arm returns the error) at line(s) %s on every path' % (len(sites), sorted({a.line(b) for (_, b, _) in sites}))


# ---------------------------------------------------------------------------------------------------
# branch conditions
_NEG = {'Eq': 'Ne', 'Ne': 'Eq', 'Lt': 'Ge', 'Ge': 'Lt', 'Gt': 'Le', 'Le': 'Gt'}
_SWAP = {'Eq': 'Eq', 'Ne': 'Ne', 'Lt': 'Gt', 'Gt': 'Lt', 'Le': 'Ge', 'Ge': 'Le'}
_CMP_CALLS = {'core::cmp::PartialEq::eq': 'Eq', 'core::cmp::PartialEq::ne': 'Ne', 'core::cmp::PartialOrd::lt': 'Lt',
              'core::cmp::PartialOrd::le': 'Le', 'core::cmp::PartialOrd::gt': 'Gt', 'core::cmp::PartialOrd::ge': 'Ge',
              'core::cmp::impls::eq': 'Eq', 'core::cmp::impls::ne': 'Ne', 'core::cmp::impls::le': 'Le', 'core::cmp::impls::lt': 'Lt',
              'core::cmp::impls::gt': 'Gt', 'core::cmp::impls::ge': 'Ge', 'core::array::equality::eq': 'Eq', 'core::array::equality::ne': 'Ne',
              'alloc::vec::partial_eq::eq': 'Eq', 'alloc::vec::partial_eq::ne': 'Ne', 'core::str::traits::eq': 'Eq'}


def as_comparison(e):
    """(op, lhs, rhs) if expression e is a comparison (BinaryOp or PartialEq/PartialOrd call, through Not), else None."""
    neg = False
    while e[0] == 'un' and e[1] == 'Not':
        neg = not neg
        e = e[2]
    op = None
    if e[0] == 'bin' and e[1] in _NEG:
        op, l, r = e[1], e[2], e[3]
    elif e[0] == 'call':
        c = strip_generics(e[1])
        c = re.sub(r'^<.* as (.*)>::(\w+)$', r'\1::\2', c)
        if c in _CMP_CALLS and len(e[2]) == 2:
            op, l, r = _CMP_CALLS[c], e[2][0], e[2][1]
    if op is None:
        return None
    if neg:
        op = _NEG[op]
    return op, l, r


def cond_edges(a, b):
    """For a SwitchInt block `b` on a boolean comparison: (op, lhs, rhs, true_edges, false_edges); None otherwise.
    Short-circuit `&&`/`||` appear as separate switches and are handled by the caller via cut sets."""
    t = a.blocks[b]['t']
    if t['k'] != 'switch':
        return None
    e = a.flow.expr(t['d'])
    c = as_comparison(e)
    if c is None:
        return None
    f_edges = [(b, tgt) for v, tgt in t['ts'] if str(v) == '0']
    t_edges = [(b, tgt) for v, tgt in t['ts'] if str(v) != '0']
    if t['o'] in a.cfg.succ[b] and t['o'] not in [x[1] for x in f_edges + t_edges]:
        t_edges.append((b, t['o']))
    return c[0], c[1], c[2], t_edges, f_edges


def _one(l, r):
    ty = 'usize'
    for z in (l, r):
        if z[0] == 'const' and isinstance(z[2], str) and z[2] in ('usize', 'u64', 'u32', 'u16', 'u8', 'i64', 'i32', 'isize'):
            ty = z[2]
    return ('const', 1, ty)


def _is_plus_one(e):
    if e[0] == 'bin' and e[1] in ('Add', 'AddO'):
        if e[3][0] == 'const' and e[3][1] == 1:
            return e[2]
        if e[2][0] == 'const' and e[2][1] == 1:
            return e[3]
    return None


def comparison_forms(op, l, r):
    """the comparison and its integer-equivalent spellings with the left side shifted by one:
    x < y  <=>  x + 1 <= y;   x >= y  <=>  x + 1 > y   (and back).  Only the left operand is rewritten, so a rule that
    asks for a particular right operand (a limit) still sees exactly that operand."""
    out = [(op, l, r)]
    if op == 'Lt':
        out.append(('Le', ('bin', 'Add', l, _one(l, r)), r))
    elif op == 'Ge':
        out.append(('Gt', ('bin', 'Add', l, _one(l, r)), r))
    x = _is_plus_one(l)
    if x is not None:
        if op == 'Le':
            out.append(('Lt', x, r))
        elif op == 'Gt':
            out.append(('Ge', x, r))
    return out


def _holds(pred_holds, op, l, r):
    for (o, x, y) in comparison_forms(op, l, r):
        if pred_holds(o, x, y):
            return True
    for (o, x, y) in comparison_forms(_SWAP[op], r, l):
        if pred_holds(o, x, y):
            return True
    return False


_F = [None]     # fact base of the running check (set by Ctx): lets edges_where look into small predicate helpers


def _value_implies(a, defs, pol, pred_holds, base, subst=None):
    """does "the boolean has value `pol`" imply the predicate?  defs = [(block, expr)]: every assignment (or return
    value) that can give it the value pol must be a comparison that then satisfies the predicate, or sit in a block only
    reachable across an edge (`base`) where the predicate holds."""
    for (blk, rv) in defs:
        if subst is not None:
            rv = subst(rv)
        c = None
        if rv[0] == 'const' and isinstance(rv[1], (int, bool)):
            if bool(rv[1]) != pol:
                continue            # this assignment cannot produce the value seen on the edge
        else:
            c = as_comparison(rv)
        if c is not None:
            oper = c[0] if pol else _NEG[c[0]]
            if _holds(pred_holds, oper, c[1], c[2]):
                continue
        if not (base and a.cfg.must_pass(blk, via_edges=base)):
            return False
    return True


def edges_where(a, pred_holds, flags=True, _depth=0):
    """all CFG edges on which a comparison satisfying `pred_holds(op, lhs, rhs) -> True/False/None` is known to hold.
    pred_holds gets the canonical comparison that is TRUE on the edge; both orientations and the integer-equivalent
    spellings of comparison_forms are tried.
    With `flags`, two indirect forms contribute too:
      * a switch on a boolean variable that records such a test (`let fits = if a > A { false } else { b <= B };
        if fits { .. }`): an edge on which the variable has value v counts when every assignment that can give it the
        value v either is a comparison that then satisfies the predicate or sits in a block that is itself only
        reachable across an edge where the predicate holds;
      * a switch on the result of a small same-workspace predicate function (`if self.would_overflow(n) { .. }`): the
        same reasoning over the function's return sites, with its parameters replaced by the call's arguments (one
        level).
    (Limits: the comparison is evaluated at the assignment / inside the helper, not at the switch; function-level
    must-pass, not per loop iteration.)"""
    out = []
    for b in sorted(a.cfg.reach0):
        ce = cond_edges(a, b)
        if not ce:
            continue
        op, l, r, te, fe = ce
        for (oper, edges) in ((op, te), (_NEG[op], fe)):
            if _holds(pred_holds, oper, l, r):
                out.extend(edges)
    if not flags:
        return out
    base = list(out)
    for b in sorted(a.cfg.reach0):
        t = a.blocks[b]['t']
        if t['k'] != 'switch':
            continue
        e = a.flow.expr(t['d'])
        neg = False
        while e[0] == 'un' and e[1] == 'Not':
            neg = not neg
            e = e[2]
        defs = None
        subst = None
        ha = a
        hbase = base
        if e[0] == 'local' and a.flow.lty(e[1]) == 'bool':
            ds = a.flow.defs.get(e[1], [])
            if len(ds) >= 2 and all(d[0] == 'assign' for d in ds) and e[1] not in a.flow.partial:
                defs = [(d[1], a.flow.rvalue(d[3], 0)) for d in ds]
        elif e[0] == 'call' and _depth == 0 and _F[0] is not None and not e[1].startswith(('core::', 'alloc::', 'std::')):
            F = _F[0]
            norm = F.__dict__.get('_norm')
            if norm is None:
                norm = F.__dict__['_norm'] = {strip_generics(p): p for p in F.bodies}
            q = norm.get(strip_generics(e[1]))
            hb = F.bodies.get(q) if q else None
            if hb is not None and not hb.get('coroutine') and hb['locals'][0].get('ty') == 'bool':
                ha = an(hb)
                args = e[2]

                def subst(x, args=args):
                    return _subst_params(x, args)
                hbase = edges_where(ha, lambda op, l, r: pred_holds(op, subst(l), subst(r)), flags=True, _depth=1)
                defs = [(rb, re_) for (rb, si, k, re_) in ha.ret_sites()]
        if defs is None:
            continue
        f_edges = [(b, tgt) for v, tgt in t['ts'] if str(v) == '0']
        t_edges = [(b, s_) for s_ in a.cfg.succ[b] if (b, s_) not in f_edges]
        for pol, edges in ((True, t_edges), (False, f_edges)):
            pol_ = (not pol) if neg else pol
            if _value_implies(ha, defs, pol_, pred_holds, hbase, subst):
                out.extend(edges)
    return out


def _subst_params(e, args):
    if not isinstance(e, tuple):
        return e
    if e[0] == 'param' and 1 <= e[1] <= len(args):
        return args[e[1] - 1]
    return tuple(_subst_params(x, args) if isinstance(x, tuple) else ([_subst_params(y, args) for y in x] if isinstance(x, list) else x) for x in e)


def success_edges(a, cb):
    """CFG edges taken exactly when the Result produced by the call in block cb was Ok: the Continue edges of the `?`
    sites rooted at it (Try::branch -> discriminant switch, value 0), and the Ok edges of explicit matches on it
    (`if let Err(e) = r { return .. }`, `match r { Ok(..) => .., Err(..) => .. }`)."""
    out = []
    for t in a.try_sites(cb):
        for sw in a.cfg.succ[t]:
            tt = a.blocks[sw]['t']
            if tt['k'] == 'switch':
                out += [(sw, tgt) for v, tgt in tt['ts'] if str(v) == '0']
    for b, e, t in a.switches_on(lambda e: e[0] == 'discr' and e[2].startswith('core::result::Result<') and a.err_rooted_at(e[1], cb)):
        listed = {str(v): tgt for v, tgt in t['ts']}
        if '0' in listed:
            out.append((b, listed['0']))
        elif '1' in listed and t['o'] in a.cfg.succ[b]:
            out.append((b, t['o']))
    return out


def bool_edges(a, pred):
    """(true_edges, false_edges) over all SwitchInt blocks whose discriminant expression satisfies pred (a bool)."""
    te, fe = [], []
    for b in sorted(a.cfg.reach0):
        t = a.blocks[b]['t']
        if t['k'] != 'switch':
            continue
        e = a.flow.expr(t['d'])
        neg = False
        while e[0] == 'un' and e[1] == 'Not':
            neg = not neg
            e = e[2]
        if not pred(e):
            continue
        f = [(b, tgt) for v, tgt in t['ts'] if str(v) == '0']
        tr = [(b, s) for s in a.cfg.succ[b] if (b, s) not in f]
        if neg:
            f, tr = tr, f
        te += tr
        fe += f
    return te, fe


_OPSET = {'Lt': {'L'}, 'Le': {'L', 'E'}, 'Gt': {'G'}, 'Ge': {'G', 'E'}, 'Eq': {'E'}, 'Ne': {'L', 'G'}}
_ORD_DISCR = {'255': 'L', '-1': 'L', '0': 'E', '1': 'G'}


def order_refinements(a, blks, is_x, is_y):
    """{edge: subset of {'L','E','G'}}: what an edge leaving a block of `blks` tells about the order of x relative to y
    (L: x < y, E: x == y, G: x > y).  Both source forms are recognised: a switch on a boolean comparison of x and y
    (either orientation, through `!`), and a switch on the discriminant of `x.cmp(&y)` / `y.cmp(&x)`."""
    ref = {}
    for b in blks:
        t = a.blocks[b]['t']
        if t['k'] != 'switch':
            continue
        ce = cond_edges(a, b)
        if ce:
            op, l, r, te, fe = ce
            if is_x(l) and is_y(r):
                pass
            elif is_x(r) and is_y(l):
                op = _SWAP[op]
            else:
                continue
            for e in te:
                ref[e] = set(_OPSET[op])
            for e in fe:
                ref[e] = set(_OPSET[_NEG[op]])
            continue
        e = a.flow.expr(t['d'])
        if e[0] == 'discr' and e[2].startswith('core::cmp::Ordering'):
            c = a.root_call(e[1])
            if c is None or strip_generics(c[1]).split('::')[-1] not in ('cmp',) or len(c[2]) != 2:
                continue
            if is_x(c[2][0]) and is_y(c[2][1]):
                swap = False
            elif is_x(c[2][1]) and is_y(c[2][0]):
                swap = True
            else:
                continue
            listed = set()
            for v, tgt in t['ts']:
                o = _ORD_DISCR.get(str(v))
                if o is None:
                    continue
                if swap:
                    o = {'L': 'G', 'G': 'L', 'E': 'E'}[o]
                listed.add(o)
                ref.setdefault((b, tgt), set()).add(o)
            if t['o'] in a.cfg.succ[b]:
                ref.setdefault((b, t['o']), set()).update({'L', 'E', 'G'} - listed)
    return ref


def order_states(a, entry, blks, is_x, is_y):
    """forward may-analysis over the blocks `blks` starting at `entry` (state {'L','E','G'} there, and again at `entry`
    whenever it is re-entered): {block: orders of x relative to y that are possible on entry to the block}.  Blocks not
    reachable from entry inside blks are absent.  Returns (states, refinements)."""
    ref = order_refinements(a, blks, is_x, is_y)
    st = {entry: {'L', 'E', 'G'}}
    work = [entry]
    while work:
        b = work.pop()
        for s in a.cfg.succ[b]:
            if s not in blks or s == entry:
                continue
            out = set(st[b])
            if (b, s) in ref:
                out &= ref[(b, s)]
            if not out:
                continue
            if s not in st or not out <= st[s]:
                st[s] = st.get(s, set()) | out
                work.append(s)
    return st, ref


def as_min(a, e):
    """(x, y) if expression e denotes min(x, y): a call of min / Ord::min, or a variable chosen by
    `if x < y { x } else { y }` (each of its two assignments sits behind the comparison edge that makes it the smaller)."""
    if e[0] == 'call' and strip_generics(e[1]).split('::')[-1] == 'min' and len(e[2]) == 2:
        return e[2][0], e[2][1]
    if e[0] == 'local':
        srcs = a.flow.sources(e)
        if len(srcs) == 2 and all(sb is not None for (sb, _, _) in srcs):
            (bx, _, x), (by, _, y) = srcs
            ex = edges_where(a, lambda op, l, r: op in ('Lt', 'Le') and flowm.eqv(l, x) and flowm.eqv(r, y), flags=False)
            ey = edges_where(a, lambda op, l, r: op in ('Lt', 'Le') and flowm.eqv(l, y) and flowm.eqv(r, x), flags=False)
            if ex and ey and a.cfg.must_pass(bx, via_edges=ex) and a.cfg.must_pass(by, via_edges=ey):
                return x, y
    return None
