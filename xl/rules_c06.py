"""C06 — content hashes: streaming hasher fed exactly the accepted bytes; one merge core for producer and validators."""
from .core import an, strip_generics as sg
from . import flow
from . import rules_c05 as c05

EXPLANATION = (
    'Decides: (R06a) HashedWrite::write hashes exactly buf[..n] where n is the Ok payload of the inner writer\'s write on the same buf, after that write; the same hasher is finalised by hash(); '
    'it is keyed with the same 32-byte key as compute_data_hash (evaluated constants equal); (R06b) the xorb-hash producer (cas_node_hash) and both validators reach the same merge core '
    '(merge -> merge_one_level -> hash_node_sequence -> compute_internal_node_hash), which has a single non-test caller chain, and all feed (hash, length) leaves; file_node_hash reaches the same core; '
    '(R06c) range_hash_from_chunks feeds every input hash, in order, to one keyed hash with the verification key. Not decided: equality with an independent implementation, collision behaviour, '
    'text-form round trips (value-level).')

HW = '<merklehash::data_hash::HashedWrite<W> as std::io::Write>::write'
CORE = 'merklehash::data_hash::compute_internal_node_hash'


def run(ctx):
    ctx.rule('R06a', 'HashedWrite::write: hasher.update(buf[..n]) with n = Ok payload of the inner write(buf), write first; same key as compute_data_hash')
    ctx.rule('R06b', 'producer and both validators aggregate through one merge core')
    ctx.rule('R06c', 'range_hash_from_chunks: one keyed hash over all input hashes in order')
    ctx.guarded('R06a', HW, lambda: r06a(ctx))
    ctx.guarded('R06b', CORE, lambda: r06b(ctx))
    ctx.guarded('R06c', 'range hash', lambda: r06c(ctx))
    ctx.rule('R06d', 'hash functions carry no state across calls: with_salt is the one-shot keyed hash of its two parameters; the only thread-local in the hash crates is the scratch buffer of hash_node_sequence, cleared before every use')
    ctx.guarded('R06d', 'purity', lambda: r06d(ctx))
    ctx.rule('R06e', 'the text hashed for an interior node is, per child, the core::fmt rendering `{:x} : {}\\n` of (child.hash(), child.len()) — the published construction, for every length')
    ctx.guarded('R06e', 'merkledb::merklenode::hash_node_sequence', lambda: node_line(ctx))


def r06a(ctx):
    F = ctx.F
    a = an(F.body(HW))
    ups = a.calls('blake3::Hasher::update')
    ws = [w for w in a.calls('std::io::Write::write') if flow.show(a.arg(w, 0)) == 'self.writer']
    if not ctx.check(len(ups) == 1 and len(ws) == 1, 'R06a', HW, 'update', '-', 'one inner write and one hasher update'):
        return
    u, w = ups[0], ws[0]
    arg = a.arg(u, 1)
    ok = (arg[0] == 'index' and arg[1] == ('param', 2, 'buf') and arg[2][0] == 'agg' and 'RangeTo' in arg[2][2] and a.rooted_at(dict(arg[2][3]).get('end', ('top',)), w)
          and a.arg(w, 1) == ('param', 2, 'buf'))
    ctx.check(ok, 'R06a', HW, 'update', a.loc(u), 'the hasher is fed buf[..n] with n the number of bytes the inner writer accepted of that same buf',
              'the streaming hasher is fed %s, not the prefix of buf that the inner writer accepted: a short write makes the streaming hash differ from the one-shot hash of the bytes written' % flow.show(arg)[:60])
    ctx.check(a.cfg.must_pass(u, via_blocks=[w]) and flow.show(a.arg(u, 0)) == 'self.hasher', 'R06a', HW, 'write<update', a.loc(u), 'the inner write precedes the update of self.hasher')
    oks = [e for (_, _, k, e) in a.ret_sites() if k == 'ok']
    ctx.check(len(oks) == 1 and a.rooted_at(oks[0][3][0][1], w), 'R06a', HW, 'ret', '-', 'write reports the inner writer\'s count')
    h = an(F.body('merklehash::data_hash::HashedWrite::<W>::hash'))
    fz = h.calls('blake3::Hasher::finalize')
    ctx.check(len(fz) == 1 and flow.show(h.arg(fz[0], 0)) == 'self.hasher', 'R06a', h.path, 'finalize', h.loc(fz[0]) if fz else '-', 'hash() finalises that same hasher field')
    n = an(F.body('merklehash::data_hash::HashedWrite::<W>::new'))
    nk = n.calls('blake3::Hasher::new_keyed')
    c = an(F.body('merklehash::data_hash::compute_data_hash'))
    ck = c.calls('blake3::keyed_hash')
    ok = len(nk) == 1 and len(ck) == 1 and n.arg(nk[0], 0)[0] == 'bytes' and n.arg(nk[0], 0) == c.arg(ck[0], 0)
    ctx.check(ok, 'R06a', n.path, 'key', n.loc(nk[0]) if nk else '-', 'HashedWrite and compute_data_hash use the same evaluated 32-byte key (%s…)' % (n.arg(nk[0], 0)[1][:16] if nk and n.arg(nk[0], 0)[0] == 'bytes' else '?'),
              'the streaming hasher is keyed differently from compute_data_hash')
    ctx.check(len(ck) == 1 and c.arg(ck[0], 1) == ('param', 1, 'slice'), 'R06a', c.path, 'input', c.loc(ck[0]) if ck else '-', 'compute_data_hash hashes exactly its input slice')
    fl = an(F.body('<merklehash::data_hash::HashedWrite<W> as std::io::Write>::flush'))
    ctx.check(not fl.calls('blake3::Hasher::update'), 'R06a', fl.path, 'flush', '-', 'flush does not touch the hasher')


def reach_chain(ctx, src, dst_suffix):
    return ctx.cg.reaches(src, lambda c: c.endswith(dst_suffix))


def r06b(ctx):
    F = ctx.F
    srcs = {
        'producer cas_node_hash': 'merkledb::aggregate_hashes::cas_node_hash',
        'producer file_node_hash': 'merkledb::aggregate_hashes::file_node_hash',
        'seekable validator': 'cas_object::cas_object_format::CasObject::validate_cas_object',
        'stream validator': 'cas_object::validate_xorb_stream::_validate_cas_object_from_async_read::{closure#0}',
        'uploader RawXorbData::from_chunks': 'deduplication::raw_xorb_data::RawXorbData::from_chunks',
    }
    for nm, s in srcs.items():
        body = F.bodies.get(s) or (F.find(s.split('::')[-1]) or [None])[0]
        if body is None:
            ctx.fail('R06b', s, 'anchor', '-', 'anchor missing: %s' % s)
            continue
        ch = reach_chain(ctx, body['qpath'], 'data_hash::compute_internal_node_hash')
        ctx.check(ch is not None, 'R06b', body['qpath'], 'reaches core', '-', '%s reaches compute_internal_node_hash (%s)' % (nm, ' -> '.join(x.split('::')[-1] for x in ch) if ch else ''),
                  'cannot establish agreement: %s no longer aggregates through the shared merge core' % nm)
        if ch:
            ctx.check(any(x.endswith('merklenode::hash_node_sequence') for x in ch) or reach_chain(ctx, body['qpath'], 'merklenode::hash_node_sequence') is not None, 'R06b', body['qpath'], 'via hash_node_sequence', '-',
                      '%s goes through hash_node_sequence' % nm)
    callers = {b['qpath'] for b, _ in ctx.cg.call_sites(CORE) if '::tests::' not in b['qpath'] and not b['crate'].startswith('bin:')}
    ctx.check(callers <= {'merkledb::merklenode::hash_node_sequence', 'merkledb::merklenode::hash_node_sequence::{closure#0}'} and bool(callers), 'R06b', CORE, 'callers', '-', 'compute_internal_node_hash has exactly one non-test caller: hash_node_sequence', 'callers: %s' % sorted(callers))
    c = an(F.body(CORE))
    ck = c.calls('blake3::keyed_hash')
    d = an(F.body('merklehash::data_hash::compute_data_hash')).arg(an(F.body('merklehash::data_hash::compute_data_hash')).calls('blake3::keyed_hash')[0], 0)
    ctx.check(len(ck) == 1 and c.arg(ck[0], 0)[0] == 'bytes' and c.arg(ck[0], 0) != d, 'R06b', CORE, 'key', c.loc(ck[0]) if ck else '-', 'interior nodes are keyed with their own constant, distinct from the leaf key')
    # leaves are (hash, length) of one and the same input element — whether the elements are visited by a closure
    # (`chunks.iter().map(|(h, len)| ..)`) or by an explicit loop over the chunks parameter
    for s in ('merkledb::aggregate_hashes::cas_node_hash', 'merkledb::aggregate_hashes::file_node_hash'):
        b = F.body(s)
        found, ok = 0, True
        for (ab, is_closure) in [(an(b), False)] + [(an(cb), True) for cb in F.children(b)]:
            for m in ab.calls('merkledb::merkledbbase::MerkleDBBase::maybe_add_node'):
                found += 1
                h, ln = ab.arg(m, 1), ab.arg(m, 2)
                same = h[0] == 'field' and ln[0] == 'field' and h[2] == '0' and ln[2] == '1' and h[1] == ln[1]
                if not same:
                    ok = False
                    continue
                x = h[1]
                if is_closure:
                    ok = ok and x[0] == 'param'
                else:
                    srcs = [e_ for (_, _, e_) in ab.flow.sources(x)]
                    ok = ok and bool(srcs) and all(flow.mentions(e_, lambda z: z[0] == 'param' and z[1] == 1) for e_ in srcs)
        ctx.check(found >= 1 and ok, 'R06b', s, 'leaf', '-', 'each leaf is added as (hash, length) of one input element')
        # ... and what is merged is exactly the sequence of nodes returned for the input elements (one per element, in
        # order) — not something read back from the node store, which holds each distinct node once
        ab = an(b)
        mg = [c for c in ab.calls() if sg(ab.term(c).get('fn', '')).split('::')[-1] in ('merge_to_file', 'merge_to_cas')]
        okm = False
        if len(mg) == 1:
            nodes = ab.arg(mg[0], 1)
            # closure form: collect(map(iter(chunks), |..| maybe_add_node(..).0))
            for z in flow.subtrees(nodes):
                if z[0] == 'agg' and z[1] == 'closure' and z[2] in F.bodies:
                    ac = an(F.bodies[z[2]])
                    rr = [e_ for (_, _, _, e_) in ac.ret_sites()]
                    if len(rr) == 1 and ac.root_call(rr[0]) is not None and sg(ac.root_call(rr[0])[1]).endswith('maybe_add_node') and flow.mentions(nodes, lambda y: y[0] == 'param' and y[1] == 1):
                        okm = True
            # loop form: nodes is a vector into which the loop pushes maybe_add_node(..).0
            if not okm:
                base = nodes
                while base[0] in ('index', 'slice'):
                    base = base[1]
                pushes = [p_ for p_ in ab.calls('alloc::vec::Vec::push') if ab.arg(p_, 0) == base]
                okm = len(pushes) == 1 and ab.root_call(ab.arg(pushes[0], 1)) is not None and sg(ab.root_call(ab.arg(pushes[0], 1))[1]).endswith('maybe_add_node') \
                    and c05.loop_of(ab, pushes[0]) is not None and c05.loop_of(ab, ab.root_call(ab.arg(pushes[0], 1))[3]) == c05.loop_of(ab, pushes[0])
        ctx.check(okm, 'R06b', s, 'merged nodes', ab.loc(mg[0]) if mg else '-', 'the merged node list is the list of nodes returned by maybe_add_node for the input elements, in input order',
                  'the nodes that are merged are not the nodes returned for the input elements (e.g. read back from the node store, which keeps each distinct node once): repeated chunks drop out of the aggregate hash')


def r06c(ctx):
    F = ctx.F
    a = an(F.body('mdb_shard::chunk_verification::range_hash_from_chunks'))
    kh = a.calls('blake3::keyed_hash')
    is_chunks = lambda z: z[0] == 'param' and z[1] == 1
    if not ctx.check(len(kh) == 1 and a.arg(kh[0], 0)[0] == 'bytes', 'R06c', a.path, 'keyed_hash', a.loc(kh[0]) if kh else '-', 'one keyed hash, keyed with a constant'):
        return
    msg = a.arg(kh[0], 1)
    loops = a.cfg.loops()
    if not loops:
        # pipeline form: chunks.iter().flat_map(|h| h.as_bytes()..).collect()
        ok = flow.mentions(msg, is_chunks) and not flow.mentions(msg, lambda z: z[0] == 'local')
        ctx.check(ok, 'R06c', a.path, 'keyed_hash', a.loc(kh[0]), 'the hashed buffer derives only from the chunks parameter')
        sw = [b for b in a.cfg.reach0 if a.blocks[b]['t']['k'] == 'switch']
        ctx.check(not sw, 'R06c', a.path, 'no branch', '-', 'no branch or loop between the input and the hash (every hash, in iteration order)')
        cl = F.children(a.body)
        okc = False
        for cb in cl:
            ac = an(cb)
            rr = [e for (_, _, _, e) in ac.ret_sites()]
            if len(rr) == 1 and flow.mentions(rr[0], lambda z: z[0] == 'call' and sg(z[1]).endswith('as_bytes')) and flow.mentions(rr[0], lambda z: z[0] == 'param'):
                okc = True
        ctx.check(okc, 'R06c', a.path, 'bytes', '-', 'each element contributes all bytes of its hash')
        return
    # loop form: a byte buffer filled by one pass over the chunks, each iteration appending all bytes of the element
    from . import loops as L
    buf = msg
    while buf[0] in ('index', 'slice'):
        buf = buf[1]
    ctor = buf[0] == 'call' and sg(buf[1]).split('::')[-1] in ('new', 'with_capacity')
    okb = buf[0] == 'local' or ctor
    ext = [c for c in a.calls() if okb and a.term(c)['args'] and a.arg(c, 0) == buf and sg(a.term(c).get('fn', '')).split('::')[-1] not in ('as_slice', 'len', 'deref', 'as_ref', 'capacity')
           and a.flow.lty((a.term(c)['args'][0].get('mv') or a.term(c)['args'][0].get('cp') or {'l': 0})['l']).startswith('&mut')]
    good = okb and len(ext) == 1 and sg(a.term(ext[0]).get('fn', '')).endswith('extend_from_slice')
    lp = c05.loop_of(a, ext[0]) if good else None
    wp = L.whole_pass(a, lp, is_chunks) if lp else None
    ctx.check(good and wp is not None and len(loops) == 1, 'R06c', a.path, 'no branch', a.loc(ext[0]) if ext else '-',
              'the buffer is filled by exactly one extend_from_slice in one loop that passes over the whole chunks parameter, front to back')
    if good and wp:
        x = a.arg(ext[0], 1)
        okx = x[0] == 'call' and sg(x[1]).endswith('as_bytes') and len(x[2]) == 1 and wp['elem'](x[2][0])
        if wp['kind'] == 'index':
            okx = okx and ext[0] not in a.cfg.reach_after([wp['incr_block']], cut_edges=[(q, lp[0]) for q in lp[1] if lp[0] in a.cfg.succ[q]])
        ctx.check(okx, 'R06c', a.path, 'bytes', a.loc(ext[0]), 'each element contributes all bytes of its hash')
        ctx.check(L.every_iteration_passes(a, lp, ext[0]) and a.cfg.must_pass(kh[0], via_edges=wp['exhaust']), 'R06c', a.path, 'every element', a.loc(ext[0]),
                  'every iteration appends, and the hash is taken only after the pass is complete')
        ds = a.flow.defs.get(buf[1], []) if not ctor else []
        oki = (ctor and buf[3] not in lp[1]) or (len(ds) == 1 and ds[0][0] in ('call', 'assign') and ds[0][1] not in lp[1])
        if oki and not ctor:
            e0 = a.flow.call(ds[0][2], ds[0][1], 0) if ds[0][0] == 'call' else a.flow.rvalue(ds[0][3], 0)
            oki = e0[0] == 'call' and sg(e0[1]).split('::')[-1] in ('new', 'with_capacity')
        ctx.check(oki, 'R06c', a.path, 'empty start', '-', 'the buffer starts empty')


def r06d(ctx):
    from . import rules_c03 as c03
    from .rules_c11 import _Alias
    c03.r03b(_Alias(ctx, 'R03b', 'R06d'))
    F = ctx.F
    users = set()
    for p, b in F.bodies.items():
        if b['crate'] not in ('merklehash', 'merkledb') or '::tests' in p or 'merkledb_debug' in p:
            continue
        a = an(b)
        if any('thread::local::LocalKey' in a.term(c).get('fn', '') for c in a.calls()):
            users.add(p)
        if any(s.get('r', {}).get('k') == 'tls' for bb in b['blocks'] for s in bb['s']) and '::{constant#' not in p:
            users.add(p)
    exp = {'merkledb::merklenode::hash_node_sequence'}
    ctx.check(users == exp, 'R06d', 'merklehash+merkledb', 'thread-local users', '-', 'the only function of the hash crates that touches thread-local state is hash_node_sequence (scratch buffer)',
              'unreviewed cross-call state in a hash function: thread-local access in %s — a hash must be a pure function of its inputs' % sorted(users ^ exp))
    # scratch idiom: the buffer is cleared before it is written and hashed
    h = F.body('merkledb::merklenode::hash_node_sequence')
    okc = False
    for ch in F.children(h):
        ac = an(ch)
        clr = ac.calls('alloc::string::String::clear') + ac.calls('alloc::vec::Vec::clear')
        hc = ac.calls(CORE)
        if clr and hc and all(ac.cfg.must_pass(x, via_blocks=clr) for x in hc) and not c05_loop(ac, clr[0]):
            wr = [c for c in ac.calls() if sg(ac.term(c).get('fn', '')).endswith('Write::write_fmt')
                  or sg(ac.term(c).get('fn', '')) in ('alloc::string::String::push', 'alloc::string::String::push_str', 'alloc::string::String::insert_str', 'alloc::string::String::extend')]
            # a write inside a nested closure (`children.iter().for_each(|c| writeln!(buf, ..))`) happens where that closure
            # is handed to its consumer
            for cc in F.children(ch):
                acc_ = an(cc)
                if any(sg(acc_.term(c).get('fn', '')).endswith('Write::write_fmt') for c in acc_.calls()):
                    wr += [c for c in ac.calls() if any(flow.mentions(ac.arg(c, i_), lambda z: z[0] == 'agg' and z[1] == 'closure' and z[2] == cc['qpath']) for i_ in range(len(ac.term(c)['args'])))]
            okc = all(ac.cfg.must_pass(w, via_blocks=clr) for w in wr) and bool(wr)
    ctx.check(okc, 'R06d', h['qpath'], 'scratch cleared', '-', 'the thread-local buffer is cleared before it is filled and hashed (no bytes of an earlier call survive)',
              'the thread-local buffer of hash_node_sequence is not cleared before use: the hash depends on earlier calls')


def _template_tokens(t):
    """tokens of a compiled format template: 'ARG' for a plain placeholder, literal strings; None if not understood"""
    out, i = [], 0
    while i < len(t):
        ch = t[i]
        if ch == '\x00':
            return out if i == len(t) - 1 else None
        if ch == '\ufffd' or ord(ch) == 0xC0:
            out.append('ARG')
            i += 1
            continue
        n = ord(ch)
        if n >= 0x80 or i + 1 + n > len(t):
            return None
        out.append(t[i + 1:i + 1 + n])
        i += 1 + n
    return out


def node_line(ctx):
    """C06c: the text hashed for an interior node has one line `<hash as lower hex> : <len in decimal>\\n` per child.
    The pieces written per child are collected in execution order: core::fmt templates (literal text and the formatter
    of each argument), constant `push`/`push_str`, and `push_str(&child.hash().hex())` (= `{:x}`).  Any other
    hand-assembled piece is reported as not establishable (whether a digit loop prints every usize is arithmetic)."""
    F = ctx.F
    h = F.body('merkledb::merklenode::hash_node_sequence')
    bodies, todo = [], list(F.children(h))
    while todo:
        b_ = todo.pop(0)
        if b_ not in bodies:
            bodies.append(b_)
            todo += list(F.children(b_))
    HEX, DEC = ('hex', 'hash'), ('dec', 'len')
    seqs = []
    bad = None
    for bdy in bodies:
        ab = an(bdy)
        sites = []
        for c in sorted(ab.cfg.reach0):
            t = ab.term(c)
            if t['k'] != 'call':
                continue
            fn = sg(t.get('fn', ''))
            if fn.endswith('fmt::Arguments::new') or fn.endswith('fmt::Arguments::new_v1') or fn.endswith('fmt::Arguments::new_const'):
                tpl = ab.arg(c, 0)
                toks = _template_tokens(tpl[1]) if tpl[0] == 'str' else None
                args = ab.arg(c, 1) if len(t['args']) > 1 else ('agg', 'array', '', [])
                els = [e for (_, e) in args[3]] if args[0] == 'agg' else None
                if toks is None or els is None or toks.count('ARG') != len(els):
                    bad = (ab, c, 'a format template that is not understood')
                    continue
                out, k = [], 0
                for tk in toks:
                    if tk != 'ARG':
                        out.append(tk)
                        continue
                    e = els[k]
                    k += 1
                    kind = None
                    if e[0] == 'call' and e[2]:
                        fm = sg(e[1]).split('::')[-1]
                        x = e[2][0]
                        getter = sg(x[1]) if x[0] == 'call' else (sg(ab.flow.sources(x)[0][2][1]) if x[0] == 'local' and len(ab.flow.sources(x)) == 1 and ab.flow.sources(x)[0][2][0] == 'call' else '')
                        if fm == 'new_lower_hex' and getter == 'merkledb::merklenode::MerkleNode::hash':
                            kind = HEX
                        elif fm == 'new_display' and getter == 'merkledb::merklenode::MerkleNode::len':
                            kind = DEC
                    out.append(kind if kind else ('?', flow.show(e)[:50]))
                sites.append((c, out))
            elif fn in ('alloc::string::String::push', 'alloc::string::String::push_str'):
                v = ab.arg(c, 1)
                if v[0] == 'const' and isinstance(v[1], int) and v[2] == 'char':
                    sites.append((c, [chr(v[1])]))
                elif v[0] == 'str':
                    sites.append((c, [v[1]]))
                elif flow.mentions(v, lambda z: z[0] == 'call' and sg(z[1]).endswith('::hex') and z[2] and flow.mentions(z[2][0], lambda y: y[0] == 'call' and sg(y[1]) == 'merkledb::merklenode::MerkleNode::hash')):
                    sites.append((c, [HEX]))
                else:
                    bad = (ab, c, 'a hand-assembled piece (%s of %s)' % (fn.split('::')[-1], flow.show(v)[:40]))
            elif fn in ('alloc::string::String::insert_str', 'alloc::string::String::insert', 'alloc::string::String::extend', 'alloc::vec::Vec::push', 'alloc::vec::Vec::extend_from_slice'):
                bad = (ab, c, 'a hand-assembled piece (%s)' % fn.split('::')[-1])
        if sites:
            # execution order inside one iteration: the sites must be totally ordered by dominance
            sites.sort(key=lambda s_: sum(1 for o in sites if o[0] != s_[0] and ab.cfg.dominates(o[0], s_[0])))
            if not all(ab.cfg.dominates(sites[i][0], sites[i + 1][0]) for i in range(len(sites) - 1)):
                bad = bad or (ab, sites[0][0], 'pieces written on alternative paths')
            seqs.append((ab, sites[0][0], [tk for (_, toks) in sites for tk in toks]))
    if not ctx.check(bad is None, 'R06e', h['qpath'], 'line by core::fmt', bad[0].loc(bad[1]) if bad else '-', 'the node text is made of core::fmt renderings and constant separators only',
                     ('the text hashed for an interior node contains %s: it cannot be established that the line spells `{:x} : {}\\n` of (hash, len) for every length (e.g. more digits than a fixed buffer holds)' % bad[2]) if bad else None):
        return
    if not ctx.check(len(seqs) == 1, 'R06e', h['qpath'], 'one writer', '-', 'one place writes the line of a child', 'cannot establish: the line of a child is written in %d places' % len(seqs)):
        return
    ab, c, toks = seqs[0]
    # merge adjacent literals
    norm = []
    for tk in toks:
        if isinstance(tk, str) and norm and isinstance(norm[-1], str):
            norm[-1] += tk
        else:
            norm.append(tk)
    def showt(x):
        return '{:x} of hash' if x == HEX else '{} of len' if x == DEC else repr(x) if isinstance(x, str) else 'a rendering of %s' % x[1]
    ctx.check(norm == [HEX, ' : ', DEC, '\n'], 'R06e', h['qpath'], 'line', ab.loc(c), 'the line of a child is its hash in lower hex, " : ", its length in decimal and a newline',
              'the line hashed for a child is [%s]; the published construction is [{:x} of hash, \' : \', {} of len, newline]' % ', '.join(showt(x) for x in norm))


def c05_loop(a, b):
    from . import rules_c05 as c05
    return c05.loop_of(a, b) is not None
