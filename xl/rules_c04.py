"""C04 — chunking: state reset on every cut; hash computed over the bytes carried (structural clauses)."""
from .core import an, strip_generics as sg
from . import flow

EXPLANATION = (
    'Decides the structural necessary conditions of "boundaries depend only on the bytes since the previous boundary": (R04a) in Chunker::next every path that builds a Chunk reaches, '
    'before returning, the reset of the rolling hash (gearhash set_hash(0)) and of the open-chunk length (cur_chunk_len = 0); (R04b) the chunk\'s hash is compute_data_hash over the very buffer '
    'whose contents become the chunk\'s data, and the hash is taken before the buffer is moved out; only Chunker::next constructs chunks; next_block/finish obtain theirs from next. '
    'Not decided: equality with the reference gear-hash rule, partition independence, the min/max bounds (value-level arithmetic on cur_chunk_len/consume_len).')

NEXT = 'deduplication::chunking::Chunker::next'


def run(ctx):
    ctx.rule('R04a', 'every path through a Chunk construction in Chunker::next resets the rolling hash and cur_chunk_len before returning')
    ctx.rule('R04b', 'the emitted chunk\'s hash is compute_data_hash(chunkbuf) and its data is that same buffer, hash first; chunks are constructed only in Chunker::next')
    ctx.rule('R04c', 'every bound computed in Chunker::next is relative to the open chunk: the minimum-size skip and the search window subtract cur_chunk_len, the skip is also limited by the input still unconsumed')
    ctx.guarded('R04a', NEXT, lambda: r04(ctx))
    ctx.guarded('R04c', NEXT, lambda: r04c(ctx))
    ctx.rule('R04d', 'cur_chunk_len tracks the buffered chunk: on every path through Chunker::next the bytes appended to chunkbuf equal the increase of cur_chunk_len, at every chunk creation and at every return (so the minimum-size skip, the search window and the forced cut, which are all computed from cur_chunk_len, speak about the chunk actually emitted)')
    ctx.guarded('R04d', NEXT, lambda: length_tracking(ctx, 'R04d'))


def r04(ctx):
    F = ctx.F
    a = an(F.body(NEXT))
    aggs = []
    for b in sorted(a.cfg.reach0):
        for si, s in enumerate(a.blocks[b]['s']):
            r = s.get('r')
            if r and r['k'] == 'agg' and r['ak'] == 'adt' and r['adt'] == 'deduplication::chunking::Chunk':
                aggs.append((b, si, a.flow.rvalue(r, 0)))
    ctx.floor('R04b', 'Chunk construction sites in Chunker::next', len(aggs), 1)
    sets = [c for c in a.calls('gearhash::Hasher::set_hash') if flow.show(a.arg(c, 0)) == 'self.hash' and a.arg(c, 1) == ('const', 0, 'u64')]
    zero = [(b, si) for (b, si, s) in a.stores_to_field('cur_chunk_len') if a.flow.rvalue(s['r'], 0) == ('const', 0, 'usize')]
    rets = set(a.cfg.returns)
    for (b, si, e) in aggs:
        cut_h = [x for c in sets for x in a.cfg.out_edges(c)]
        leak_h = a.cfg.reach_after([b], cut_edges=cut_h) & rets
        if leak_h and sets and a.cfg.must_pass(b, via_blocks=sets):
            leak_h = set()      # the reset already happened on every path to the construction (no loop in next)
        ctx.check(bool(sets) and not leak_h, 'R04a', NEXT, 'set_hash(0)', a.loc(b, si), 'every path through the Chunk construction passes self.hash.set_hash(0) before returning',
                  'a chunk can be emitted without resetting the rolling hash: the next boundary then depends on bytes before the cut')
        cut_z = [x for (zb, _) in zero for x in a.cfg.out_edges(zb)]
        zin = any(zb == b and zs > si for (zb, zs) in zero)
        leak_z = set() if zin else (a.cfg.reach_after([b], cut_edges=cut_z) & rets)
        if leak_z and zero and (a.cfg.must_pass(b, via_blocks=[zb for (zb, _) in zero if zb != b]) or any(zb == b and zs < si for (zb, zs) in zero)):
            leak_z = set()
        okz = bool(zero) and not leak_z
        if not okz:
            # the running length may live in a local that is written back at the end: decide it path by path — after the
            # buffer was taken (length 0) every path must return with cur_chunk_len equal to the buffer's length
            from . import lenacct
            r_ = lenacct.Acct(a, 'cur_chunk_len', 'chunkbuf').run()
            okz = r_.npaths >= 1 and r_.checked >= 2 and not r_.issues
        ctx.check(okz, 'R04a', NEXT, 'cur_chunk_len=0', a.loc(b, si), 'every path through the Chunk construction passes cur_chunk_len = 0 before returning',
                  'a chunk can be emitted without resetting the open-chunk length')
        f = dict(e[3])
        h, d = f.get('hash'), f.get('data')
        okh = h is not None and h[0] == 'call' and sg(h[1]) == 'merklehash::data_hash::compute_data_hash' and flow.mentions(h[2][0], lambda z: z[0] == 'field' and z[2] == 'chunkbuf' and z[1][0] == 'param')
        okd = d is not None and flow.mentions(d, lambda z: z[0] == 'call' and sg(z[1]) == 'core::mem::take' and flow.show(z[2][0]) == 'self.chunkbuf')
        ctx.check(okh and okd, 'R04b', NEXT, 'hash/data', a.loc(b, si), 'Chunk { hash: compute_data_hash(self.chunkbuf[..]), data: take(self.chunkbuf) }',
                  'the chunk\'s hash is not computed over the buffer that becomes its data: hash=%s data=%s' % (flow.show(h)[:60] if h else '?', flow.show(d)[:60] if d else '?'))
        if okh and okd:
            hb = h[3]
            tb = [z for z in flow.subtrees(d) if z[0] == 'call' and sg(z[1]) == 'core::mem::take'][0][3]
            ctx.check(a.cfg.must_pass(tb, via_blocks=[hb]) and tb != hb, 'R04b', NEXT, 'hash<take', a.loc(tb), 'the hash is computed before the buffer is moved out')
            # whole buffer: RangeFull
            ctx.check(flow.mentions(h[2][0], lambda z: z[0] == 'agg' and 'RangeFull' in z[2]) or h[2][0][0] == 'field', 'R04b', NEXT, 'whole buffer', a.loc(hb), 'the hash covers the whole buffer')
    # the bytes consumed are what is appended to the buffer: extend_from_slice(data[0..consume_len]) and consume_len is returned
    ex = [c for c in a.calls('alloc::vec::Vec::extend_from_slice') if flow.show(a.arg(c, 0)) == 'self.chunkbuf']
    ok = len(ex) == 1
    if ok:
        sl = a.arg(ex[0], 1)
        ok = sl[0] == 'index' and (sl[1][0] == 'param' and sl[1][1] == 2) and sl[2][0] == 'agg' and dict(sl[2][3]).get('start') == ('const', 0, 'usize') and dict(sl[2][3]).get('end', ('x',))[0] == 'local'
        cl = dict(sl[2][3]).get('end')
        # every value `next` can return is a pair whose second component is that same cursor
        tups = []
        for (rb, rsi, rk, re_) in a.ret_sites():
            for (_, _, se) in a.flow.sources(re_, (rb, rsi)):
                tups.append(se)
        ok = ok and len(tups) >= 1 and all(t[0] == 'agg' and t[1] == 'tuple' and len(t[3]) == 2 for t in tups)
        if ok:
            # the reported count is that cursor — or a literal 0 on a path that appends nothing at all
            exb = ex[0]
            for t in tups:
                if t[3][1][1] == cl:
                    continue
                for (sb, ssi, se) in a.flow.sources(t[3][1][1], None, None, lambda z: z == cl):
                    if se == cl:
                        continue
                    if se == ('const', 0, 'usize') and sb is not None and exb not in a.cfg.reach([sb]) and sb not in a.cfg.reach([exb]):
                        continue
                    ok = False
    why = None
    if not ok:
        # several append sites / early returns: decide it path by path
        from . import lenacct
        r = lenacct.Acct(a, 'cur_chunk_len', 'chunkbuf', consumed_index=1).run()
        ok = r.npaths >= 1 and not r.cissues and not [i for i in r.issues if i[0] == 'unknown']
        if r.cissues:
            why = 'the count Chunker::next reports as consumed is not the number of input bytes it buffered: %s' % '; '.join(m[2] for m in r.cissues)[:300]
    ctx.check(ok, 'R04b', NEXT, 'consumed=appended', a.loc(ex[0]) if ex else '-', 'exactly data[0..consume_len] is appended to the chunk buffer and consume_len is what next reports as consumed', why)
    # who builds chunks
    builders = set()
    for p, b in F.bodies.items():
        if b['crate'] != 'deduplication' or '::tests::' in p:
            continue
        for blk in b['blocks']:
            for s in blk['s']:
                r = s.get('r')
                if r and r['k'] == 'agg' and r.get('adt') == 'deduplication::chunking::Chunk':
                    builders.add(p)
    allowed = {NEXT, '<deduplication::chunking::Chunk as core::clone::Clone>::clone'}
    ctx.check(builders <= allowed and NEXT in builders, 'R04b', 'deduplication', 'Chunk builders', '-', 'Chunk values are constructed only in Chunker::next (and the derived Clone)', 'Chunk constructed in %s' % sorted(builders - allowed))
    for nm in ('next_block', 'finish'):
        an_ = an(F.body('deduplication::chunking::Chunker::' + nm))
        ctx.check(bool(an_.calls(NEXT)), 'R04b', an_.path, 'uses next', '-', '%s obtains its chunks from Chunker::next' % nm)


def _subtracts(e, what, frm):
    """e contains a subtraction whose minuend side mentions `frm` and whose subtracted side mentions `what`"""
    for z in flow.subtrees(e):
        if z[0] == 'bin' and z[1] in ('Sub', 'SubO'):
            if flow.mentions(z[3], what) and flow.mentions(z[2], frm):
                return True
            # a - b - c chains: (a - b) - c : `what` may sit one level down on the subtracted side of an inner Sub
            if z[2][0] == 'bin' and z[2][1] in ('Sub', 'SubO') and flow.mentions(z[2][3], what) and flow.mentions(z[2][2], frm):
                return True
    return False


class _PathwiseFallback:
    """R04c states the size rules on the syntax of Chunker::next; where a sub-check does not recognise the spelling, the
    same rules are decided path by path on linear forms (lenacct.chunker_spec).  A sub-check fails only if both fail."""
    CONSTRUCTS = ('skip site', 'skip bound', 'skip cursor', 'window', 'next_match', 'forced cut')

    def __init__(self, ctx, a):
        self._c, self._a, self._pw = ctx, a, None

    def __getattr__(self, n):
        return getattr(self._c, n)

    def pathwise(self):
        if self._pw is None:
            from . import lenacct
            r = lenacct.Acct(self._a, 'cur_chunk_len', 'chunkbuf', consumed_index=1, spec=lenacct.chunker_spec).run()
            self._pw = (r.npaths >= 4 and not r.spec_issues and not [i for i in r.issues if i[0] == 'unknown'], r)
        return self._pw

    def check(self, cond, rule, fn, construct, site, detail_ok, detail_fail=None, path=None):
        if not cond and construct in self.CONSTRUCTS:
            ok, r = self.pathwise()
            if ok:
                self._c.check(True, rule, fn, construct, site, detail_ok + ' (spelling not recognised; decided path by path on %d paths)' % r.npaths)
                return False        # the caller's follow-up sub-checks need the syntactic anchors; they are covered path by path
            if r.spec_issues and detail_fail is None:
                mine = [m for (c_, m) in r.spec_issues if c_ == construct] or [m for (_, m) in r.spec_issues]
                detail_fail = 'cannot establish: %s; path by path: %s' % (detail_ok, mine[0])
        return self._c.check(cond, rule, fn, construct, site, detail_ok, detail_fail, path)


def r04c(ctx):
    from . import paths
    from .core import edges_where
    a = an(ctx.F.body(NEXT))
    ctx = _PathwiseFallback(ctx, a)
    # the open-chunk length: the field, or a local that carries it through the scan (initialised from the field and
    # written back to it)
    cur_locals = set()
    for l_, ds_ in a.flow.defs.items():
        inits = [d_ for d_ in ds_ if d_[0] == 'assign' and a.flow.rvalue(d_[3], 0) == ('field', ('param', 1, a.flow.lname(1)), 'cur_chunk_len')]
        if inits and len(ds_) >= 2:
            back = [1 for (b_, si_, st_) in a.stores_to_field('cur_chunk_len') if flow.mentions(a.flow.rvalue(st_['r'], 0), lambda z: z[0] == 'local' and z[1] == l_)]
            if back:
                cur_locals.add(l_)
    is_cur = lambda z: (z[0] == 'field' and z[2] == 'cur_chunk_len') or (z[0] == 'local' and z[1] in cur_locals)
    cur_keys = {('self', 'cur_chunk_len')} | {(a.flow.lname(l_),) for l_ in cur_locals}
    is_min = lambda z: z[0] == 'field' and z[2] == 'minimum_chunk'
    is_max = lambda z: z[0] == 'field' and z[2] == 'maximum_chunk'
    is_data_len = lambda z: z[0] in ('len', 'call') and flow.mentions(z, lambda y: y[0] == 'param' and y[1] == 2)
    # (i) the skip: a cur_chunk_len update guarded by `cur_chunk_len (+ window) < threshold` with threshold a configuration
    # field of the chunker (minimum_chunk, or a precomputed skip length derived from it)
    thresholds = []

    def guard_pred(op, l, r):
        if op == 'Lt' and flow.mentions(l, is_cur):
            fs = [z for z in flow.subtrees(r) if z[0] == 'field' and z[1][0] == 'param' and z[1][1] == 1 and z[2] != 'cur_chunk_len']
            if fs:
                thresholds.append(fs[0][2])
                return True
        return False
    guard = edges_where(a, guard_pred)
    ups = []
    for b in sorted(a.cfg.reach0):
        for si, st in enumerate(a.blocks[b]['s']):
            u = paths.additive_update(a, st)
            if u and u[0] in cur_keys and guard and a.cfg.must_pass(b, via_edges=guard):
                ups.append((b, si, u[2]))
    # the same skip written on several mutually exclusive paths (an early return that counts the skip itself) is one skip
    if len(ups) > 1 and all(flow.eqv(u[2], ups[0][2]) for u in ups) and not any(x[0] != y[0] and y[0] in a.cfg.reach_after([x[0]]) for x in ups for y in ups):
        ups = ups[:1]
    if ctx.check(len(ups) == 1, 'R04c', NEXT, 'skip site', '-', 'one minimum-size skip (cur_chunk_len += ..) under a cur_chunk_len < threshold guard (threshold field: %s)' % sorted(set(thresholds))):
        b, si, e = ups[0]
        is_thr = lambda z: z[0] == 'field' and z[2] in thresholds
        from .core import as_min
        mn = as_min(a, e)
        ok = mn is not None
        # the input cursor: the end of the slice appended to the chunk buffer
        cur_l = None
        for c_ in a.calls('alloc::vec::Vec::extend_from_slice'):
            sl_ = a.arg(c_, 1)
            if sl_[0] == 'index' and sl_[2][0] == 'agg' and dict(sl_[2][3]).get('end', ('x',))[0] == 'local':
                cur_l = dict(sl_[2][3])['end'][1]
        # nothing was consumed yet when the skip runs (then "the input still unconsumed" is all of it)
        nothing_consumed = cur_l is not None and all(
            (d_[0] == 'assign' and a.flow.rvalue(d_[3], 0)[:2] == ('const', 0)) or b not in a.cfg.reach_after([d_[1]]) for d_ in a.flow.defs.get(cur_l, []) if not (d_[0] == 'assign' and d_[1] == b))
        if ok:
            x, y = mn
            rel = [z for z in (x, y) if _subtracts(z, is_cur, is_thr)]
            rem = [z for z in (x, y) if flow.mentions(z, is_data_len) and (flow.mentions(z, lambda q: q[0] == 'local') or nothing_consumed)]
            ok = len(rel) == 1 and len(rem) >= 1 and any(r_ is not rel[0] for r_ in rem)
        ctx.check(ok, 'R04c', NEXT, 'skip bound', a.loc(b, si), 'the skip is min(threshold - cur_chunk_len - .., input still unconsumed)',
                  'the minimum-size skip does not subtract the bytes already in the open chunk (or is not limited by the unconsumed input): boundaries then depend on how the stream is split across calls')
        # the same amount advances the input cursor
        cu = [u2 for bb in sorted(a.cfg.reach0) for s2 in a.blocks[bb]['s'] for u2 in [paths.additive_update(a, s2)] if u2 and len(u2[0]) == 1 and u2[0] not in cur_keys and flow.eqv(u2[2], e)]
        if not cu and nothing_consumed and cur_l is not None:
            # `cursor = skip` is `cursor += skip` while nothing was consumed
            cu = [1 for d_ in a.flow.defs.get(cur_l, []) if d_[0] == 'assign' and d_[1] == b and flow.eqv(a.flow.rvalue(d_[3], 0), e)]
        ctx.check(len(cu) == 1, 'R04c', NEXT, 'skip cursor', a.loc(b, si), 'the input cursor advances by the same amount as cur_chunk_len')
    # (ii) search window
    nm = a.calls('gearhash::Hasher::next_match')
    if ctx.check(len(nm) == 1, 'R04c', NEXT, 'next_match', '-', 'one boundary search'):
        w = a.arg(nm[0], 1)
        rg = dict(w[2][3]) if w[0] == 'index' and w[2][0] == 'agg' else {}
        st, en = rg.get('start'), rg.get('end')
        from .core import as_min
        en_parts = None
        if en is not None:
            mn2 = as_min(a, en)
            en_parts = list(mn2) if mn2 is not None else [en]
        ok = (w[0] == 'index' and (w[1][0] == 'param' and w[1][1] == 2) and st is not None and st[0] == 'local' and en is not None
              and any(flow.mentions(z, is_data_len) for z in en_parts) and any(_subtracts(z, is_cur, is_max) for z in en_parts))
        ctx.check(ok, 'R04c', NEXT, 'window', a.loc(nm[0]), 'the search window is data[consumed .. min(len, consumed + maximum_chunk - cur_chunk_len)]',
                  'the boundary search window is not limited relative to the open chunk (maximum_chunk - cur_chunk_len)')
        ctx.check(a.arg(nm[0], 2)[0] == 'field' and a.arg(nm[0], 2)[2] == 'mask' and flow.show(a.arg(nm[0], 0)) == 'self.hash', 'R04c', NEXT, 'mask', a.loc(nm[0]), 'the search uses the persistent rolling hash and the configured mask')
    # (iii) forced cut compares open chunk + advance with maximum_chunk
    fc = edges_where(a, lambda op, l, r: op == 'Ge' and flow.mentions(l, is_cur) and flow.mentions(r, is_max))
    if not fc:
        # clamp form: `advance = min(advance, maximum_chunk - cur_chunk_len); cur_chunk_len += advance; if cur_chunk_len == maximum_chunk`
        from .core import as_min
        clamped = False
        for bb in sorted(a.cfg.reach0):
            for s2 in a.blocks[bb]['s']:
                u2 = paths.additive_update(a, s2)
                if u2 and u2[0] in cur_keys:
                    srcs_ = [se for (_, _, se) in a.flow.sources(u2[2])] or [u2[2]]
                    for se in srcs_ + [u2[2]]:
                        mn3 = as_min(a, se)
                        if mn3 and any(_subtracts(z, is_cur, is_max) for z in mn3):
                            clamped = True
        if clamped:
            fc = edges_where(a, lambda op, l, r: op == 'Eq' and is_cur(l) and flow.mentions(r, is_max))
    ctx.check(bool(fc), 'R04c', NEXT, 'forced cut', '-', 'a forced cut is decided on (advance + cur_chunk_len) >= maximum_chunk')
    # The same rules path by path (seeded change C04d: the window widened by one byte and the clamp moved into the
    # no-match branch keep every syntactic anchor in place).  Where every path could be evaluated the verdict counts;
    # where the evaluator met something it does not understand it is inconclusive and the syntactic verdict stands.
    okp, r = ctx.pathwise()
    conclusive = r.npaths >= 4 and not [i for i in r.issues if i[0] == 'unknown'] and not any('cannot be evaluated' in m for (_, m) in r.spec_issues)
    ctx._c.check(okp or not conclusive, 'R04c', NEXT, 'path by path', '-',
                 ('on all %d paths every advance of the open-chunk length is the bounded skip or the scan advance, the search window is data[consumed .. min(len, consumed + maximum - open chunk)], and the maximum is enforced on match and no-match paths alike' % r.npaths)
                 if okp else 'path-wise evaluation inconclusive (syntactic verdict stands)',
                 'path by path: %s' % '; '.join(sorted({m for (_, m) in r.spec_issues}))[:420])


def length_tracking(ctx, rid):
    """C04c / C15c: a fast path that buffers input without counting it (or emits a chunk whose length was never compared
    with the maximum) keeps `consumed == appended` intact and still breaks the size bounds."""
    from . import lenacct
    a = an(ctx.F.body(NEXT))
    r = lenacct.Acct(a, 'cur_chunk_len', 'chunkbuf').run()
    ctx.floor(rid, 'paths through Chunker::next evaluated', r.npaths, 4)
    ctx.floor(rid, 'length obligations (chunk creations and returns on those paths)', r.checked, 6)
    mism = [i for i in r.issues if i[0] == 'mismatch']
    unk = [i for i in r.issues if i[0] != 'mismatch']
    ctx.check(not mism, rid, NEXT, 'tracked length', a.loc(mism[0][1]) if mism else '-', 'on all %d paths the bytes buffered equal cur_chunk_len at every chunk creation and return' % r.npaths,
              ('cur_chunk_len does not track the buffered chunk: %s (L0 = both at entry); the size bounds are computed from cur_chunk_len, so the emitted chunk can exceed the maximum or be cut at a position that depends on the call partition'
               % '; '.join(sorted({m[2] for m in mism}))[:420]) if mism else None)
    ctx.check(not unk, rid, NEXT, 'evaluable', a.loc(unk[0][1]) if unk else '-', 'every buffer operation on the paths is understood by the length evaluator',
              ('cannot establish that cur_chunk_len tracks the buffer: %s' % '; '.join(sorted({m[2] for m in unk}))[:300]) if unk else None)
