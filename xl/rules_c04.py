"""C04 — chunking: state reset on every cut; hash computed over the bytes carried (structural clauses)."""
from .core import an, strip_generics as sg
from . import flow

EXPLANATION = (
    'Decides the structural necessary conditions of "boundaries depend only on the bytes since the previous boundary": (R04a) in Chunker::next every path that builds a Chunk reaches, '
    'before returning, the reset of the rolling hash (gearhash set_hash(0)) and of the open-chunk length (cur_chunk_len = 0); (R04b) the chunk\'s hash is compute_data_hash over the very buffer '
    'whose contents become the chunk\'s data, and the hash is taken before the buffer is moved out; only Chunker::next constructs chunks; next_block/finish obtain theirs from next. '
    'Not decided: equality with the reference gear-hash rule, partition independence, the min/max bounds (value-level arithmetic on cur_chunk_len/consume_len).')

NEXT = 'deduplication::chunking::Chunker::next'


def run(ctx):
    ctx.rule('R04a', 'every path through a Chunk construction in Chunker::next resets the rolling hash and cur_chunk_len before returning')
    ctx.rule('R04b', 'the emitted chunk\'s hash is compute_data_hash(chunkbuf) and its data is that same buffer, hash first; chunks are constructed only in Chunker::next')
    ctx.guarded('R04a', NEXT, lambda: r04(ctx))


def r04(ctx):
    F = ctx.F
    a = an(F.body(NEXT))
    aggs = []
    for b in sorted(a.cfg.reach0):
        for si, s in enumerate(a.blocks[b]['s']):
            r = s.get('r')
            if r and r['k'] == 'agg' and r['ak'] == 'adt' and r['adt'] == 'deduplication::chunking::Chunk':
                aggs.append((b, si, a.flow.rvalue(r, 0)))
    ctx.floor('R04b', 'Chunk construction sites in Chunker::next', len(aggs), 1)
    sets = [c for c in a.calls('gearhash::Hasher::set_hash') if flow.show(a.arg(c, 0)) == 'self.hash' and a.arg(c, 1) == ('const', 0, 'u64')]
    zero = [(b, si) for (b, si, s) in a.stores_to_field('cur_chunk_len') if a.flow.rvalue(s['r'], 0) == ('const', 0, 'usize')]
    rets = set(a.cfg.returns)
    for (b, si, e) in aggs:
        cut_h = [x for c in sets for x in a.cfg.out_edges(c)]
        leak_h = a.cfg.reach_after([b], cut_edges=cut_h) & rets
        ctx.check(bool(sets) and not leak_h, 'R04a', NEXT, 'set_hash(0)', a.loc(b, si), 'every path from the Chunk construction to return passes self.hash.set_hash(0)',
                  'a chunk can be emitted without resetting the rolling hash: the next boundary then depends on bytes before the cut')
        cut_z = [x for (zb, _) in zero for x in a.cfg.out_edges(zb)]
        zin = any(zb == b and zs > si for (zb, zs) in zero)
        leak_z = set() if zin else (a.cfg.reach_after([b], cut_edges=cut_z) & rets)
        ctx.check(bool(zero) and not leak_z, 'R04a', NEXT, 'cur_chunk_len=0', a.loc(b, si), 'every path from the Chunk construction to return passes cur_chunk_len = 0',
                  'a chunk can be emitted without resetting the open-chunk length')
        f = dict(e[3])
        h, d = f.get('hash'), f.get('data')
        okh = h is not None and h[0] == 'call' and sg(h[1]) == 'merklehash::data_hash::compute_data_hash' and flow.mentions(h[2][0], lambda z: z[0] == 'field' and z[2] == 'chunkbuf' and z[1][0] == 'param')
        okd = d is not None and flow.mentions(d, lambda z: z[0] == 'call' and sg(z[1]) == 'core::mem::take' and flow.show(z[2][0]) == 'self.chunkbuf')
        ctx.check(okh and okd, 'R04b', NEXT, 'hash/data', a.loc(b, si), 'Chunk { hash: compute_data_hash(self.chunkbuf[..]), data: take(self.chunkbuf) }',
                  'the chunk\'s hash is not computed over the buffer that becomes its data: hash=%s data=%s' % (flow.show(h)[:60] if h else '?', flow.show(d)[:60] if d else '?'))
        if okh and okd:
            hb = h[3]
            tb = [z for z in flow.subtrees(d) if z[0] == 'call' and sg(z[1]) == 'core::mem::take'][0][3]
            ctx.check(a.cfg.must_pass(tb, via_blocks=[hb]) and tb != hb, 'R04b', NEXT, 'hash<take', a.loc(tb), 'the hash is computed before the buffer is moved out')
            # whole buffer: RangeFull
            ctx.check(flow.mentions(h[2][0], lambda z: z[0] == 'agg' and 'RangeFull' in z[2]) or h[2][0][0] == 'field', 'R04b', NEXT, 'whole buffer', a.loc(hb), 'the hash covers the whole buffer')
    # the bytes consumed are what is appended to the buffer: extend_from_slice(data[0..consume_len]) and consume_len is returned
    ex = [c for c in a.calls('alloc::vec::Vec::extend_from_slice') if flow.show(a.arg(c, 0)) == 'self.chunkbuf']
    ok = len(ex) == 1
    if ok:
        sl = a.arg(ex[0], 1)
        ok = sl[0] == 'index' and sl[1] == ('param', 2, 'data') and sl[2][0] == 'agg' and dict(sl[2][3]).get('start') == ('const', 0, 'usize') and dict(sl[2][3]).get('end', ('x',))[0] == 'local'
        cl = dict(sl[2][3]).get('end')
        rs = [e for (_, _, _, e) in a.ret_sites()]
        # returned tuple's second component is that same local
        tups = []
        for b in sorted(a.cfg.reach0):
            for s in a.blocks[b]['s']:
                r = s.get('r')
                if r and r['k'] == 'agg' and r['ak'] == 'tuple' and len(r['ops']) == 2:
                    tups.append(a.flow.rvalue(r, 0))
        ok = ok and len(tups) >= 2 and all(t[3][1][1] == cl for t in tups)
    ctx.check(ok, 'R04b', NEXT, 'consumed=appended', a.loc(ex[0]) if ex else '-', 'exactly data[0..consume_len] is appended to the chunk buffer and consume_len is what next reports as consumed')
    # who builds chunks
    builders = set()
    for p, b in F.bodies.items():
        if b['crate'] != 'deduplication' or '::tests::' in p:
            continue
        for blk in b['blocks']:
            for s in blk['s']:
                r = s.get('r')
                if r and r['k'] == 'agg' and r.get('adt') == 'deduplication::chunking::Chunk':
                    builders.add(p)
    allowed = {NEXT, '<deduplication::chunking::Chunk as core::clone::Clone>::clone'}
    ctx.check(builders <= allowed and NEXT in builders, 'R04b', 'deduplication', 'Chunk builders', '-', 'Chunk values are constructed only in Chunker::next (and the derived Clone)', 'Chunk constructed in %s' % sorted(builders - allowed))
    for nm in ('next_block', 'finish'):
        an_ = an(F.body('deduplication::chunking::Chunker::' + nm))
        ctx.check(bool(an_.calls(NEXT)), 'R04b', an_.path, 'uses next', '-', '%s obtains its chunks from Chunker::next' % nm)
