"""C20 — singleflight: lock-region ordering facts that close the lost-wakeup and remove-vs-join windows."""
from .core import an, strip_generics as sg, cond_edges
from . import flow, locks
from .cfg import TERM

EXPLANATION = (
    'Decides, on the MIR of utils::singleflight, the lock-region and ordering facts the protocol relies on: (R20a) Call::complete stores the result '
    'and then notifies, both inside one live range of the result write guard; (R20b) a waiter creates its Notified registration in get_future itself, while '
    'the result read guard is live, on the no-result edge, and the returned future awaits that registration and then reads the result; (R20c) the owner task '
    'marks got_response and completes the call on every path to Poll::Ready, and its drop handler completes with OwnerPanicked on the not-completed edge; '
    '(R20d) one spawn per created call, get_future before spawn, the creator always removes the call after the join, a non-creator awaits the waiter future, '
    'get_call_or_create reports created only on the inserting path, call_map is behind an async mutex; (R20e) no synchronous guard is live across a yield. '
    'These are facts about what is inside which guard, so they hold for every schedule. Not decided: liveness as a whole (runtime fairness, cancellation of the owner).')

M = 'utils::singleflight::'
COMPLETE = M + 'Call::<T, E>::complete'
GETF = M + 'Call::<T, E>::get_future'
POLL = '<utils::singleflight::OwnerTask<T, E, F> as core::future::future::Future>::poll'
DROP = '<utils::singleflight::OwnerTask<T, E, F> as pin_project::__private::PinnedDrop>::drop::__drop_inner'
WORK = M + 'Group::<T, E>::work::{closure#0}'
GOC = M + 'Group::<T, E>::get_call_or_create::{closure#0}'
RMC = M + 'Group::<T, E>::remove_call::{closure#0}'


def run(ctx):
    ctx.rule('R20a', 'Call::complete: store of Some(res) and notify_waiters both inside the live range of the self.res write guard, store first')
    ctx.rule('R20b', 'Call::get_future: on the no-result edge Notify::notified() is called in this body while the self.res read guard is live; the returned future awaits it and then calls get')
    ctx.rule('R20c', 'OwnerTask::poll: every path to Poll::Ready passes got_response.store(true) and Call::complete(res); drop handler completes with OwnerPanicked on the false edge of got_response.load()')
    ctx.rule('R20d', 'Group::work: spawn only on the created edge and after get_future; creator always awaits remove_call after the join; non-creator awaits the waiter future; get_call_or_create says created only when it inserted')
    ctx.rule('R20e', 'no parking_lot / std guard is live at a yield point in utils::singleflight')
    ctx.guarded('R20a', COMPLETE, lambda: r20a(ctx))
    ctx.guarded('R20b', GETF, lambda: r20b(ctx))
    ctx.guarded('R20c', POLL, lambda: r20c(ctx))
    ctx.guarded('R20d', WORK, lambda: r20d(ctx))
    ctx.guarded('R20e', 'utils::singleflight', lambda: r20e(ctx))


def self_field(e, name):
    return flow.mentions(e, lambda z: z[0] == 'field' and z[2] == name and z[1][0] == 'param' and z[1][1] == 1)


def r20a(ctx):
    a = an(ctx.F.body(COMPLETE))
    fn = COMPLETE
    gs = [g for g in locks.guards(a, ('lock_api::rwlock::RwLockWriteGuard<',)) if self_field(a.flow.local(g.local), 'res')]
    if not ctx.check(len(gs) == 1, 'R20a', fn, 'write guard', '-', 'one write guard on self.res'):
        return
    g = gs[0]
    # the store through the guard
    stores = []
    for b in sorted(a.cfg.reach0):
        for si, s in enumerate(a.blocks[b]['s']):
            d = s.get('d')
            if d and d.get('p') == ['*']:
                tgt = a.flow.local(d['l'])
                if tgt[0] == 'call' and tgt[3] == g.acq[0]:
                    stores.append((b, si, a.flow.rvalue(s['r'], 0)))
    ok = len(stores) == 1 and stores[0][2][0] == 'agg' and stores[0][2][2].endswith('Option::Some') and stores[0][2][3][0][1][0] == 'param' and stores[0][2][3][0][1][1] == 2
    if not ctx.check(ok, 'R20a', fn, 'store', a.loc(stores[0][0], stores[0][1]) if stores else '-', 'exactly one store through the guard, of Some(res) with res the parameter',
                     'cannot find the single store `*guard = Some(res)`'):
        return
    sb = stores[0][0]
    ns = [n for n in a.calls('tokio::sync::notify::Notify::notify_waiters') if self_field(a.arg(n, 0), 'nt')]
    if not ctx.check(len(ns) == 1, 'R20a', fn, 'notify_waiters', '-', 'one notify_waiters on self.nt'):
        return
    n = ns[0]
    ctx.check(g.holds_at(sb), 'R20a', fn, 'store.in_guard', a.loc(sb, stores[0][1]), 'the store lies inside the write guard\'s live range')
    ctx.check(g.holds_at(n), 'R20a', fn, 'notify.in_guard', a.loc(n), 'notify_waiters lies inside the write guard\'s live range (a waiter holding the read guard cannot slip between store and notify)',
              'notify_waiters is outside the write guard: a waiter can read "no result", then miss the notification')
    ctx.check(a.cfg.must_pass(n, via_blocks=[sb]) and n != sb, 'R20a', fn, 'store<notify', a.loc(n), 'the store precedes notify_waiters on every path',
              'notify_waiters can run before the result is stored: woken waiters read an empty value')
    # every return passes the notify
    ctx.check(all(a.cfg.must_pass(r, via_blocks=[n]) for r in a.cfg.returns), 'R20a', fn, 'notify.all_paths', a.loc(n), 'every return of complete passes the store and the notification')


def r20b(ctx):
    F = ctx.F
    a = an(F.body(GETF))
    fn = GETF
    gs = [g for g in locks.guards(a, ('lock_api::rwlock::RwLockReadGuard<',)) if self_field(a.flow.local(g.local), 'res')]
    if not ctx.check(len(gs) == 1, 'R20b', fn, 'read guard', '-', 'one read guard on self.res'):
        return
    g = gs[0]
    ns = [n for n in a.calls('tokio::sync::notify::Notify::notified') if self_field(a.arg(n, 0), 'nt')]
    if not ctx.check(len(ns) == 1, 'R20b', fn, 'notified', '-', 'Notify::notified() is called in get_future itself (not inside the returned future)',
                     'Notify::notified() is not called in get_future\'s own body: the waiter registers after the read guard is gone and can miss the owner\'s notification'):
        return
    n = ns[0]
    ctx.check(g.holds_at(n), 'R20b', fn, 'notified.in_guard', a.loc(n), 'the registration happens while the read guard is live',
              'the waiter registers for the notification after releasing the read guard: the owner can store+notify in between (lost wake-up)')
    # on the None edge of the result read through the guard
    sw = a.switches_on(lambda e: e[0] == 'discr' and e[2].startswith('core::option::Option<') and a.root_call(e[1]) is not None and a.root_call(e[1])[3] == g.acq[0])
    some_edges = []
    for (b, e, t) in sw:
        some_edges += [(b, tgt) for v, tgt in t['ts'] if str(v) == '1']
    ctx.check(bool(sw) and n not in a.cfg.reach([0], cut_edges=[(b, s) for (b, e, t) in sw for s in a.cfg.succ[b] if (b, s) not in some_edges]),
              'R20b', fn, 'notified.edge', a.loc(n), 'notified() is reached only on the no-result edge of the value read under the guard')
    # the returned future on that path awaits the registration and then calls get
    closures = [c for c in F.children(F.body(GETF))]
    target = None
    for b in sorted(a.cfg.reach_after([n])):
        for s in a.blocks[b]['s']:
            r = s.get('r')
            if r and r['k'] == 'agg' and r['ak'] == 'coroutine':
                e = a.flow.rvalue(r, 0)
                if any(a.rooted_at(c, n) for _, c in e[3]):
                    target = r['def']
                    regname = [nm_ for nm_, c in e[3] if a.rooted_at(c, n)][0]
    if not ctx.check(target is not None, 'R20b', fn, 'waiter future', '-', 'the Notified registration is moved into the returned async block'):
        return
    ac = an(F.body(target))
    polls = [p for p in ac.calls('core::future::future::Future::poll') if flow.mentions(ac.arg(p, 0), lambda z: z[0] == 'upvar' and z[1] == regname)]
    gets = ac.calls(M + 'Call::get')
    ok = len(polls) == 1 and len(gets) == 1 and ac.cfg.must_pass(gets[0], via_blocks=polls)
    ctx.check(ok, 'R20b', target, 'await-then-get', ac.loc(gets[0]) if gets else '-', 'the waiter future awaits the registration and only then reads the result with get()')
    rs = [e for (_, _, k, e) in ac.ret_sites()]
    ctx.check(len(rs) == 1 and gets and ac.rooted_at(rs[0], gets[0]), 'R20b', target, 'returns get()', '-', 'the waiter future returns what get() read')


def r20c(ctx):
    F = ctx.F
    a = an(F.body(POLL))
    fn = POLL
    readies = [(sb if sb is not None else b, ssi if sb is not None else si, se) for (b, si, k, e) in a.ret_sites() for (sb, ssi, se) in a.flow.sources(e, (b, si)) if se[0] == 'agg' and se[2].endswith('Poll::Ready')]
    if not ctx.check(len(readies) >= 1, 'R20c', fn, 'Poll::Ready', '-', 'found the Poll::Ready return'):
        return
    stores = [s for s in a.calls('core::sync::atomic::Atomic::store') if flow.mentions(a.arg(s, 0), lambda z: z[0] == 'field' and z[2] == 'got_response') and a.arg(s, 1) == ('const', 1, 'bool')]
    comps = [c for c in a.calls(COMPLETE) if flow.mentions(a.arg(c, 0), lambda z: z[0] == 'field' and z[2] == 'call')]
    for (b, si, e) in readies:
        ctx.check(bool(stores) and a.cfg.must_pass(b, via_blocks=stores), 'R20c', fn, 'got_response.store', a.loc(b, si), 'Poll::Ready is dominated by got_response.store(true)',
                  'the owner can report Ready without marking got_response: its drop handler then overwrites the result with OwnerPanicked')
        ctx.check(bool(comps) and a.cfg.must_pass(b, via_blocks=comps), 'R20c', fn, 'complete', a.loc(b, si), 'Poll::Ready is dominated by Call::complete(res)',
                  'the owner can finish without completing the call: waiters never receive the outcome')
        # same result value
        same = bool(comps) and flow.access_path(a.arg(comps[0], 1)) == flow.access_path(e[3][0][1]) and a.root_call(a.arg(comps[0], 1)) is not None
        if not same and comps:
            # the outcome may be built by an explicit match into a variable: same variable on both sides, every value it
            # can hold derived from the inner future's output
            x, y = a.arg(comps[0], 1), e[3][0][1]
            polls = [p_ for p_ in a.calls('core::future::future::Future::poll')]
            srcs = a.flow.sources(x)
            same = (x == y and x[0] == 'local' and bool(polls) and len(srcs) >= 1
                    and all(flow.mentions(se, lambda z: z[0] == 'field' and z[2] == 'fut') for (_, _, se) in srcs))     # (poll is transparent: the polled future stands for its output)
        ctx.check(same, 'R20c', fn, 'complete.arg', a.loc(comps[0]) if comps else '-', 'the value handed to complete is the value returned in Poll::Ready (%s)' % flow.show(e[3][0][1]))
    # a `?` in poll returns Ready(Err(..)) as well: it must not leave before the outcome was handed to the waiters
    for (b, si, k, e) in a.ret_sites():
        if k == 'err':
            ctx.check(bool(stores) and bool(comps) and a.cfg.must_pass(b, via_blocks=stores) and a.cfg.must_pass(b, via_blocks=comps), 'R20c', fn, 'early Ready', a.loc(b, si),
                      'an early return of the owner task (`?`) comes after got_response.store(true) and Call::complete',
                      'the owner task can return Ready(Err(..)) through `?` before marking got_response and completing the call: its drop handler then tells every waiter OwnerPanicked instead of the task\'s error')
    if stores and comps:
        ctx.check(a.cfg.must_pass(comps[0], via_blocks=stores), 'R20c', fn, 'store<complete', a.loc(comps[0]), 'got_response is set before complete (a panic inside complete cannot double-complete)')
    # drop handler
    d = an(F.body(DROP))
    loads = [l for l in d.calls('core::sync::atomic::Atomic::load') if flow.mentions(d.arg(l, 0), lambda z: z[0] == 'field' and z[2] == 'got_response')]
    comps = d.calls(COMPLETE)
    ok = len(loads) == 1 and len(comps) == 1
    if ctx.check(ok, 'R20c', DROP, 'load/complete', '-', 'drop handler loads got_response and has one complete call'):
        sw = d.cfg.succ[loads[0]][0]
        t = d.blocks[sw]['t']
        true_edges = [(sw, tgt) for v, tgt in t['ts'] if str(v) != '0'] if t['k'] == 'switch' else []
        if t['k'] == 'switch' and t['o'] in d.cfg.succ[sw]:
            true_edges.append((sw, t['o']))
        e = d.flow.expr(t['d']) if t['k'] == 'switch' else ('top',)
        direct = d.rooted_at(e, loads[0]) and not (e[0] == 'un')
        # every return passes the true edge of the load or the complete call
        okp = direct and all(d.cfg.must_pass(r, via_blocks=comps, via_edges=true_edges) for r in d.cfg.returns)
        ctx.check(okp, 'R20c', DROP, 'complete-on-false', d.loc(comps[0]), 'on the got_response == false edge the drop handler completes the call',
                  'the drop handler can return on the not-completed edge without completing the call: a panicking task leaves its waiters hanging')
        arg = d.arg(comps[0], 1)
        ctx.check(arg[0] == 'agg' and arg[2].endswith('Result::Err') and flow.mentions(arg, lambda z: z[0] == 'agg' and z[2].endswith('SingleflightError::OwnerPanicked')), 'R20c', DROP, 'complete.arg', d.loc(comps[0]),
                  'the drop handler reports Err(OwnerPanicked)')
    # the drop glue calls the pinned drop
    dg = an(F.body('utils::singleflight::_::<impl core::ops::drop::Drop for utils::singleflight::OwnerTask<T, E, F>>::drop'))
    ctx.check(bool(dg.calls('pin_project::__private::PinnedDrop::drop')), 'R20c', dg.path, 'PinnedDrop', '-', 'OwnerTask\'s Drop impl invokes the pinned drop handler')


def r20d(ctx):
    F = ctx.F
    a = an(F.body(WORK))
    fn = WORK
    gocs = a.calls(M + 'Group::<T, E>::get_call_or_create')
    if not ctx.check(len(gocs) == 1 and a.awaited(gocs[0]) is not None, 'R20d', fn, 'get_call_or_create', '-', 'work awaits get_call_or_create once'):
        return
    goc = gocs[0]
    # switch on `created`
    sws = a.switches_on(lambda e: e[0] == 'field' and e[2] == '1' and a.rooted_at(e, goc))
    if not ctx.check(len(sws) == 1, 'R20d', fn, 'created', '-', 'one branch on the `created` flag returned by get_call_or_create'):
        return
    sb, _, st = sws[0]
    false_edges = [(sb, tgt) for v, tgt in st['ts'] if str(v) == '0']
    true_edges = [(sb, s) for s in a.cfg.succ[sb] if (sb, s) not in false_edges]
    spawns = a.calls('tokio::runtime::handle::Handle::spawn')
    news = a.calls(M + 'OwnerTask::<T, E, F>::new')
    gfs = a.calls(GETF)
    ctx.check(len(spawns) == 1 and len(news) == 1 and len(gfs) == 1, 'R20d', fn, 'sites', '-', 'one spawn, one OwnerTask::new, one get_future')
    if not (spawns and news and gfs):
        return
    sp, nw, gf = spawns[0], news[0], gfs[0]
    ctx.check(a.cfg.must_pass(sp, via_edges=true_edges) and a.cfg.must_pass(nw, via_edges=true_edges), 'R20d', fn, 'spawn.created', a.loc(sp), 'the owner task is built and spawned only on the created edge',
              'a task can be spawned for a call this caller did not create: two tasks run for one flight')
    ctx.check(a.rooted_at(a.arg(sp, 1), nw), 'R20d', fn, 'spawn.arg', a.loc(sp), 'what is spawned is the OwnerTask')
    call0 = a.arg(nw, 1)
    ctx.check(a.rooted_at(call0, goc) and flow.show(call0).endswith('.0'), 'R20d', fn, 'OwnerTask.call', a.loc(nw), 'the OwnerTask completes the call returned by get_call_or_create')
    ctx.check(flow.mentions(a.arg(nw, 0), lambda z: z[0] == 'upvar' and z[1] == 'fut'), 'R20d', fn, 'OwnerTask.fut', a.loc(nw), 'the OwnerTask runs the caller\'s future')
    ctx.check(a.cfg.must_pass(sp, via_blocks=[gf]) and a.rooted_at(a.arg(gf, 0), goc), 'R20d', fn, 'get_future<spawn', a.loc(gf), 'get_future on the same call precedes the spawn (the owner\'s own registration cannot be missed)',
              'the task is spawned before this caller registered for the result')
    # creator: remove_call awaited on every path from spawn to return
    rms = [r for r in a.calls(M + 'Group::<T, E>::remove_call') if a.awaited(r) is not None]
    polls = [a.awaited(r) for r in rms]
    rets = set(a.cfg.returns)
    cut = []
    for p in polls:
        cut += a.cfg.out_edges(p)
    leak = a.cfg.reach_after([sp], cut_edges=cut) & rets
    ctx.check(bool(rms) and not leak, 'R20d', fn, 'remove_call', a.loc(rms[0]) if rms else a.loc(sp), 'on the created edge every path to return awaits remove_call (the next call with this key starts a new flight)',
              'the creating caller can return without removing the call from the map: later calls with this key join a finished flight forever')
    for r in rms:
        ctx.check(flow.mentions(a.arg(r, 1), lambda z: z[0] == 'upvar' and z[1] == 'key'), 'R20d', fn, 'remove_call.key', a.loc(r), 'remove_call uses the flight\'s key')
    # the join awaits both the handle and the waiter future before remove_call
    # non-creator: waiter future awaited
    wp = [p for p in a.calls('core::future::future::Future::poll') if a.rooted_at(a.arg(p, 0), gf)]
    cutw = []
    for p in wp:
        cutw += a.cfg.out_edges(p)
    starts = [t for (_, t) in false_edges]
    leak = a.cfg.reach(starts, cut_edges=cutw) & rets
    ctx.check(bool(wp) and not leak, 'R20d', fn, 'waiter.await', a.loc(wp[0]) if wp else '-', 'a non-creating caller awaits the future obtained from get_future on every path')
    # get_call_or_create
    g = an(F.body(GOC))
    gfn = GOC
    rs = [(b, si, e) for (b, si, k, e) in g.ret_sites()]
    ins = [i for i in g.calls('std::collections::hash::map::HashMap::insert')]
    lockg = [x for x in locks.guards(g, ('tokio::sync::mutex::MutexGuard<',))]
    ctx.check(len(lockg) == 1 and flow.mentions(g.flow.local(lockg[0].local), lambda z: z[0] == 'field' and z[2] == 'call_map'), 'R20d', gfn, 'call_map guard', '-', 'get_call_or_create holds the call_map mutex')
    for (b, si, e) in rs:
        if e[0] != 'agg' or len(e[3]) != 2:
            ctx.fail('R20d', gfn, 'ret', g.loc(b, si), 'cannot establish the shape of the returned pair')
            continue
        flag = e[3][1][1]
        if flag == ('const', 1, 'bool'):
            ok = bool(ins) and g.cfg.must_pass(b, via_blocks=ins)
            ctx.check(ok, 'R20d', gfn, 'created=true', g.loc(b, si), '(_, true) is returned only after inserting the new call into the map',
                      '(_, true) returned without inserting: two callers can both believe they created the flight')
            if ins:
                newc = g.arg(ins[0], 2)
                ctx.check(g.root_call(newc) is not None and g.root_call(e[3][0][1]) is not None and g.root_call(newc)[3] == g.root_call(e[3][0][1])[3], 'R20d', gfn, 'same call', g.loc(b, si),
                          'the returned call is (a clone of) the inserted one')
                ctx.check(lockg and lockg[0].holds_at(ins[0]) and a is not None, 'R20d', gfn, 'insert.in_guard', g.loc(ins[0]), 'the insert happens under the call_map guard that also covered the lookup')
        elif flag == ('const', 0, 'bool'):
            c = g.root_call(e[3][0][1])
            ctx.check(c is not None and sg(c[1]).endswith('HashMap::get'), 'R20d', gfn, 'created=false', g.loc(b, si), '(c, false) returns the call found in the map')
        else:
            ctx.fail('R20d', gfn, 'ret.flag', g.loc(b, si), 'created flag is not a literal: cannot establish')
    if ins:
        # an entry that is present is never replaced: the insert is reached only on the absent (None) edge of the lookup
        gets0 = g.calls('std::collections::hash::map::HashMap::get')
        none_e = []
        for x in gets0:
            ve = g.variant_edges(x, 'core::option::Option<')
            none_e += ve.get('0', []) + (ve.get('otherwise', []) if '0' not in ve else [])
        for i_ in ins:
            ctx.check(bool(none_e) and g.cfg.must_pass(i_, via_edges=none_e), 'R20d', gfn, 'insert.only-if-absent', g.loc(i_), 'a new call is inserted only on the key-absent edge of the lookup (an existing flight is never replaced)',
                      'get_call_or_create can replace a call that is still in the map: its owner later removes the newcomer\'s entry, and a third caller starts a second concurrent task for the key')
    if lockg and ins:
        gets = g.calls('std::collections::hash::map::HashMap::get')
        ctx.check(bool(gets) and all(lockg[0].holds_at(x) for x in gets), 'R20d', gfn, 'get.in_guard', g.loc(gets[0]) if gets else '-', 'lookup and insert are in one live range of the guard (check-then-insert is atomic)')
    # remove_call under the mutex
    r = an(F.body(RMC))
    lg = locks.guards(r, ('tokio::sync::mutex::MutexGuard<',))
    rm = r.calls('std::collections::hash::map::HashMap::remove')
    ctx.check(len(lg) == 1 and len(rm) == 1 and lg[0].holds_at(rm[0]), 'R20d', RMC, 'remove.in_guard', r.loc(rm[0]) if rm else '-', 'remove_call removes under the call_map guard')
    adt = F.adt('utils::singleflight::Group')
    fty = [f['ty'] for f in adt['variants'][0]['fields'] if f['n'] == 'call_map']
    ctx.check(bool(fty) and 'tokio::sync::mutex::Mutex<' in fty[0], 'R20d', 'utils::singleflight::Group', 'call_map type', '-', 'call_map is only reachable through a tokio Mutex (type fact): %s' % (fty and fty[0][:80]))


def r20e(ctx):
    F = ctx.F
    n = 0
    ng = 0
    for p, b in F.bodies.items():
        if b['crate'] != 'utils' or 'singleflight::' not in p or '::tests::' in p:
            continue
        a = an(b)
        n += 1
        ys = [x for x in a.cfg.reach0 if a.blocks[x]['t']['k'] == 'yield']
        for g in locks.guards(a, locks.SYNC_GUARDS):
            ng += 1
            bad = [y for y in ys if y in g.live]
            ctx.check(not bad, 'R20e', p, 'guard@yield', a.loc(g.acq[0]), 'synchronous guard _%d (%s) is not live at any yield' % (g.local, g.ty[:50]),
                      'synchronous guard held across an await at line %s: the executor thread can deadlock against complete()' % [a.line(y) for y in bad])
    ctx.floor('R20e', 'synchronous guards examined in utils::singleflight', ng, 3)
    ctx.ok('R20e', 'utils::singleflight', '-', '%d bodies scanned, %d synchronous guards' % (n, ng))
