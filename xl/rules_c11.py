"""C11 — data uploaded once is deduplicated by every later session (first sentence only; DESIGN.md §5 C11)."""
from .core import an, edges_where, propagation
from . import flow
from . import rules_c16 as c16

EXPLANATION = (
    'Decides the first sentence of C11 structurally: (R11a) UploadClient::put has a single trigger, register_new_xorb_for_upload, with two callers; '
    '(R11b) on every path to each of those call sites the chunk list of the very xorb being uploaded (x.cas_info) was handed to '
    'SessionShardInterface::add_cas_block, except along edges where the xorb is empty; (R11c) in the shard upload task the success of upload_shard '
    'dominates the export into the cache directory and the registration in the cache shard manager, which both precede the task\'s Ok. '
    'Not decided: that a later lookup then succeeds (C05/C09 value-level parts), hence not the numeric "no new bytes" consequence.')

REG = c16.REG
MGR = 'mdb_shard::shard_file_manager::ShardFileManager::'
FLUSH = MGR + 'flush::{closure#0}'
NEWIMPL = MGR + 'new_impl::{closure#0}'
ADD = 'data::shard_interface::SessionShardInterface::add_cas_block'


def run(ctx):
    ctx.rule('R11a', 'UploadClient::put is triggered only through register_new_xorb_for_upload, which has exactly two (crate-private) callers')
    ctx.rule('R11b', 'every path to a register_new_xorb_for_upload(x) call passes add_cas_block(x.cas_info) unless the xorb is empty')
    ctx.rule('R11c', 'after a successful upload_shard the shard is exported to the cache directory and registered in the cache shard manager before the task returns Ok; flush precedes consolidation')
    ctx.guarded('R11a', 'who-may-call', lambda: c16.r16a(_Alias(ctx, 'R16a', 'R11a')))
    ctx.guarded('R11b', REG, lambda: r11b(ctx))
    ctx.guarded('R11c', 'shard upload task', lambda: r11c(ctx))
    ctx.rule('R11d', 'the session shard manager resets its in-memory shard only in flush, inside the same write-guard live range in which that shard was written to disk successfully; add_cas_block records into it under the write guard')
    ctx.guarded('R11d', FLUSH, lambda: r11d(ctx))
    ctx.rule('R11e', 'ShardFileManager::new_impl hands out a manager (cached or new) only after a successful rescan of its shard directory (refresh_shard_dir): shards that another session or process exported into the shared cache since are found')
    ctx.guarded('R11e', NEWIMPL, lambda: r11e(ctx))
    ctx.rule('R11f', 'the chunk index built when shards are registered leaves a chunk out only because a value it must narrow does not fit: every skip guard in the indexing loop tests the value stored into a narrower field of the index element')
    ctx.guarded('R11f', 'mdb_shard::shard_file_manager::ShardFileManager::register_shards', lambda: r11f(ctx))


class _Alias:
    """re-run a sibling property's rule under this property's rule id"""

    def __init__(self, ctx, frm, to):
        self._c, self._f, self._t = ctx, frm, to

    def __getattr__(self, n):
        return getattr(self._c, n)

    def ok(self, rule, *a, **k):
        return self._c.ok(self._t if rule == self._f else rule, *a, **k)

    def fail(self, rule, *a, **k):
        return self._c.fail(self._t if rule == self._f else rule, *a, **k)

    def check(self, cond, rule, *a, **k):
        return self._c.check(cond, self._t if rule == self._f else rule, *a, **k)

    def floor(self, rule, *a, **k):
        return self._c.floor(self._t if rule == self._f else rule, *a, **k)


def same_root(x, y):
    """two expressions denote the same variable/parameter/call result"""
    return flow.access_path(x) is not None and flow.access_path(x) == flow.access_path(y) and x[0] == y[0] and (x[0] != 'local' or x[1] == y[1])


def _records_on_all_paths(a, x, target_blocks, ctx=None, depth=0):
    """(recording blocks, bypass edges, ok): in analysis `a`, does every path to each of `target_blocks` pass a site that
    hands x.cas_info to add_cas_block (directly, or through an awaited same-crate helper that does so for its
    parameter on all of its successful paths; one level), except along edges where x is empty?"""
    adds = []
    for ab in a.calls(ADD):
        arg = a.arg(ab, 1)
        # argument must be (a clone of) x.cas_info
        if arg[0] == 'field' and arg[2] == 'cas_info' and same_root(arg[1], x) and a.awaited(ab) is not None:
            adds.append(ab)
    if ctx is not None and depth == 0:
        from .core import strip_generics
        for cb in a.calls():
            t = a.term(cb)
            q = ctx.cg.norm.get(strip_generics(t.get('res') or t.get('fn') or ''))
            hb = ctx.F.bodies.get((q or '') + '::{closure#0}')
            ho = ctx.F.bodies.get(q or '')
            if hb is None or ho is None or hb['crate'] != 'data' or a.awaited(cb) is None or q.endswith('register_new_xorb_for_upload'):
                continue
            # which argument is x?
            for i_, o in enumerate(t['args']):
                if not same_root(a.flow.expr(o), x):
                    continue
                pname = ho['locals'][i_ + 1].get('n') if i_ + 1 < len(ho['locals']) else None
                if not pname:
                    continue
                ah = an(hb)
                oks = [b for (b, si, k, e) in ah.ret_sites() if k != 'err']
                _, _, good = _records_on_all_paths(ah, ('upvar', pname), oks, None, 1)
                if good and oks:
                    adds.append(cb)

    # bypass: edges on which x.num_bytes() == 0
    def empty_holds(op, l, r):
        if op != 'Eq':
            return False
        if l[0] == 'call' and l[1].endswith('RawXorbData::num_bytes') and same_root(l[2][0], x) and r[0] == 'const' and r[1] == 0:
            return True
        return False
    bypass = edges_where(a, empty_holds)
    ok = bool(adds) and all(a.cfg.must_pass(tb, via_blocks=adds, also_cut_edges=bypass) for tb in target_blocks)
    return adds, bypass, ok


def r11b(ctx):
    sites = ctx.cg.call_sites('FileUploadSession::register_new_xorb_for_upload')
    ctx.floor('R11b', 'call sites of register_new_xorb_for_upload', len(sites), 2)
    for b, cb in sites:
        a = an(b)
        if cb not in a.cfg.reach0:
            continue
        fn = b['qpath']
        x = a.arg(cb, 1)  # the xorb
        adds, bypass, ok = _records_on_all_paths(a, x, [cb], ctx)
        p = None
        if not ok:
            cut = set(bypass)
            for ab in adds:
                cut.update(a.cfg.out_edges(ab))
            p = a.cfg.path(0, cb, cut_edges=cut)
        ctx.check(ok, 'R11b', fn, 'register_new_xorb_for_upload', a.loc(cb),
                  'every path to this upload registration passes add_cas_block(%s.cas_info), directly or in an awaited helper (%d site(s), lines %s%s)' % (
                      flow.show(x), len(adds), [a.line(x_) for x_ in adds], '; empty-xorb bypass edges: %d' % len(bypass) if bypass else ''),
                  'xorb %s is handed to the uploader on a path that never records its chunk list in the session shard: a later session cannot deduplicate against it' % flow.show(x),
                  path=p and sorted({a.line(q) for q in p}))


def r11c(ctx):
    F = ctx.F
    fn = c16.shard_task(ctx).path
    a = an(F.body(fn))
    ups = a.calls(c16.UPLOAD_SHARD)
    if not ctx.check(len(ups) == 1, 'R11c', fn, 'upload_shard', '-', 'one upload_shard call in the shard task'):
        return
    u = ups[0]
    # success edges of upload_shard: the Continue edge of its `?` or the Ok edge of an explicit match on its result
    from .core import success_edges
    succ_edges = success_edges(a, u)
    exps = a.calls('mdb_shard::shard_file_handle::MDBShardFile::export_with_expiration')
    regs = a.calls('mdb_shard::shard_file_manager::ShardFileManager::register_shards')
    ctx.check(len(exps) == 1 and len(regs) == 1, 'R11c', fn, 'export/register', '-', 'export_with_expiration and register_shards are each called once in the shard task')
    for nm, lst in (('export_with_expiration', exps), ('register_shards', regs)):
        for e in lst:
            ctx.check(bool(succ_edges) and a.cfg.must_pass(e, via_edges=succ_edges), 'R11c', fn, nm, a.loc(e),
                      '%s is dominated by the success edge of upload_shard' % nm,
                      '%s reachable without a successful upload_shard' % nm)
    # export's result feeds register_shards; destination is the cache manager's directory
    if exps and regs:
        e = exps[0]
        dst = a.arg(e, 1)
        # name-agnostic: the directory comes from the same manager that registers the shard, and that manager is the
        # session's cache_shard_manager as captured where the task is spawned
        st = c16.shard_task(ctx)
        au = an(F.body(c16.UPLC))
        sps = [s_ for s_ in au.calls('tokio::task::join_set::JoinSet::spawn') if st.spawned_in(au, s_)]
        dirs = [x for x in flow.subtrees(dst) if x[0] == 'call' and x[1].endswith('ShardFileManager::shard_directory')]
        recv_reg = a.arg(regs[0], 0)

        def is_cache_mgr(node):
            if not sps:
                return False
            refs = [z for z in flow.subtrees(node) if (z[0] == 'upvar' and z[1] != 'self') or (z[0] == 'field' and z[1] == ('upvar', 'self'))]
            if len(refs) != 1:
                return False
            cap = st.capture_of(ctx, au, sps[0], refs[0])
            return cap is not None and flow.mentions(cap, lambda y: y[0] == 'field' and y[2] == 'cache_shard_manager')
        ctx.check(len(dirs) == 1 and is_cache_mgr(dirs[0][2][0]),
                  'R11c', fn, 'export_with_expiration.dest', a.loc(e), 'the shard is exported into cache_shard_manager.shard_directory()')
        rarg = a.arg(regs[0], 1)
        ctx.check(flow.mentions(rarg, lambda x: a.rooted_at(x, e)) and is_cache_mgr(recv_reg),
                  'R11c', fn, 'register_shards.arg', a.loc(regs[0]), 'cache_shard_manager.register_shards receives the exported shard')
        for nm, s in (('export_with_expiration', e), ('register_shards', regs[0])):
            if nm == 'register_shards' and a.awaited(s) is None:
                ctx.fail('R11c', fn, nm, a.loc(s), 'register_shards future is not awaited')
                continue
            ok, d = propagation(a, s)
            ctx.check(ok, 'R11c', fn, nm + '?', a.loc(s), '%s failure fails the task: %s' % (nm, d))
    # every Ok(()) of the task other than the dry-run early return is dominated by register_shards
    oks = [(b, si) for (b, si, k, e) in a.ret_sites() if k != 'err']
    st_ = c16.shard_task(ctx)
    au_ = an(F.body(c16.UPLC))
    sps_ = [s_ for s_ in au_.calls('tokio::task::join_set::JoinSet::spawn') if st_.spawned_in(au_, s_)]

    def is_dry(e):
        # the task's copy of the session's dry_run flag, whatever it is called in the task
        if e[0] == 'upvar' and e[1] != 'self' or (e[0] == 'field' and e[1] == ('upvar', 'self')):
            cap = st_.capture_of(ctx, au_, sps_[0], e) if sps_ else None
            return cap is not None and flow.mentions(cap, lambda y: y[0] == 'field' and y[2] == 'dry_run')
        return False
    dry_edges = []
    for b in sorted(a.cfg.reach0):
        t = a.blocks[b]['t']
        if t['k'] == 'switch':
            e = a.flow.expr(t['d'])
            if is_dry(e):
                dry_edges += [(b, tgt) for v, tgt in t['ts'] if str(v) != '0'] + ([(b, t['o'])] if t['o'] in a.cfg.succ[b] and all(str(v) == '0' for v, _ in t['ts']) else [])
    n = 0
    for (b, si) in oks:
        if regs and a.cfg.must_pass(b, via_blocks=regs, also_cut_edges=dry_edges):
            n += 1
        else:
            # a return only reachable through the dry-run edge is the enumerated bypass
            if b not in a.cfg.reach([0], cut_edges=dry_edges):
                ctx.ok('R11c', fn, a.loc(b, si), 'Ok(()) on the dry-run edge only (nothing uploaded, nothing to register)')
                continue
            ctx.fail('R11c', fn, 'Ok', a.loc(b, si), 'the task can return Ok(()) on the non-dry-run path without registering the uploaded shard in the cache')
    ctx.check(n >= 1, 'R11c', fn, 'Ok', '-', '%d Ok(()) return(s) dominated by register_shards' % n)
    # flush dominates consolidate in the parent
    ap = an(F.body(c16.UPLC))
    fl = [x for x in ap.calls('mdb_shard::shard_file_manager::ShardFileManager::flush') if ap.awaited(x) is not None]
    cons = ap.calls('mdb_shard::session_directory::consolidate_shards_in_directory')
    ctx.check(bool(fl) and bool(cons) and all(ap.cfg.must_pass(c, via_blocks=fl) for c in cons), 'R11c', c16.UPLC, 'flush', ap.loc(cons[0]) if cons else '-',
              'session shard flush (awaited) dominates consolidate_shards_in_directory')
    c16.shard_upload_no_shortcut(ctx, 'R11c')


def stores_through(a, guard):
    """[(block, si, rvalue expr)] whole-value stores `*g = v` through the guard (via deref_mut)"""
    out = []
    rc = a.root_call(a.flow.local(guard.local))
    for b in sorted(a.cfg.reach0):
        for si, st in enumerate(a.blocks[b]['s']):
            d = st.get('d')
            if d and d.get('p') == ['*']:
                tgt = a.flow.local(d['l'])
                r2 = a.root_call(tgt)
                if rc is not None and r2 is not None and r2[3] == rc[3] and tgt[0] == 'call':
                    out.append((b, si, a.flow.rvalue(st['r'], 0)))
    return out


def r11d(ctx):
    from . import locks
    from .core import success_edges, strip_generics as sg
    F = ctx.F
    a = an(F.body(FLUSH))
    fn = FLUSH
    wg = [g for g in locks.guards(a, ('tokio::sync::rwlock::write_guard::RwLockWriteGuard<',)) if flow.mentions(a.flow.local(g.local), lambda z: z[0] == 'field' and z[2] == 'current_state')]
    if not ctx.check(len(wg) >= 1, 'R11d', fn, 'write guard', '-', 'flush takes the write guard of current_state',
                     'flush no longer takes the write guard of the in-memory shard: cannot establish that write-out and reset are atomic'):
        return
    resets = []
    for g in wg:
        for (b, si, e) in stores_through(a, g):
            resets.append((g, b, si, e))
    ctx.check(len(resets) == 1, 'R11d', fn, 'reset', '-', 'exactly one whole-value store into the in-memory shard in flush', 'found %d whole-value stores into the in-memory shard' % len(resets))
    wds = a.calls('mdb_shard::shard_in_memory::MDBInMemoryShard::write_to_directory')
    for (g, b, si, e) in resets:
        grc = a.root_call(a.flow.local(g.local))
        same = [w for w in wds if a.root_call(a.arg(w, 0)) is not None and a.root_call(a.arg(w, 0))[3] == grc[3]]
        ok = bool(same) and all(g.holds_at(w) for w in same) and g.holds_at(b)
        ctx.check(ok, 'R11d', fn, 'one region', a.loc(b, si), 'the shard is written to disk through the same write guard value that is live at the reset (no add can slip between write-out and reset)',
                  'the in-memory shard is reset outside the lock region in which it was written out: blocks added in between are wiped without ever reaching a shard file')
        se = []
        for w in same:
            se += success_edges(a, w)
        ctx.check(bool(se) and a.cfg.must_pass(b, via_edges=se), 'R11d', fn, 'write<reset', a.loc(b, si), 'the reset is dominated by the success edge of write_to_directory',
                  'the in-memory shard can be reset without having been written to disk successfully')
        ctx.check(e[0] == 'call' and sg(e[1]).endswith('Default>::default') or (e[0] == 'call' and 'default' in sg(e[1])), 'R11d', fn, 'reset.value', a.loc(b, si), 'the value stored is a fresh default shard')
    # the written shard is then registered in the manager's catalogue
    regs = [r for r in a.calls(MGR + 'register_shards') if a.awaited(r) is not None]
    ctx.check(bool(regs) and bool(wds) and flow.mentions(a.arg(regs[0], 1), lambda z: z[0] == 'call' and sg(z[1]).endswith('MDBShardFile::load_from_file')), 'R11d', fn, 'register', a.loc(regs[0]) if regs else '-',
              'the flushed shard file is loaded and registered in the catalogue')
    # nobody else replaces / clears the in-memory shard
    others = []
    for p, b in F.bodies.items():
        if b['crate'] != 'mdb_shard' or 'shard_file_manager' not in p or '::tests::' in p or p == FLUSH:
            continue
        ab = an(b)
        for g in locks.guards(ab, ('tokio::sync::rwlock::write_guard::RwLockWriteGuard<',)):
            if flow.mentions(ab.flow.local(g.local), lambda z: z[0] == 'field' and z[2] == 'current_state'):
                if stores_through(ab, g):
                    others.append(p)
                for c in ab.calls('core::mem::take') + ab.calls('core::mem::replace') + ab.calls('core::mem::swap'):
                    if ab.root_call(ab.arg(c, 0)) is not None and ab.root_call(ab.arg(c, 0))[3] == ab.root_call(ab.flow.local(g.local))[3]:
                        others.append(p)
    ctx.check(not others, 'R11d', 'mdb_shard::shard_file_manager', 'resetters', '-', 'no other function of the manager replaces the in-memory shard', 'in-memory shard replaced in %s' % sorted(set(others)))
    # add_cas_block records under the write guard
    ab = an(F.body(MGR + 'add_cas_block::{closure#0}'))
    gs = [g for g in locks.guards(ab, ('tokio::sync::rwlock::write_guard::RwLockWriteGuard<',)) if flow.mentions(ab.flow.local(g.local), lambda z: z[0] == 'field' and z[2] == 'current_state')]
    adds = ab.calls('mdb_shard::shard_in_memory::MDBInMemoryShard::add_cas_block')
    ok = len(gs) == 1 and len(adds) == 1 and gs[0].holds_at(adds[0]) and ab.arg(adds[0], 1)[0] in ('upvar', 'param') and all(ab.cfg.must_pass(r, via_blocks=adds) for (r, si, k, e) in ab.ret_sites() if k != 'err')
    ctx.check(ok, 'R11d', MGR + 'add_cas_block', 'add', ab.loc(adds[0]) if adds else '-', 'ShardFileManager::add_cas_block hands its argument to the in-memory shard under the write guard on every successful path')
    if adds:
        okp, d = propagation(ab, adds[0])
        ctx.check(okp, 'R11d', MGR + 'add_cas_block', 'add?', ab.loc(adds[0]), 'in-memory add errors propagate: ' + d)
    fl = [f for f in ab.calls(MGR + 'flush')]
    for f in fl:
        ctx.check(ab.awaited(f) is not None and not gs[0].holds_at(f) and f not in gs[0].live, 'R11d', MGR + 'add_cas_block', 'flush.outside', ab.loc(f), 'the size-triggered flush runs after the guard was released (no self-deadlock) and is awaited')
        okp, d = propagation(ab, f)
        ctx.check(okp, 'R11d', MGR + 'add_cas_block', 'flush?', ab.loc(f), 'flush errors propagate: ' + d)


def r11e(ctx):
    """C11c: the manager cache (one manager per directory and process) is only useful for a *later* session if the
    directory is rescanned whenever the manager is handed out."""
    from .core import success_edges
    a = an(ctx.F.body(NEWIMPL))
    fn = NEWIMPL
    refs = [r for r in a.calls(MGR + 'refresh_shard_dir') if a.awaited(r) is not None]
    if not ctx.check(len(refs) >= 1, 'R11e', fn, 'refresh sites', '-', '%d awaited refresh_shard_dir call(s)' % len(refs), 'new_impl never rescans the shard directory'):
        return
    se = []
    for r in refs:
        se += success_edges(a, r)
    oks = [(b, si) for (b, si, k, e) in a.ret_sites() if k == 'ok']
    ctx.check(len(oks) >= 1, 'R11e', fn, 'Ok returns', '-', '%d Ok return(s)' % len(oks))
    for (b, si) in oks:
        ctx.check(bool(se) and a.cfg.must_pass(b, via_edges=se), 'R11e', fn, 'refresh<Ok', a.loc(b, si), 'the manager is returned only after refresh_shard_dir succeeded on this call',
                  'a manager can be returned without rescanning its shard directory: shards exported into the shared cache by another session/process since the manager was cached are never found')


def r11f(ctx):
    """C11e: `if cas_start_index > u16::MAX { continue }` in place of `cas_chunk_offset`: every chunk of a xorb whose record
    starts past entry 65535 of a big session shard is never indexed, and a later session cannot find it.
    The indexing loop of register_shards may skip a chunk only on a comparison of the very value that is stored into a field
    of the index element that is narrower than its source (the u16 fields of ChunkCacheElement)."""
    from .core import edges_where, cond_edges, strip_generics as sg
    F = ctx.F
    RS = 'mdb_shard::shard_file_manager::ShardFileManager::register_shards::{closure#0}'
    a = an(F.body(RS))
    fn = RS
    ins = [c for c in a.calls() if sg(a.term(c).get('fn', '')).split('::')[-1] == 'insert' and len(a.term(c)['args']) == 3
           and a.arg(c, 2)[0] == 'agg' and a.arg(c, 2)[2].endswith('ChunkCacheElement')]
    if not ins:
        # the index may be filled by an iterator pipeline (filter/map/extend); that form is not analysed — reported as information, not as a violation
        ctx.info('R11f', fn, '-', 'information: no direct insertion of a ChunkCacheElement in register_shards (iterator pipeline?); the skip-guard obligation is not evaluated on this shape')
        return
    if not ctx.check(len(ins) == 1, 'R11f', fn, 'index insert', '-', 'one insertion of a ChunkCacheElement into the chunk lookup', 'expected one ChunkCacheElement insertion, found %d' % len(ins)):
        return
    I = ins[0]
    adt = F.adts.get('mdb_shard::shard_file_manager::ChunkCacheElement')
    ftypes = {f['n']: f['ty'] for f in adt['variants'][0]['fields']} if adt else {}
    stored = dict(a.arg(I, 2)[3])
    def strip(e):
        while e[0] == 'cast':
            e = e[1]
        return e
    narrow = {n: strip(e) for n, e in stored.items() if ftypes.get(n) in ('u16', 'u8')}
    lps = [l for l in a.cfg.loops().items() if I in l[1]]
    if not ctx.check(bool(lps) and bool(narrow), 'R11f', fn, 'indexing loop', a.loc(I), 'the insertion runs in the indexing loop; %d narrow field(s) of the element' % len(narrow)):
        return
    lp = min(lps, key=lambda l: len(l[1]))
    latches = [(x, lp[0]) for x in lp[1] if lp[0] in a.cfg.succ[x]]
    outside = [b_ for b_ in a.cfg.reach0 if b_ not in lp[1]]
    # edges inside the loop from which the latch is reachable without passing the insert: skip edges
    n_guard = 0
    for b in sorted(lp[1]):
        ce = cond_edges(a, b)
        if not ce:
            continue
        op, l, r, te, fe = ce
        for edges in (te, fe):
            for (x, y) in edges:
                if y not in lp[1]:
                    continue
                r_ = a.cfg.reach([y], cut_blocks=[I] + outside, cut_edges=set(latches))
                skips = any(lx in r_ or lx == y for (lx, _) in latches) and I not in r_
                other = [e2 for e2 in (te if edges is fe else fe)]
                takes = any(y2 in lp[1] and (I in a.cfg.reach([y2], cut_blocks=outside, cut_edges=set(latches)) or y2 == I) for (_, y2) in other)
                if not (skips and takes):
                    continue
                n_guard += 1
                ops = [strip(l), strip(r)]
                val = [o for o in ops if o[0] != 'const']
                ok = len(val) == 1 and any(flow.eqv(val[0], v) or val[0] == v for v in narrow.values())
                ctx.check(ok, 'R11f', fn, 'skip guard', a.loc(b), 'a chunk is skipped only on a test of the value that is narrowed into the index element (%s)' % flow.show(val[0])[-40:] if val else '?',
                          'the indexing loop skips a chunk on a test of %s, which is not a value the index element stores in a narrower field (%s): chunks are left out of the dedup index for no representational reason and later sessions re-upload them'
                          % (flow.show(val[0])[-60:] if val else '?', ', '.join(sorted(narrow))))
    if n_guard == 0:
        ctx.info('R11f', fn, a.loc(I), 'information: no comparison in the indexing loop skips the insertion (a narrowing by try_from, or no skip at all)')
