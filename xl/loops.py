"""Recognising "one pass over a whole sequence" loops, whatever their spelling.

whole_pass(a, lp, is_seq) decides whether the natural loop lp = (head, blocks) of analysis `a` visits every element of
a sequence (an expression for which is_seq(expr) holds: usually a slice parameter) exactly once, front to back, and
can be left (other than through an error return) only when the sequence is exhausted.  Two spellings are recognised:

  iterator   `for x in seq` / `for x in seq.iter()` / `while let Some(x) = it.next()`: one Iterator::next at the
             loop's own level on an iterator all of whose sources are seq / seq.iter() / seq.into_iter(); the only
             non-error exits are the None edges of that call.  The element is the iterator local itself (next and
             the Some payload are transparent in expression trees).
  index      `let mut i = 0; while i < seq.len() { .. seq[i] ..; i += 1 }` (also `loop { if i >= n { break } .. }`
             with n = seq.len()): a counter with one definition outside the loop (the constant 0) and one additive
             update by 1 inside it that every iteration passes; the only non-error exits are the edges on which
             counter >= len(seq).  The element is seq[counter].

Returns None or a dict(kind, elem=predicate(expr) -> bool, elem_expr (iterator form), exhaust=set of edges, counter).
"""
from . import flow
from .core import cond_edges, strip_generics as sg, _NEG, _SWAP
from . import paths


def _loop_of(a, b):
    best = None
    for h, blks in a.cfg.loops().items():
        if b in blks and (best is None or len(blks) < len(best[1])):
            best = (h, blks)
    return best


def _exits(a, blks):
    errb = a.failing_blocks()
    return {(x, y) for x in blks for y in a.cfg.succ[x] if y not in blks and y not in errb and not a.blocks[y].get('cl')}


def _is_len_of(e, is_seq):
    if e[0] == 'len':
        return is_seq(e[1])
    if e[0] == 'call' and sg(e[1]).split('::')[-1] == 'len' and len(e[2]) == 1:
        return is_seq(e[2][0])
    return False


def whole_pass(a, lp, is_seq):
    head, blks = lp
    exits = _exits(a, blks)
    latches = [(x, head) for x in blks if head in a.cfg.succ[x]]
    # -- iterator form
    nx = [c for c in a.calls('core::iter::traits::iterator::Iterator::next') if c in blks and _loop_of(a, c)[0] == head]
    if len(nx) == 1:
        it = a.arg(nx[0], 0)
        srcs = [e_ for (_, _, e_) in a.flow.sources(it)]
        ok = bool(srcs) and all(is_seq(e_) or (e_[0] == 'call' and sg(e_[1]).split('::')[-1] in ('iter', 'into_iter') and len(e_[2]) == 1 and is_seq(e_[2][0])) for e_ in srcs)
        none = set(a.none_edges(a.dest_variant_edges(nx[0])))
        if ok and none and exits <= none:
            return dict(kind='iterator', elem=lambda z, it=it: z == it, elem_expr=it, exhaust=none, counter=None)
    # -- index form
    c = counting_loop(a, lp, lambda y: _is_len_of(y, is_seq))
    if c is not None:
        cnt = c['counter']
        c.update(kind='index', elem=lambda z, cnt=cnt: z[0] == 'index' and is_seq(z[1]) and z[2] == cnt, elem_expr=None)
        return c
    return None


def counting_loop(a, lp, bound_pred, strict=True):
    """`i = 0; while i < BOUND { ..; i += 1 }` in any spelling: a counter with one definition outside the loop (the
    constant 0) and one `+= 1` inside that every iteration passes; the only non-error exits are the edges on which
    counter >= BOUND, where bound_pred(BOUND expr) (with strict=False other exits — early returns — are allowed).  Returns dict(counter, exhaust, incr_block) or None."""
    head, blks = lp
    exits = _exits(a, blks)
    for b in sorted(blks):
        ce = cond_edges(a, b)
        if not ce:
            continue
        op, l, r, te, fe = ce
        for (o, x, y, t_e, f_e) in ((op, l, r, te, fe), (_SWAP[op], r, l, te, fe)):
            # canonical: counter OP bound
            if x[0] != 'local' or not bound_pred(y):
                continue
            if o in ('Lt', 'Ne'):
                stay, leave = t_e, f_e
            elif o in ('Ge', 'Eq'):
                stay, leave = f_e, t_e
            else:
                continue
            leave = set(leave)
            if not leave or (strict and not exits <= leave):
                continue
            i = x[1]
            ds = a.flow.defs.get(i, [])
            outside = [d for d in ds if d[0] == 'assign' and d[1] not in blks]
            inside = [d for d in ds if d[1] in blks]
            if len(outside) != 1 or a.flow.rvalue(outside[0][3], 0)[:2] != ('const', 0) or len(inside) != 1 or inside[0][0] != 'assign':
                continue
            if not a.cfg.must_pass(head, via_blocks=[outside[0][1]]):
                continue
            ib, isi = inside[0][1], inside[0][2]
            u = paths.additive_update(a, a.blocks[ib]['s'][isi])
            if not u or u[1] != 1 or u[2][:2] != ('const', 1):
                continue
            if len([h for h, bb in a.cfg.loops().items() if ib in bb and h in blks]) != 1:
                continue        # the increment sits in an inner loop
            if not every_iteration_passes(a, lp, ib):
                continue
            cnt = ('local', i, a.flow.lname(i))
            return dict(kind='count', counter=cnt, exhaust=leave, incr_block=ib, bound=y)
    return None


def every_iteration_passes(a, lp, block):
    head, blks = lp
    latches = [(x, head) for x in blks if head in a.cfg.succ[x]]
    cut = set(a.cfg.out_edges(block))
    r_ = a.cfg.reach([head], cut_edges=cut | set(latches))
    # a latch edge that can still be taken: its source is reachable and the edge itself is not behind `block`
    return not any(x_ in r_ and (x_, h_) not in cut for (x_, h_) in latches)
