"""Control-flow graph over extracted (promoted) MIR: edge filters, reachability with cuts, dominators, loops.

Conventions (DESIGN.md §4): unwind edges and coroutine-drop edges are excluded (futures are polled to completion,
no panic unwinds); FalseEdge/FalseUnwind contribute only their real target (the extractor already emits them as
gotos to the real target); SwitchInt on an evaluated constant keeps only the taken edge.
A *site* is (block index, statement index) with statement index == len(stmts) for the terminator.
"""
from collections import deque

TERM = 10 ** 6  # statement index used for "the terminator" when comparing positions inside a block


class CFG:
    def __init__(self, body):
        self.body = body
        self.blocks = body['blocks']
        n = len(self.blocks)
        self.n = n
        self.succ = [[] for _ in range(n)]
        for i, blk in enumerate(self.blocks):
            if blk.get('cl'):
                continue
            self.succ[i] = self._succ(i, blk)
        # edges that no execution from the entry can take (the tested local is known to hold another variant on every
        # path that reaches the switch, see _vk_init) are removed from the graph itself, so that dominators, loops and
        # topological orders agree with the path-sensitive reachability
        self._vk = None
        self._vk_init()
        if self._vk[1]:
            taken = self._taken_edges()
            for i in range(n):
                if self.succ[i]:
                    self.succ[i] = [s_ for s_ in self.succ[i] if (i, s_) in taken]
        self.pred = [[] for _ in range(n)]
        for i in range(n):
            for s in self.succ[i]:
                self.pred[s].append(i)
        self.reach0 = self.reach([0])
        self.returns = [i for i in self.reach0 if self.blocks[i]['t']['k'] == 'return']
        self._dom = None
        self._pdom = None

    # -- construction ---------------------------------------------------------------------------
    def _const_of_local(self, blk, local):
        """value of `local` when the block assigns it a scalar constant (last assignment wins)."""
        val = None
        for s in blk['s']:
            d = s.get('d')
            if d and d['l'] == local and 'p' not in d:
                r = s['r']
                if r['k'] == 'use' and 'c' in r['a'] and 'v' in r['a']:
                    val = r['a']['v']
                else:
                    val = None
        return val

    def _succ(self, i, blk):
        t = blk['t']
        k = t['k']
        if k == 'goto':
            return [t['t']]
        if k == 'switch':
            d = t['d']
            v = None
            if 'c' in d and 'v' in d:
                v = d['v']
            elif 'mv' in d or 'cp' in d:
                pl = d.get('mv') or d.get('cp')
                if 'p' not in pl:
                    v = self._const_of_local(blk, pl['l'])
            if v is not None:
                for val, tgt in t['ts']:
                    if str(val) == str(v):
                        return [tgt]
                return [t['o']]
            out = []
            for val, tgt in t['ts']:
                if tgt not in out:
                    out.append(tgt)
            if t['o'] not in out:
                # `otherwise` pointing at an `unreachable` block is not a real edge
                if self.blocks[t['o']]['t']['k'] != 'unreachable' or self.blocks[t['o']]['s']:
                    out.append(t['o'])
            return out
        if k in ('call', 'drop', 'assert', 'yield'):
            return [t['t']] if 't' in t else []
        return []

    # -- variant knowledge (path sensitivity for reachability) -----------------------------------
    def _vk_init(self):
        """Per block, the effect on what is known about enum variants / boolean flags held in plain locals.

        A local that is assigned an enum-variant aggregate (`x = Some(..)`, `_0 = Ok(..)`), a boolean constant, the
        failing arm of a `?` (`from_residual`: the Err / None of the function's return type), a copy of such a local,
        its discriminant, or its `Try::branch` carries its discriminant value along the path; a SwitchInt on such a
        local lets a path continue only to the successor its value selects.  This removes the infeasible paths that a
        decision recorded in a variable and tested later would otherwise create (`let r = if c { Ok(v) } else
        { Err(e) }; r?`, an inlined helper that returns a Result which the caller checks with `?`, a `found` flag).
        Locals whose address is taken mutably, or that are assigned through a projection, are not tracked."""
        if getattr(self, '_vk', None) is not None:
            return
        locs = self.body['locals']
        bad = set()
        for blk in self.blocks:
            for st in blk['s']:
                d, r = st.get('d'), st.get('r')
                if d and 'p' in d and d['p'] and d['p'][0] != '*':
                    bad.add(d['l'])
                if r and r['k'] in ('ref', 'rawptr') and (r.get('m') or r['k'] == 'rawptr') and not ('p' in r['p'] and r['p']['p'] and r['p']['p'][0] == '*'):
                    bad.add(r['p']['l'])
                if 'setdiscr' in st:
                    bad.add(st['setdiscr']['l'])
            t = blk['t']
            if t['k'] == 'call' and 'p' in t['d'] and t['d']['p'] and t['d']['p'][0] != '*':
                bad.add(t['d']['l'])

        def plain(o):
            pl = o.get('mv') or o.get('cp') if isinstance(o, dict) else None
            return pl['l'] if pl is not None and 'p' not in pl else None

        def payload_of(o):
            # `(L as Variant).0`
            pl = o.get('mv') or o.get('cp') if isinstance(o, dict) else None
            if pl is None or 'p' not in pl or len(pl['p']) != 2:
                return None
            a_, b_ = pl['p']
            if isinstance(a_, dict) and 'dc' in a_ and isinstance(b_, dict) and b_.get('f') == 0:
                return pl['l']
            return None
        eff = []
        sw = {}
        for bi, blk in enumerate(self.blocks):
            es = []
            for st in blk['s']:
                d, r = st.get('d'), st.get('r')
                if not d or 'p' in d or r is None:
                    continue
                l = d['l']
                if l in bad:
                    continue
                if r['k'] == 'agg' and r.get('ak') == 'adt' and 'dv' in r:
                    es.append(('set', l, int(r['dv'])))
                    # the payload of a one-field variant carries its own knowledge (`Poll::Ready(res)`, `Some(res)`)
                    if len(r.get('ops', [])) == 1 and plain(r['ops'][0]) is not None and plain(r['ops'][0]) not in bad:
                        es.append(('copy', ('p', l), plain(r['ops'][0])))
                    else:
                        es.append(('kill', ('p', l)))
                elif r['k'] == 'use' and payload_of(r['a']) is not None and payload_of(r['a']) not in bad:
                    es.append(('copy', l, ('p', payload_of(r['a']))))
                elif r['k'] == 'use' and 'c' in r['a'] and r['a'].get('ty') == 'bool' and str(r['a'].get('v')) in ('0', '1'):
                    es.append(('set', l, int(str(r['a']['v']))))
                elif r['k'] == 'use' and plain(r['a']) is not None and plain(r['a']) not in bad:
                    es.append(('copy', l, plain(r['a'])))
                elif r['k'] == 'discr' and 'p' not in r['p'] and r['p']['l'] not in bad:
                    es.append(('copy', l, r['p']['l']))
                else:
                    es.append(('kill', l))
                if not (r['k'] == 'agg' and r.get('ak') == 'adt' and 'dv' in r) and not (es and es[-1][0] == 'copy' and es[-1][1] == l and isinstance(es[-1][2], int)):
                    es.append(('kill', ('p', l)))      # (a whole-value copy carries the payload knowledge along, see _vk_step)
            t = blk['t']
            if t['k'] == 'call' and 'p' not in t['d'] and t['d']['l'] not in bad:
                l = t['d']['l']
                fn = t.get('fn') or ''
                if fn.endswith('Try::branch') and len(t['args']) == 1 and plain(t['args'][0]) is not None and plain(t['args'][0]) not in bad:
                    ga = t.get('ga', '')
                    if ga.startswith('[core::result::Result<'):
                        es.append(('copy', l, plain(t['args'][0])))
                    elif ga.startswith('[core::option::Option<'):
                        es.append(('flip', l, plain(t['args'][0])))
                    else:
                        es.append(('kill', l))
                elif fn.endswith('FromResidual::from_residual'):
                    ty = locs[l]['ty']
                    if ty.startswith('core::result::Result<'):
                        es.append(('set', l, 1))
                    elif ty.startswith('core::option::Option<'):
                        es.append(('set', l, 0))
                    else:
                        es.append(('kill', l))
                else:
                    es.append(('kill', l))
            elif t['k'] == 'yield' and 'p' not in t.get('ra', {'p': 1}):
                es.append(('kill', t['ra']['l']))
            if t['k'] == 'switch':
                l = plain(t['d'])
                if l is not None and l not in bad:
                    listed = {}
                    for v, tgt in t['ts']:
                        try:
                            listed[int(str(v))] = tgt
                        except ValueError:
                            listed = None
                            break
                    if listed is not None:
                        sw[bi] = (l, listed, t['o'])
            eff.append(es)
        # locals whose knowledge can matter: those switched on, closed backwards over copies
        rel = {l for (l, _, _) in sw.values()}
        changed = True
        while changed:
            changed = False
            for es in eff:
                for e in es:
                    if e[0] in ('copy', 'flip') and e[1] in rel and e[2] not in rel:
                        rel.add(e[2])
                        changed = True
                    if e[0] in ('copy', 'flip') and isinstance(e[1], int) and isinstance(e[2], int) and ('p', e[1]) in rel and ('p', e[2]) not in rel:
                        rel.add(('p', e[2]))
                        rel.add(e[2])
                        changed = True
        # (payload keys ('p', l) are relevant when something relevant is copied from them)
        self._vk = ([[e for e in es if e[1] in rel or (isinstance(e[1], int) and ('p', e[1]) in rel)] for es in eff], sw, rel)

    def _vk_step(self, b, K):
        """knowledge after the statements and terminator of block b, given knowledge K (dict) on entry"""
        es = self._vk[0][b]
        if not es:
            return K
        K = dict(K)
        for e in es:
            if e[0] == 'set':
                K[e[1]] = e[2]
            elif e[0] == 'copy':
                if e[2] in K:
                    K[e[1]] = K[e[2]]
                else:
                    K.pop(e[1], None)
                # a whole-value copy carries what is known about the payload too
                if isinstance(e[1], int) and isinstance(e[2], int):
                    if ('p', e[2]) in K:
                        K[('p', e[1])] = K[('p', e[2])]
                    else:
                        K.pop(('p', e[1]), None)
            elif e[0] == 'flip':
                if e[2] in K:
                    K[e[1]] = 1 - K[e[2]]
                else:
                    K.pop(e[1], None)
                if ('p', e[2]) in K:
                    K[('p', e[1])] = K[('p', e[2])]
                else:
                    K.pop(('p', e[1]), None)
            else:
                K.pop(e[1], None)
        return K

    def _vk_allows(self, b, s, K):
        sw = self._vk[1].get(b)
        if sw is None:
            return True
        l, listed, other = sw
        if l not in K:
            return True
        v = K[l]
        if v in listed:
            return listed[v] == s
        return s == other

    def _taken_edges(self):
        """edges taken by some (block, knowledge) state reachable from the entry"""
        taken = set()
        states = {(0, ())}
        dq = deque([(0, {})])
        while dq:
            b, K = dq.popleft()
            K2 = self._vk_step(b, K)
            for s in self.succ[b]:
                if not self._vk_allows(b, s, K2):
                    continue
                taken.add((b, s))
                key = (s, tuple(sorted(K2.items(), key=repr)))
                if key in states:
                    continue
                states.add(key)
                dq.append((s, K2))
        return taken

    # -- reachability ---------------------------------------------------------------------------
    def reach(self, starts, cut_blocks=(), cut_edges=(), stop_blocks=()):
        """blocks reachable from `starts` (inclusive) without entering cut_blocks or crossing cut_edges.
        stop_blocks are reached but not expanded.  Paths that contradict what a tracked local is known to hold
        (see _vk_init) are not followed; nothing is known at the start blocks."""
        cut_blocks = set(cut_blocks)
        cut_edges = set(cut_edges)
        stop_blocks = set(stop_blocks)
        self._vk_init()
        if not self._vk[1]:
            seen = set()
            dq = deque()
            for s in starts:
                if s not in cut_blocks and s not in seen:
                    seen.add(s)
                    dq.append(s)
            while dq:
                b = dq.popleft()
                if b in stop_blocks:
                    continue
                for s in self.succ[b]:
                    if s in seen or s in cut_blocks or (b, s) in cut_edges:
                        continue
                    seen.add(s)
                    dq.append(s)
            return seen
        seen = set()
        states = set()
        dq = deque()
        for s in starts:
            if s not in cut_blocks and (s, ()) not in states:
                states.add((s, ()))
                seen.add(s)
                dq.append((s, {}))
        while dq:
            b, K = dq.popleft()
            if b in stop_blocks:
                continue
            K2 = self._vk_step(b, K)
            for s in self.succ[b]:
                if s in cut_blocks or (b, s) in cut_edges or not self._vk_allows(b, s, K2):
                    continue
                key = (s, tuple(sorted(K2.items(), key=repr)))
                if key in states:
                    continue
                states.add(key)
                seen.add(s)
                dq.append((s, K2))
        return seen

    def reach_after(self, blocks, **kw):
        """blocks reachable by leaving any of `blocks` (the blocks themselves only if re-entered)."""
        starts = set()
        ce = set(kw.get('cut_edges', ()))
        for b in blocks:
            for s in self.succ[b]:
                if (b, s) not in ce:
                    starts.add(s)
        return self.reach(starts, **kw)

    def out_edges(self, b):
        return [(b, s) for s in self.succ[b]]

    def must_pass(self, target_block, via_blocks=(), via_edges=(), start=0, also_cut_edges=()):
        """True iff every path start ->* target_block crosses one of via_edges or *leaves* one of via_blocks.
        (A via block is 'passed' when its terminator executed, i.e. an out-edge is taken.)"""
        cut = set(via_edges) | set(also_cut_edges)
        for b in via_blocks:
            cut.update(self.out_edges(b))
        if start == target_block and not (set(via_blocks) and False):
            # the start itself is the target: only passes trivially if it is unreachable, which it is not
            return False
        return target_block not in self.reach([start], cut_edges=cut)

    def path(self, src, dst, cut_blocks=(), cut_edges=()):
        """one shortest path of blocks src ->* dst under cuts (for violation reports), or None."""
        cut_blocks = set(cut_blocks)
        cut_edges = set(cut_edges)
        prev = {src: None}
        dq = deque([src])
        while dq:
            b = dq.popleft()
            if b == dst:
                out = []
                while b is not None:
                    out.append(b)
                    b = prev[b]
                return out[::-1]
            for s in self.succ[b]:
                if s in prev or s in cut_blocks or (b, s) in cut_edges:
                    continue
                prev[s] = b
                dq.append(s)
        return None

    # -- dominators -----------------------------------------------------------------------------
    def _rpo(self, succ, start):
        seen = set()
        order = []
        stack = [(start, iter(succ[start]))]
        seen.add(start)
        while stack:
            b, it = stack[-1]
            adv = False
            for s in it:
                if s not in seen:
                    seen.add(s)
                    stack.append((s, iter(succ[s])))
                    adv = True
                    break
            if not adv:
                order.append(b)
                stack.pop()
        return order[::-1]

    def _idoms(self, succ, pred, start):
        rpo = self._rpo(succ, start)
        idx = {b: i for i, b in enumerate(rpo)}
        idom = {start: start}
        changed = True
        while changed:
            changed = False
            for b in rpo[1:]:
                ps = [p for p in pred[b] if p in idom]
                if not ps:
                    continue
                new = ps[0]
                for p in ps[1:]:
                    a, c = p, new
                    while a != c:
                        while idx[a] > idx[c]:
                            a = idom[a]
                        while idx[c] > idx[a]:
                            c = idom[c]
                    new = a
                if idom.get(b) != new:
                    idom[b] = new
                    changed = True
        return idom

    @property
    def idom(self):
        if self._dom is None:
            self._dom = self._idoms(self.succ, self.pred, 0)
        return self._dom

    def dominates(self, a, b):
        """block a dominates block b (reflexive)."""
        idom = self.idom
        if b not in idom:
            return True  # unreachable
        while True:
            if a == b:
                return True
            nb = idom[b]
            if nb == b:
                return False
            b = nb

    @property
    def ipdom(self):
        """immediate post-dominators w.r.t. a virtual exit joined from every `return` block."""
        if self._pdom is None:
            n = self.n
            EXIT = n
            succ = [list(self.pred[i]) for i in range(n)] + [list(self.returns)]
            pred = [list(self.succ[i]) for i in range(n)] + [[]]
            for r in self.returns:
                pred[r] = pred[r] + [EXIT]
            self._pdom = self._idoms(succ, pred, EXIT)
        return self._pdom

    def postdominates(self, a, b):
        """every path from b to a return passes through a (reflexive). False if b cannot reach a return."""
        ip = self.ipdom
        if b not in ip:
            return False
        while True:
            if a == b:
                return True
            nb = ip[b]
            if nb == b or nb == self.n:
                return False
            b = nb

    # -- loops ----------------------------------------------------------------------------------
    def back_edges(self):
        out = []
        for b in self.reach0:
            for s in self.succ[b]:
                if self.dominates(s, b):
                    out.append((b, s))
        return out

    def natural_loop(self, head):
        """blocks of the natural loop(s) with header `head`."""
        body = {head}
        work = [b for (b, h) in self.back_edges() if h == head]
        while work:
            b = work.pop()
            if b in body:
                continue
            body.add(b)
            work.extend(self.pred[b])
        return body

    def loops(self):
        heads = sorted({h for (_, h) in self.back_edges()})
        return {h: self.natural_loop(h) for h in heads}

    # -- sites ----------------------------------------------------------------------------------
    def calls(self, pred=None):
        """[(block, terminator)] for call terminators in reachable, non-cleanup blocks."""
        out = []
        for b in sorted(self.reach0):
            t = self.blocks[b]['t']
            if t['k'] == 'call' and (pred is None or pred(t)):
                out.append((b, t))
        return out

    def line(self, b, si=None):
        blk = self.blocks[b]
        if si is None or si >= len(blk['s']):
            return blk['t']['ln']
        return blk['s'][si]['ln']


def callee(t):
    """resolved callee path of a call terminator (falls back to the written path)."""
    return t.get('res') or t.get('fn') or ''


def callee_is(t, *names):
    """match on suffix of either the written or the resolved callee path (generic args stripped by the extractor)."""
    from .flow import strip_generics
    for k in ('fn', 'res'):
        v = t.get(k)
        if not v:
            continue
        v = strip_generics(v)
        for nm in names:
            nm = strip_generics(nm)
            if v == nm or v.endswith('::' + nm):
                return True
    return False
