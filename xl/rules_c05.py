"""C05 — deduplication answers are truthful (comparison-guard clauses; DESIGN.md §5 C05)."""
from .core import an, strip_generics as sg, edges_where, bool_edges
from . import flow, paths

EXPLANATION = (
    'Decides that an answer "the first n query hashes are X[a..a+n)" is only produced after each of those n stored hashes was compared at full width with the query '
    '(under the shard\'s HMAC key where it has one), and that the byte count is accumulated once per matched chunk: (R05a) on-disk chunk_hash_dedup_query_direct: every '
    'Ok(Some) is dominated by the equal edge of first_chunk.chunk_hash vs keyed_chunk_hash(query[0]); in the extension loop the byte add and the continuation are dominated, per '
    'iteration, by the equal edge of this iteration\'s entry hash vs keyed_chunk_hash(query[i]) and by i != query.len(); the returned bytes/indices come from those accumulators; '
    '(R05b) the in-memory run matcher advances only past full-hash-equal, in-bounds positions and sums the matched slice; (R05c) the manager returns only answers of these two '
    'matchers, probes a keyed collection with the keyed truncated hash, and keyed_chunk_hash applies the HMAC on the non-default-key edge; (R05d) the deduper\'s local matcher '
    'extends only while the looked-up index is base+i and sums that chunk\'s length. Not decided: index arithmetic values, truncated-prefix table search (C09), last-writer-wins in the manager map.')

DIRECT = 'mdb_shard::shard_format::MDBShardInfo::chunk_hash_dedup_query_direct'
KEYED = 'mdb_shard::shard_format::MDBShardInfo::keyed_chunk_hash'
INMEM = 'mdb_shard::shard_in_memory::MDBInMemoryShard::chunk_hash_dedup_query'
MGRQ = 'mdb_shard::shard_file_manager::ShardFileManager::chunk_hash_dedup_query::{closure#0}'
WRAP = 'mdb_shard::shard_format::MDBShardInfo::chunk_hash_dedup_query'
LOCAL = 'deduplication::file_deduplication::FileDeduper::<DataInterfaceType>::dedup_query_against_local_data'
ENTRY_DES = 'mdb_shard::cas_structs::CASChunkSequenceEntry::deserialize'


def run(ctx):
    ctx.rule('R05a', 'on-disk matcher: answers and byte accumulation are guarded by full-width (keyed) hash equality, first chunk and per iteration')
    ctx.rule('R05b', 'in-memory matcher: the run is extended only past in-bounds, full-hash-equal positions; bytes are the sum over the matched slice')
    ctx.rule('R05c', 'manager: answers come only from the two matchers; keyed collections are probed with the keyed hash; keyed_chunk_hash applies the HMAC when the shard is keyed')
    ctx.rule('R05d', 'deduper local matcher: extension requires the next hash to be stored at base+i; bytes from that chunk')
    ctx.guarded('R05a', DIRECT, lambda: r05a(ctx))
    ctx.guarded('R05b', INMEM, lambda: r05b(ctx))
    ctx.guarded('R05c', MGRQ, lambda: r05c(ctx))
    ctx.guarded('R05d', LOCAL, lambda: r05d(ctx))
    ctx.rule('R05e', 'the shard-level query hands on one matcher answer unchanged: every Some it returns is the whole (count, entry) pair of a single chunk_hash_dedup_query_direct call, never a count and an entry taken from different candidates')
    ctx.guarded('R05e', WRAP, lambda: r05e(ctx))
    ctx.rule('R05f', 'the deduper\'s self-reference map speaks about the pending xorb: it is emptied wherever the pending chunk list is emptied, and a hash is entered with the position its chunk is pushed at')
    ctx.guarded('R05f', LOCAL, lambda: r05f(ctx))


def loop_of(a, b):
    best = None
    for h, blks in a.cfg.loops().items():
        if b in blks and (best is None or len(blks) < len(best[1])):
            best = (h, blks)
    return best


def in_iteration_guarded(a, lp, site, edges):
    head, blks = lp
    latches = [(x, head) for x in blks if head in a.cfg.succ[x]]
    return bool(edges) and site not in a.cfg.reach([head], cut_edges=set(edges) | set(latches))


def latches_guarded(a, lp, edges):
    head, blks = lp
    latches = [(x, head) for x in blks if head in a.cfg.succ[x]]
    r = a.cfg.reach([head], cut_edges=set(edges) | set(latches))
    return bool(edges) and not any(x in r and (x, h) not in set(edges) for (x, h) in latches)


def is_query_elem(e, pname, idx_pred):
    return e[0] == 'index' and ((e[1][0] == 'param' and e[1][2] == pname) or (e[1][0] == 'upvar' and e[1][1] == pname)) and idx_pred(e[2])


def r05a(ctx):
    a = an(ctx.F.body(DIRECT))
    fn = DIRECT
    des = a.calls(ENTRY_DES)
    if not ctx.check(len(des) == 2, 'R05a', fn, 'deserialize sites', '-', 'two chunk-entry reads: the first chunk and the per-iteration chunk'):
        return
    d_first = [d for d in des if loop_of(a, d) is None]
    d_loop = [d for d in des if loop_of(a, d) is not None]
    if not ctx.check(len(d_first) == 1 and len(d_loop) == 1, 'R05a', fn, 'sites', '-', 'one read before the loop, one inside it'):
        return
    d1, d2 = d_first[0], d_loop[0]
    lp = loop_of(a, d2)

    def hash_eq(dblock, idx_pred):
        def f(op, l, r):
            return (op == 'Eq' and l[0] == 'field' and l[2] == 'chunk_hash' and a.rooted_at(l[1], dblock) and r[0] == 'call' and sg(r[1]) == KEYED
                    and len(r[2]) == 2 and is_query_elem(r[2][1], 'unkeyed_query_hashes', idx_pred))
        return f
    e1 = edges_where(a, hash_eq(d1, lambda i: i == ('const', 0, 'usize')))
    somes = [(b, si, e) for (b, si, k, e) in a.ret_sites() if k == 'ok' and e[3][0][1][0] == 'agg' and e[3][0][1][2].endswith('Option::Some')]
    ctx.check(len(somes) == 1, 'R05a', fn, 'Ok(Some)', '-', 'one Ok(Some(..)) return')
    for (b, si, e) in somes:
        ctx.check(bool(e1) and a.cfg.must_pass(b, via_edges=e1), 'R05a', fn, 'first-chunk guard', a.loc(b, si),
                  'Ok(Some) is dominated by the equal edge of first_chunk.chunk_hash == keyed_chunk_hash(query[0]) (full 256-bit, keyed)',
                  'a dedup answer can be returned without the first stored chunk hash having been compared (at full width, under the shard key) with query[0]')
    # loop variable: payload of the loop's iterator next()
    def is_loop_var(i):
        rc = a.root_call(i)
        return i[0] == 'call' and rc is not None and rc[3] in lp[1] and sg(rc[1]).endswith('RangeFrom::RangeFrom') is False or (i[0] == 'agg')
    # simpler: the index expression must be the same expression as the one compared against query.len()
    idx_exprs = []
    def hash_eq_loop(op, l, r):
        if (op == 'Eq' and l[0] == 'field' and l[2] == 'chunk_hash' and a.rooted_at(l[1], d2) and r[0] == 'call' and sg(r[1]) == KEYED and len(r[2]) == 2
                and is_query_elem(r[2][1], 'unkeyed_query_hashes', lambda i: True)):
            idx_exprs.append(r[2][1][2])
            return True
        return False
    e2 = edges_where(a, hash_eq_loop)
    ivar = idx_exprs[0] if idx_exprs else None
    # the compared position is the loop's own counter: the payload of the loop's iterator, or a local that is only
    # advanced by +1 inside the loop
    iv_iter = ivar is not None and any(sg(a.term(c).get('fn', '')).endswith('Iterator::next') and c in lp[1] and a.arg(c, 0) == ivar for c in a.calls())
    iv_cnt = False
    if ivar is not None and ivar[0] == 'local' and not iv_iter:
        inl = [d for d in a.flow.defs.get(ivar[1], []) if d[1] in lp[1]]
        ups = [paths.additive_update(a, a.blocks[d[1]]['s'][d[2]]) for d in inl if d[0] == 'assign']
        iv_cnt = bool(inl) and all(u is not None and u[1] == 1 and u[2] == ('const', 1, 'usize') for u in ups) and len(ups) == len(inl)
    ctx.check(iv_iter or iv_cnt, 'R05a', fn, 'loop index', a.loc(lp[0]), 'the compared query position is the loop\'s own counter (%s)' % (flow.show(ivar) if ivar else '?'))
    qlen = lambda z: z[0] in ('len', 'call') and flow.mentions(z, lambda y: y[0] == 'param' and y[2] == 'unkeyed_query_hashes')
    e3 = edges_where(a, lambda op, l, r: ivar is not None and l == ivar and ((op == 'Ne' and qlen(r)) or (op == 'Lt' and flow.mentions(r, qlen))))
    # the read of each further entry is bounded by the entries remaining in this xorb after the chunk offset
    def bound(op, l, r):
        if op not in ('Ne', 'Lt') or ivar is None:
            return False
        both = ('bin', 'Add', l, r)
        return (flow.mentions(both, lambda z: z == ivar) and flow.mentions(both, lambda z: z[0] == 'field' and z[2] == 'num_entries' and a.root_call(z) is not None and sg(a.root_call(z)[1]).endswith('CASChunkSequenceHeader::deserialize'))
                and flow.mentions(both, lambda z: z == ('param', 5, 'cas_chunk_offset')))
    e4 = edges_where(a, bound)
    ctx.check(in_iteration_guarded(a, lp, d2, e4), 'R05a', fn, 'xorb bound', a.loc(d2), 'each further entry is read only on an edge of a comparison relating the counter, the chunk offset and the xorb header\'s num_entries (the read cannot run past the xorb)',
              'the extension loop reads an entry without a bound that accounts for the chunk offset within the xorb (counter, cas_chunk_offset and num_entries are not related): it can read past the xorb\'s end and answer with a range outside it')
    eff = paths.collect_effects(a, lp[1], lambda k: k[0] if len(k) == 1 else None)
    adds = [(b, e, ln) for b, es in eff.items() for (c, s, t, e, ln) in es if s == 1 and e[0] == 'field' and e[2] == 'unpacked_segment_bytes' and a.rooted_at(e[1], d2)]
    if ctx.check(len(adds) == 1, 'R05a', fn, 'byte add', '-', 'one accumulation of this iteration\'s chunk bytes in the loop'):
        ub = adds[0][0]
        ctx.check(in_iteration_guarded(a, lp, ub, e2), 'R05a', fn, 'loop guard(bytes)', '%s:%d' % (a.body['file'], adds[0][2]),
                  'the byte accumulation is dominated, within the iteration, by the equal edge of this entry\'s chunk_hash == keyed_chunk_hash(query[i])',
                  'bytes of a chunk are added to the answer before (or without) its hash having been compared with the query')
        ctx.check(in_iteration_guarded(a, lp, ub, e3), 'R05a', fn, 'loop guard(len)', '%s:%d' % (a.body['file'], adds[0][2]), 'and by the i != query.len() edge')
    ctx.check(latches_guarded(a, lp, e2) and latches_guarded(a, lp, e3), 'R05a', fn, 'continue guard', a.loc(lp[0]), 'the loop continues to the next position only after a full-hash match within the query length',
              'the extension loop can continue past a position whose hash was not compared')
    # result provenance
    for (b, si, e) in somes:
        tup = e[3][0][1][3][0][1]
        cnt, fse = tup[3][0][1], tup[3][1][1]
        f = dict(fse[3]) if fse[0] == 'agg' else {}
        nb = f.get('unpacked_segment_bytes')
        okb = nb is not None and nb[0] == 'local'
        if okb:
            ds = a.flow.defs.get(nb[1], [])
            srcs = []
            for d in ds:
                if d[0] == 'assign':
                    u = paths.additive_update(a, a.blocks[d[1]]['s'][d[2]])
                    srcs.append(u[2] if u else a.flow.rvalue(d[3], 0))
            okb = len(srcs) == 2 and all(s[0] == 'field' and s[2] == 'unpacked_segment_bytes' for s in srcs) and {a.root_call(s)[3] for s in srcs} == {d1, d2}
        ctx.check(okb, 'R05a', fn, 'ret.bytes', a.loc(b, si), 'returned unpacked_segment_bytes = first chunk\'s bytes + the per-iteration additions')
        cs = f.get('chunk_index_start')
        ce = f.get('chunk_index_end')
        okc = cs == ('param', 5, 'cas_chunk_offset') and ce is not None and ce[0] == 'bin' and ce[1] in ('Add', 'AddO') and ce[2] == ('param', 5, 'cas_chunk_offset') and flow.eqv(ce[3], cnt)
        ctx.check(okc, 'R05a', fn, 'ret.range', a.loc(b, si), 'returned range = [cas_chunk_offset, cas_chunk_offset + n) with n the returned count')
        okn = cnt[0] == 'local'
        if okn and cnt == ivar and iv_cnt:
            pass  # the returned count is the loop counter itself
        elif okn:
            ds = [d for d in a.flow.defs.get(cnt[1], []) if d[0] == 'assign']
            vals = [a.flow.rvalue(d[3], 0) for d in ds]
            okn = all(v == ('const', 0, 'usize') or v == ivar for v in vals) and sum(1 for v in vals if v == ivar) >= 2
            # every loop exit towards the answer assigns the count in that iteration
            head, blks = lp
            latches = [(x, head) for x in blks if head in a.cfg.succ[x]]
            exits = [(x, y) for x in blks for y in a.cfg.succ[x] if y not in blks]
            asg = [d[1] for d in ds if a.flow.rvalue(d[3], 0) == ivar]
            # `for i in 1..` iterates a RangeFrom, whose next() never yields None: that exit edge is infeasible
            infeasible = []
            for c in a.calls():
                if c in blks and sg(a.term(c).get('fn', '')).endswith('Iterator::next') and a.arg(c, 0) == ivar and a.flow.lty(ivar[1]).startswith('core::ops::range::RangeFrom<'):
                    infeasible += a.none_edges(a.dest_variant_edges(c))
            r = a.cfg.reach([head], cut_edges=[e_ for ab in asg for e_ in a.cfg.out_edges(ab)] + latches + infeasible)
            okn = okn and b not in r
        ctx.check(okn, 'R05a', fn, 'ret.count', a.loc(b, si), 'the returned count is the loop position at which matching stopped, assigned on every exit')
        hh = f.get('cas_hash')
        ctx.check(hh is not None and hh[0] == 'field' and hh[2] == 'cas_hash' and a.root_call(hh) is not None and sg(a.root_call(hh)[1]).endswith('CASChunkSequenceHeader::deserialize'), 'R05a', fn, 'ret.xorb', a.loc(b, si),
                  'the xorb hash of the answer is the header read at the probed entry index')


def _iterator_form_r05b(ctx, a, fn):
    """the run length as `chunks.iter().skip(start).zip(query.iter()).take_while(|(e, q)| e.chunk_hash == **q).count()`"""
    cnt = [c for c in a.calls('core::iter::traits::iterator::Iterator::count')]
    if len(cnt) != 1:
        return False
    e = ('call', a.term(cnt[0])['fn'], [a.arg(cnt[0], 0)], cnt[0])
    src = a.arg(cnt[0], 0)
    tw = [z for z in flow.subtrees(src) if z[0] == 'call' and sg(z[1]).endswith('Iterator::take_while')]
    zp = [z for z in flow.subtrees(src) if z[0] == 'call' and sg(z[1]).endswith('Iterator::zip')]
    sk = [z for z in flow.subtrees(src) if z[0] == 'call' and sg(z[1]).endswith('Iterator::skip')]
    if len(zp) != 1:
        return False
    # the start of the run: `.skip(start)` or a sub-slice `chunks[start..]`
    start = None
    if len(sk) == 1:
        start = sk[0][2][1]
    else:
        sl_ = [z for z in flow.subtrees(zp[0][2][0]) if z[0] == 'index' and flow.mentions(z[1], lambda y: y[0] == 'field' and y[2] == 'chunks') and z[2][0] == 'agg' and 'Range' in z[2][2]]
        if len(sl_) == 1:
            start = dict(sl_[0][2][3]).get('start')
    if start is None:
        return False
    if len(tw) != 1:
        # a pipeline that counts something else than the matching *prefix* (e.g. `filter(..).count()` counts every aligned
        # equal pair, also behind a mismatch)
        others = sorted({sg(z[1]).split('::')[-1] for z in flow.subtrees(src) if z[0] == 'call' and sg(z[1]).startswith('core::iter::traits::iterator::Iterator::')} - {'zip', 'skip', 'count'})
        ctx.fail('R05b', fn, 'hash guard', a.loc(cnt[0]), 'the reported run length is not the length of the matching prefix: the pipeline counts through %s instead of take_while, so it also counts matches behind a mismatch (an answer can cover chunks whose hashes differ from the query)' % (others or ['(nothing)']))
        return True
    ok_zip = flow.mentions(zp[0][2][0], lambda z: z[0] == 'field' and z[2] == 'chunks') and flow.mentions(zp[0][2][1], lambda z: z[0] == 'param' and z[2] == 'query_hashes')
    cl = [z for z in flow.subtrees(tw[0][2][1]) if z[0] == 'agg' and z[1] == 'closure']
    okc = False
    if cl:
        ac = an(ctx.F.body(cl[0][2]))
        rr = [x for (_, _, _, x) in ac.ret_sites()]
        for x in rr:
            from .core import as_comparison
            cmpx = as_comparison(x)
            if cmpx and cmpx[0] == 'Eq' and ((cmpx[1][0] == 'field' and cmpx[1][2] == 'chunk_hash') or (cmpx[2][0] == 'field' and cmpx[2][2] == 'chunk_hash')):
                okc = True
    ctx.check(ok_zip and okc, 'R05b', fn, 'hash guard', a.loc(cnt[0]), 'the run length is the count of the longest prefix of (chunks from start) zipped with the query on which entry.chunk_hash == query hash (iterator form: bounds are those of zip/skip)',
              'the in-memory run can be extended past a chunk whose hash was not compared with the query')
    rs = [(b, si, x) for (b, si, k, x) in a.ret_sites() if x[0] == 'agg' and x[2].endswith('Option::Some')]
    okr = False
    if len(rs) == 1:
        tup = rs[0][2][3][0][1]
        c0, fse = tup[3][0][1], tup[3][1][1]
        okr = a.rooted_at(c0, cnt[0]) and fse[0] == 'call' and sg(fse[1]).endswith('FileDataSequenceEntry::from_cas_entries')
        if okr:
            sl = fse[2][1]
            okr = sl[0] == 'index' and flow.mentions(sl[1], lambda z: z[0] == 'field' and z[2] == 'chunks') and sl[2][0] == 'agg' and 'Range' in sl[2][2]
            if okr:
                rg = dict(sl[2][3])
                en = rg.get('end', ('top',))
                okr = flow.eqv(rg.get('start', ('top',)), start) and en[0] == 'bin' and en[1] == 'Add' and flow.eqv(en[2], start) and a.rooted_at(en[3], cnt[0]) and flow.eqv(rg.get('start'), fse[2][2]) and flow.eqv(en, fse[2][3])
    ctx.check(okr, 'R05b', fn, 'ret', a.loc(rs[0][0], rs[0][1]) if rs else '-', 'answer = (k, from_cas_entries(meta, chunks[start..start+k], start, start+k)) with k that count')
    return True


def r05b(ctx):
    a = an(ctx.F.body(INMEM))
    fn = INMEM
    eff = paths.collect_effects(a, a.cfg.reach0, lambda k: k[0] if len(k) == 1 else None)
    incs = [(b, ln) for b, es in eff.items() for (c, s, t, e, ln) in es if s == 1 and t == '1']
    if not incs and _iterator_form_r05b(ctx, a, fn):
        _from_cas_entries(ctx)
        return
    if not ctx.check(len(incs) == 1 and loop_of(a, incs[0][0]) is not None, 'R05b', fn, 'query_idx += 1', '-', 'one run-length increment inside the matching loop'):
        return
    ib = incs[0][0]
    lp = loop_of(a, ib)
    qi = [c for es in eff.values() for (c, s, t, e, ln) in es if t == '1'][0]
    def is_qi(e):
        return e[0] == 'local' and e[2] == qi
    def is_pos(e):   # chunk_index_start + query_idx
        return e[0] == 'bin' and e[1] in ('Add', 'AddO') and (is_qi(e[3]) or is_qi(e[2]))
    e_hash = edges_where(a, lambda op, l, r: op == 'Eq' and l[0] == 'field' and l[2] == 'chunk_hash' and l[1][0] == 'index' and is_pos(l[1][2]) and flow.mentions(l[1][1], lambda z: z[0] == 'field' and z[2] == 'chunks')
                         and is_query_elem(r, 'query_hashes', is_qi))
    e_qlen = edges_where(a, lambda op, l, r: op == 'Lt' and is_qi(l) and flow.mentions(r, lambda z: z[0] == 'param' and z[2] == 'query_hashes'))
    starts = []

    def pos_start(e):
        # the fixed part of `start + k`
        if is_pos(e):
            starts.append(e[2] if is_qi(e[3]) else e[3])
        return is_pos(e)
    edges_where(a, lambda op, l, r: op == 'Eq' and l[0] == 'field' and l[2] == 'chunk_hash' and l[1][0] == 'index' and pos_start(l[1][2]) and False)

    def room_left(r):
        # `chunks.len() - start` (plain or saturating), possibly under a `min` with the query length
        for z in flow.subtrees(r):
            if (z[0] == 'bin' and z[1] in ('Sub', 'SubO') and len(z) == 4) or (z[0] == 'call' and sg(z[1]).endswith('saturating_sub') and len(z[2]) == 2):
                x, y = (z[2], z[3]) if z[0] == 'bin' else (z[2][0], z[2][1])
                if flow.mentions(x, lambda w: w[0] == 'field' and w[2] == 'chunks') and any(flow.eqv(y, st_) for st_ in starts):
                    return True
        return False
    e_clen = edges_where(a, lambda op, l, r: op == 'Lt' and ((is_pos(l) and flow.mentions(r, lambda z: z[0] == 'field' and z[2] == 'chunks')) or (is_qi(l) and room_left(r))))
    ctx.check(in_iteration_guarded(a, lp, ib, e_hash), 'R05b', fn, 'hash guard', a.loc(ib), 'the run is extended only on the equal edge of chunks[start+k].chunk_hash == query[k] (full hash)',
              'the in-memory run can be extended past a chunk whose hash was not compared with the query')
    ctx.check(in_iteration_guarded(a, lp, ib, e_qlen), 'R05b', fn, 'query bound', a.loc(ib), 'and only while k < query.len()')
    ctx.check(in_iteration_guarded(a, lp, ib, e_clen), 'R05b', fn, 'xorb bound', a.loc(ib), 'and only while start+k < chunks.len()')
    # result
    rs = [(b, si, e) for (b, si, k, e) in a.ret_sites() if e[0] == 'agg' and e[2].endswith('Option::Some')]
    if ctx.check(len(rs) == 1, 'R05b', fn, 'Some', '-', 'one Some(..) answer'):
        b, si, e = rs[0]
        tup = e[3][0][1]
        cnt, fse = tup[3][0][1], tup[3][1][1]
        ok = is_qi(cnt) and fse[0] == 'call' and sg(fse[1]).endswith('FileDataSequenceEntry::from_cas_entries')
        if ok:
            sl = fse[2][1]
            ok = sl[0] == 'index' and flow.mentions(sl[1], lambda z: z[0] == 'field' and z[2] == 'chunks') and sl[2][0] == 'agg' and 'Range' in sl[2][2]
            if ok:
                rg = dict(sl[2][3])
                ok = is_pos(rg.get('end', ('top',))) and rg.get('start') == fse[2][2] and rg.get('end') == fse[2][3]
        ctx.check(ok, 'R05b', fn, 'ret', a.loc(b, si), 'answer = (k, from_cas_entries(meta, chunks[start..start+k], start, start+k))')
    _from_cas_entries(ctx)


def _from_cas_entries(ctx):
    f = an(ctx.F.body('mdb_shard::file_structs::FileDataSequenceEntry::from_cas_entries'))
    rs = [e for (_, _, _, e) in f.ret_sites() if e[0] == 'agg' and e[1] == 'adt']
    ok = False
    for e in rs:
        ub = dict(e[3]).get('unpacked_segment_bytes')
        if ub and ub[0] == 'call' and sg(ub[1]).endswith('Iterator::sum') and flow.mentions(ub, lambda z: z[0] == 'param' and z[2] == 'chunks'):
            ok = True
    ctx.check(ok, 'R05b', f.path, 'sum', '-', 'from_cas_entries sums unpacked_segment_bytes over exactly the slice it is given')
    cl = [c for c in ctx.F.children(f.body)]
    okc = False
    for c in cl:
        ac = an(c)
        rr = [e for (_, _, _, e) in ac.ret_sites()]
        if len(rr) == 1 and rr[0][0] == 'field' and rr[0][2] == 'unpacked_segment_bytes':
            okc = True
    ctx.check(okc, 'R05b', f.path, 'sum.closure', '-', 'the summed quantity is each entry\'s unpacked_segment_bytes')



def r05c(ctx):
    F = ctx.F
    a = an(F.body(MGRQ))
    fn = MGRQ
    somes = []
    for (b, si, k, e) in a.ret_sites():
        if k != 'ok':
            continue
        # (a single result variable assigned in several places is expanded into its assignments)
        for (sb, ssi, v) in a.flow.sources(e[3][0][1], (b, si)):
            while v[0] == 'agg' and v[2].endswith('Result::Ok') and len(v[3]) == 1:
                v = v[3][0][1]
            if v[0] == 'agg' and v[2].endswith('Option::None'):
                continue
            somes.append((sb if sb is not None else b, ssi if sb is not None else si, v))
    n = 0
    for (b, si, v) in somes:
        rc = None
        for z in flow.subtrees(v):
            if z[0] == 'call' and (sg(z[1]) == INMEM or sg(z[1]).endswith('MDBShardFile::chunk_hash_dedup_query_direct')):
                rc = z
        ctx.check(rc is not None, 'R05c', fn, 'answer source', a.loc(b, si), 'a positive answer originates from the in-memory matcher or from MDBShardFile::chunk_hash_dedup_query_direct (%s)' % (sg(rc[1]).split('::')[-2:] if rc else '?'),
                  'the manager returns a dedup answer that neither matcher produced: %s' % flow.show(v)[:80])
        n += 1
    ctx.floor('R05c', 'positive-answer returns in the manager', n, 2)
    # keyed probe
    te, fe = [], []
    def key_default(op, l, r):
        return op == 'Eq' and l[0] == 'field' and l[2] == 'hmac_key' and r[0] == 'call' and 'default' in sg(r[1]).lower()
    eq_edges = edges_where(a, key_default)
    ne_edges = edges_where(a, lambda op, l, r: key_default({'Ne': 'Eq'}.get(op, 'x'), l, r))
    gets = [g for g in a.calls('std::collections::hash::map::HashMap::get') if flow.mentions(a.arg(g, 0), lambda z: z[0] == 'field' and z[2] == 'chunk_lookup')]
    helper = None
    if len(gets) == 1:
        q0 = a.arg(gets[0], 1)
        if q0[0] == 'call' and ctx.cg.norm.get(sg(q0[1])) and ctx.cg.norm[sg(q0[1])].startswith('mdb_shard::shard_file_manager::'):
            helper = q0
    if helper is not None:
        # depth-1 summary: a same-module helper (collection key, hash) -> probe key
        h = an(F.body(ctx.cg.norm[sg(helper[1])]))
        kparam = [i for i, l in enumerate(h.body['locals']) if 1 <= i <= h.body['argc'] and 'HMACKey' in l['ty'] or (1 <= i <= h.body['argc'] and l['ty'].startswith('[u8; 32]')) or (1 <= i <= h.body['argc'] and 'DataHash' in l['ty'] and not l['ty'].startswith('&'))]
        hparam = [i for i, l in enumerate(h.body['locals']) if 1 <= i <= h.body['argc'] and l['ty'].startswith('&')]
        okh = len(kparam) >= 1 and len(hparam) >= 1
        if okh:
            kp, hp = kparam[0], hparam[0]
            isk = lambda z: z[0] == 'param' and z[1] == kp
            h_eq = edges_where(h, lambda op, l, r: op == 'Eq' and isk(l) and r[0] == 'call' and 'default' in sg(r[1]).lower())
            h_ne = edges_where(h, lambda op, l, r: op == 'Ne' and isk(l) and r[0] == 'call' and 'default' in sg(r[1]).lower())
            ths = h.calls('mdb_shard::utils::truncate_hash')
            keyed = [t for t in ths if flow.mentions(h.arg(t, 0), lambda z: z[0] == 'call' and sg(z[1]).endswith('DataHash::hmac') and flow.mentions(z, isk))]
            plain = [t for t in ths if t not in keyed]
            okh = len(keyed) == 1 and len(plain) == 1 and bool(h_ne) and h.cfg.must_pass(keyed[0], via_edges=h_ne) and h.cfg.must_pass(plain[0], via_edges=h_eq) and all(
                flow.mentions(h.arg(t, 0), lambda z: z[0] == 'param' and z[1] == hp) for t in ths)
            # call-site arguments: (this collection's key, query[0])
            okh = okh and flow.mentions(helper[2][kp - 1], lambda z: z[0] == 'field' and z[2] == 'hmac_key') and flow.mentions(helper[2][hp - 1], lambda z: is_query_elem(z, 'query_hashes', lambda i: i == ('const', 0, 'usize')))
        ctx.check(okh, 'R05c', fn, 'keyed probe', a.loc(gets[0]), 'the probe key is computed by a same-module helper from (collection key, query[0]): keyed truncated hash on the non-default-key edge, plain only on the default-key edge',
                  'a keyed collection can be probed with the unkeyed hash (or vice versa)')
    elif ctx.check(len(gets) == 1 and bool(ne_edges), 'R05c', fn, 'probe', '-', 'one chunk_lookup probe, selected per collection key'):
        q = a.arg(gets[0], 1)
        # the hashes that can reach the probe: walk through join points, down to the argument of truncate_hash
        is_q0 = lambda z: is_query_elem(z, 'query_hashes', lambda i: i == ('const', 0, 'usize'))
        hashes = []     # (block where the choice is made, hash expression that gets truncated)
        for (sb, ssi, se) in a.flow.sources(q, (gets[0], None)):
            if se[0] == 'call' and sg(se[1]).endswith('truncate_hash') and len(se[2]) == 1:
                for (hb, hsi, he) in a.flow.sources(se[2][0], (se[3], None)):
                    hashes.append((hb if hb is not None else se[3], he))
            else:
                hashes.append((sb, se))
        keyed = [(b_, e_) for (b_, e_) in hashes if e_[0] == 'call' and sg(e_[1]).endswith('DataHash::hmac') and flow.mentions(e_, lambda y: y[0] == 'field' and y[2] == 'hmac_key')]
        plain = [(b_, e_) for (b_, e_) in hashes if (b_, e_) not in keyed]
        ok = (len(keyed) >= 1 and len(plain) >= 1 and all(b_ is not None and a.cfg.must_pass(b_, via_edges=ne_edges) for (b_, _) in keyed)
              and all(b_ is not None and bool(eq_edges) and a.cfg.must_pass(b_, via_edges=eq_edges) for (b_, _) in plain))
        ctx.check(ok, 'R05c', fn, 'keyed probe', a.loc(keyed[0][0]) if keyed and keyed[0][0] is not None else '-', 'on the non-default-key edge the probe uses truncate_hash(hmac(query[0], collection key)); the plain hash only on the default-key edge',
                  'a keyed collection can be probed with the unkeyed hash (or vice versa)')
        ctx.check(bool(hashes) and all(is_q0(e_[2][0]) if (b_, e_) in keyed else is_q0(e_) for (b_, e_) in hashes), 'R05c', fn, 'probe.hash', '-', 'both forms derive from query_hashes[0]')
    dq = [d for d in a.calls('mdb_shard::shard_file_handle::MDBShardFile::chunk_hash_dedup_query_direct')]
    for d in dq:
        ok = flow.mentions(a.arg(d, 1), lambda z: (z[0] == 'upvar' and z[1] == 'query_hashes') or (z[0] == 'param' and z[2] == 'query_hashes')) and gets and a.rooted_at(a.arg(d, 2), gets[0]) and a.rooted_at(a.arg(d, 3), gets[0])
        ctx.check(ok, 'R05c', fn, 'direct.args', a.loc(d), 'the on-disk matcher is given the whole query and the probed entry\'s (cas index, chunk offset)')
    # MDBShardFile wrapper forwards unchanged
    w = an(F.body('mdb_shard::shard_file_handle::MDBShardFile::chunk_hash_dedup_query_direct'))
    cs = w.calls(DIRECT)
    ok = len(cs) == 1 and [w.arg(cs[0], i) for i in (2, 3, 4)] == [('param', 2, 'query_hashes'), ('param', 3, 'cas_block_index'), ('param', 4, 'cas_chunk_offset')] and flow.mentions(w.arg(cs[0], 0), lambda z: z[0] == 'field' and z[2] == 'shard')
    ctx.check(ok, 'R05c', w.path, 'forward', w.loc(cs[0]) if cs else '-', 'MDBShardFile::chunk_hash_dedup_query_direct forwards its arguments unchanged to its own shard')
    # keyed_chunk_hash
    k = an(F.body(KEYED))
    hm = k.calls('merklehash::data_hash::DataHash::hmac')
    ne = edges_where(k, lambda op, l, r: op == 'Ne' and l[0] == 'field' and l[2] == 'chunk_hash_hmac_key' and r[0] == 'call' and 'default' in sg(r[1]).lower())
    eq = edges_where(k, lambda op, l, r: op == 'Eq' and l[0] == 'field' and l[2] == 'chunk_hash_hmac_key' and r[0] == 'call' and 'default' in sg(r[1]).lower())
    rs = [(b, si, e) for (b, si, kk, e) in k.ret_sites()]
    ok = len(hm) == 1 and bool(ne) and k.cfg.must_pass(hm[0], via_edges=ne) and flow.mentions(k.arg(hm[0], 1), lambda z: z[0] == 'field' and z[2] == 'chunk_hash_hmac_key')
    ctx.check(ok, 'R05c', KEYED, 'hmac', k.loc(hm[0]) if hm else '-', 'keyed_chunk_hash applies hmac(chunk_hash, shard key) on the non-default-key edge')
    # (the returned value may pass through a variable: expand it into its assignments)
    rs = [(sb if sb is not None else b, ssi if sb is not None else si, se) for (b, si, e) in rs for (sb, ssi, se) in k.flow.sources(e, (b, si))]
    unkeyed = [(b, si) for (b, si, e) in rs if not (hm and k.rooted_at(e, hm[0]))]
    ctx.check(bool(eq) and all(k.cfg.must_pass(b, via_edges=eq) for (b, si) in unkeyed) and len(rs) == 2, 'R05c', KEYED, 'unkeyed only when default', '-', 'the unkeyed hash is returned only on the default-key edge',
              'keyed_chunk_hash can return the unkeyed hash for a keyed shard')


def r05d(ctx):
    a = an(ctx.F.body(LOCAL))
    fn = LOCAL
    gets = [g for g in a.calls('std::collections::hash::map::HashMap::get') if flow.mentions(a.arg(g, 0), lambda z: z[0] == 'field' and z[2] == 'new_data_hash_lookup')]
    ctx.check(len(gets) == 2, 'R05d', fn, 'lookups', '-', 'two lookups in the full-hash map (first hash, per-iteration hash)')
    adt = ctx.F.adt('deduplication::file_deduplication::FileDeduper')
    ty = [f['ty'] for f in adt['variants'][0]['fields'] if f['n'] == 'new_data_hash_lookup']
    ctx.check(bool(ty) and 'HashMap<merklehash::data_hash::DataHash, usize' in ty[0], 'R05d', 'deduplication::file_deduplication::FileDeduper', 'map type', '-', 'the local map is keyed by the full 256-bit hash (type fact)')
    g_loop = [g for g in gets if loop_of(a, g) is not None]
    if not ctx.check(len(g_loop) == 1, 'R05d', fn, 'loop lookup', '-', 'one lookup inside the extension loop'):
        return
    g = g_loop[0]
    lp = loop_of(a, g)
    eff = paths.collect_effects(a, lp[1], lambda k: k[0] if len(k) == 1 else None)
    adds = [(b, e, ln) for b, es in eff.items() for (c, s, t, e, ln) in es if s == 1 and flow.mentions(e, lambda z: z[0] == 'field' and z[2] == 'new_data')]
    eq = edges_where(a, lambda op, l, r: op == 'Eq' and a.rooted_at(l, g) and r[0] == 'bin' and r[1] in ('Add', 'AddO') and a.rooted_at(r[2], [x for x in gets if x != g][0]))
    if ctx.check(len(adds) == 1, 'R05d', fn, 'byte add', '-', 'one byte accumulation in the loop'):
        b, e, ln = adds[0]
        ctx.check(in_iteration_guarded(a, lp, b, eq), 'R05d', fn, 'idx guard', '%s:%d' % (a.body['file'], ln), 'bytes are added only on the edge where the looked-up index == base_idx + i',
                  'the local matcher extends a run with a chunk that is not stored at the next position')
        ie = [z for z in flow.subtrees(e) if z[0] == 'index']
        eq_rhs = []
        edges_where(a, lambda op, l, r: op == 'Eq' and a.rooted_at(l, g) and (eq_rhs.append(r) or False))
        ctx.check(bool(ie) and (a.rooted_at(ie[0][2], g) or (in_iteration_guarded(a, lp, b, eq) and any(flow.eqv(ie[0][2], r_) for r_ in eq_rhs))), 'R05d', fn, 'bytes.of', '%s:%d' % (a.body['file'], ln), 'the bytes added are new_data[idx].data.len() for the looked-up idx',
                  'the bytes added for a matched chunk are not the length of the chunk at the looked-up position (indexed by %s): the reported byte count of the run is wrong' % (flow.show(ie[0][2])[:40] if ie else '?'))
    ctx.check(latches_guarded(a, lp, eq), 'R05d', fn, 'continue guard', a.loc(lp[0]), 'the loop continues only after such a match')


def r05e(ctx):
    """C05d: with a chunk recorded in several xorbs the candidate loop must not pair the longest count with the first
    candidate's entry."""
    a = an(ctx.F.body(WRAP))
    fn = WRAP
    ds = a.calls(DIRECT)
    if not ds:
        # lazy pipeline (`candidates.iter().map(|c| direct(c)).find_map(|r| r.transpose()).transpose()`): the matcher runs in
        # a closure that hands its result on unchanged, and no closure of the function builds an answer of its own
        kids, todo = [], list(ctx.F.children(a.body))
        while todo:
            k_ = todo.pop(0)
            if k_ not in kids:
                kids.append(k_)
                todo += list(ctx.F.children(k_))
        callers = [k_ for k_ in kids if an(k_).calls(DIRECT)]
        okp = bool(callers)
        for k_ in kids:
            ak = an(k_)
            for (_, _, kk, e) in ak.ret_sites():
                if k_ in callers:
                    okp = okp and ak.root_call(e) is not None and sg(ak.root_call(e)[1]) == DIRECT and e[0] == 'call'
                else:
                    okp = okp and not flow.mentions(e, lambda z: z[0] == 'agg' and z[1] == 'tuple')
        rets_ = [e for (_, _, kk, e) in a.ret_sites() if kk != 'err']
        okp = okp and all(not flow.mentions(e, lambda z: z[0] == 'agg' and z[1] == 'tuple') for e in rets_)
        ctx.check(okp, 'R05e', fn, 'matcher calls', '-', 'the matcher runs in a closure of an iterator pipeline that hands its answers on unchanged (no closure or return builds a (count, entry) pair)',
                  'cannot establish: 0 call(s) of the on-disk matcher in the function body, and its closures do not simply hand the matcher\'s answer on')
        return
    ctx.check(True, 'R05e', fn, 'matcher calls', '-', '%d call(s) of the on-disk matcher' % len(ds))

    def whole_answer(e, depth=0):
        """e denotes the complete payload of one matcher call (possibly through a result variable holding whole answers)"""
        if e[0] == 'agg' and e[1] == 'tuple':
            comps = [c for (_, c) in e[3]]
            roots = [a.root_call(c) for c in comps]
            # identity re-assembly `(n, fse)` of one call's own components, in order
            return (len(comps) == 2 and all(r is not None and sg(r[1]) == DIRECT for r in roots) and roots[0][3] == roots[1][3]
                    and all(c[0] == 'field' and c[2] == str(i) and c[1][0] == 'call' for i, c in enumerate(comps)))
        r = a.root_call(e)
        if r is not None and sg(r[1]) == DIRECT and e[0] == 'call':
            return True
        if e[0] == 'local' and depth < 3:
            srcs = a.flow.sources(e)
            if srcs and not (len(srcs) == 1 and srcs[0][2] == e):
                return all(whole_option(se, depth + 1) or whole_answer(se, depth + 1) for (_, _, se) in srcs)
        return False

    def whole_option(e, depth=0):
        if e[0] == 'agg' and e[2].endswith('Option::None'):
            return True
        if e[0] == 'agg' and e[2].endswith('Option::Some') and e[3]:
            return whole_answer(e[3][0][1], depth)
        r = a.root_call(e)
        if r is not None and sg(r[1]) == DIRECT and e[0] == 'call':
            return True         # the matcher's own Option, handed on
        if e[0] == 'local' and depth < 3:
            srcs = a.flow.sources(e)
            if srcs and not (len(srcs) == 1 and srcs[0][2] == e):
                return all(whole_option(se, depth + 1) for (_, _, se) in srcs)
        return False

    n = 0
    for (b, si, k, e) in a.ret_sites():
        if k == 'err':
            continue
        for (sb, ssi, se) in a.flow.sources(e, (b, si)):
            if se[0] == 'agg' and se[2].endswith('Result::Ok') and se[3]:
                n += 1
                ok = whole_option(se[3][0][1])
                ctx.check(ok, 'R05e', fn, 'answer', a.loc(sb if sb is not None else b, ssi if sb is not None else si), 'the value returned is None or the complete answer of one matcher call',
                          'the answer returned is assembled from parts (%s): with a chunk recorded in several xorbs the count and the entry can come from different candidates — a run the named xorb does not contain'
                          % flow.show(se[3][0][1])[:100])
            elif se[0] == 'call' and a.root_call(se) is not None and sg(a.root_call(se)[1]) == DIRECT:
                n += 1
            elif se[0] == 'call' and sg(se[1]).split('::')[-1] == 'from_residual':
                n += 1          # the failing arm of a `?`: an error value, not an answer
            else:
                n += 1
                ctx.check(False, 'R05e', fn, 'answer', a.loc(b, si), '', 'cannot establish that the returned value (%s) is the answer of one matcher call' % flow.show(se)[:80])
    ctx.floor('R05e', 'returned values inspected', n, 2)


def r05f(ctx):
    """C05e: cut_new_xorb stopped clearing new_data_hash_lookup: after a cut the map still holds positions of the previous
    xorb, and the local matcher answers 'these hashes are at chunks [p, p+n) of the pending xorb' from them.
    Obligations over every method of FileDeduper: (1) a body that empties self.new_data empties self.new_data_hash_lookup on
    every path to its return; (2) every insert into the map stores self.new_data.len() and is followed, before the next
    insert or the return, by the push of the chunk with that hash; (3) nothing else writes the map."""
    FD = 'deduplication::file_deduplication::FileDeduper::<DataInterfaceType>::'
    EMPTY = ('clear', 'take', 'drain', 'truncate', 'split_off', 'replace', 'swap')
    n_empty = n_ins = 0
    is_list = lambda z: flow.show(z).endswith('self.new_data')
    is_map = lambda z: flow.show(z).endswith('self.new_data_hash_lookup')
    for p_, b_ in sorted(ctx.F.bodies.items()):
        if not p_.startswith(FD) or b_.get('crate') != 'deduplication':
            continue
        a = an(b_)
        calls = a.calls()
        def nm(c):
            return sg(a.term(c).get('fn', '')).split('::')[-1]
        list_empt = [c for c in calls if nm(c) in EMPTY and a.term(c)['args'] and is_list(a.arg(c, 0))]
        list_empt += [b for (b, si, s_) in a.stores_to_field('new_data')]
        map_empt = [c for c in calls if nm(c) in ('clear', 'take', 'drain') and a.term(c)['args'] and is_map(a.arg(c, 0))]
        map_empt += [b for (b, si, s_) in a.stores_to_field('new_data_hash_lookup')]
        if p_.endswith('::new'):
            continue
        for c in list_empt:
            n_empty += 1
            rets = a.cfg.returns
            ok = bool(map_empt) and all(a.cfg.must_pass(r, via_blocks=map_empt) for r in rets if r in a.cfg.reach([c]) or r == c)
            ctx.check(ok, 'R05f', p_, 'map emptied with the list', a.loc(c), 'where the pending chunk list is emptied the self-reference map is emptied on every path to return',
                      'the pending chunk list is emptied here but the hash -> position map is not: after the cut it still holds positions of the previous xorb and the local dedup query reports chunks the pending xorb does not hold at those positions')
        ins = [c for c in calls if nm(c) == 'insert' and a.term(c)['args'] and is_map(a.arg(c, 0))]
        pushes = [c for c in calls if nm(c) == 'push' and a.term(c)['args'] and is_list(a.arg(c, 0))]
        for c in ins:
            n_ins += 1
            pos = a.arg(c, 2)
            while pos[0] == 'cast':
                pos = pos[1]
            is_len = (pos[0] == 'len' and is_list(pos[1])) or (pos[0] == 'call' and sg(pos[1]).split('::')[-1] == 'len' and is_list(pos[2][0]))
            ctx.check(is_len, 'R05f', p_, 'position entered', a.loc(c), 'a hash is entered with self.new_data.len() as its position',
                      'a hash is entered into the self-reference map with position %s, not the length of the pending chunk list' % flow.show(pos)[:60])
            # the push of that chunk follows before anything else changes the list: no other push/emptying between
            nxt = a.cfg.reach(list(a.cfg.succ[c]), cut_blocks=pushes)
            bad = [x for x in list(a.cfg.returns) + ins + list_empt if x in nxt and x != c] + ([c] if c in nxt else [])
            key = a.arg(c, 1)
            same = [pp for pp in pushes if flow.mentions(key, lambda z: z[0] == 'field' and z[2] == 'hash' and flow.eqv(z[1], a.arg(pp, 1)))]
            ctx.check(bool(same) and not bad, 'R05f', p_, 'push follows', a.loc(c),
                      'the chunk whose hash is entered is pushed next, before another insert, an emptying or the return',
                      'after the hash is entered the function can return, enter another hash or empty the list without having pushed the chunk: the recorded position does not hold that chunk')
            # the position is read before the push: the insert is not reachable from the push of the same iteration without passing the loop head
            lp = loop_of(a, c)
            if lp is not None:
                latches = [(x, lp[0]) for x in lp[1] if lp[0] in a.cfg.succ[x]]
                aft = set()
                for pp in same:
                    aft |= a.cfg.reach(list(a.cfg.succ[pp]), cut_edges=set(latches))
                ctx.check(c not in aft, 'R05f', p_, 'position before push', a.loc(c), 'the position is taken before the chunk is pushed',
                          'the hash is entered after its chunk was pushed: the recorded position is one past the chunk')
        other = [c for c in calls if a.term(c)['args'] and is_map(a.arg(c, 0)) and nm(c) not in ('insert', 'clear', 'get', 'contains_key', 'len', 'is_empty', 'deref', 'take', 'drain', 'iter')]
        ctx.check(not other, 'R05f', p_, 'other map writes', a.loc(other[0]) if other else '-', 'no other operation changes the self-reference map') if (ins or map_empt or other) else None
    ctx.floor('R05f', 'sites that empty the pending chunk list', n_empty, 1)
    ctx.floor('R05f', 'insertions into the self-reference map', n_ins, 1)
