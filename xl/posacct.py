"""Position accounting of a shard writer: the running output position advances by exactly what was written.

A writer function keeps a local position accumulator ACC (its value is stored into the footer's `*_offset` fields) while
it writes records to its writer parameter.  Every write site W (a call that is handed the writer) is classified:

  direct   the byte count W returns (through `?`, a cast) is the addend of an `ACC += ..` statement;
  bulk     W's count is discarded, W runs once in every iteration of a loop L, and a statement `ACC += E`, control-equivalent
           with L (it runs exactly when L runs), has E == trips(L) * sum over the bulk sites of L of size_of(their record)
           (sizes compared by record type; write_u64 / write_u32 count as u64 / u32);
  final    W's count is discarded and ACC is not read any more after W (the footer itself).

Anything else — a discarded count outside a loop while ACC is still read later, a bulk addend that does not match the
loop, an `ACC += E` that is neither — is a violation: some later offset recorded in the footer is not the position of the
bytes it names, and lookups in that shard read the wrong records.
"""
from .core import strip_generics as sg
from . import flow, paths
from . import loops as L

SIZES = {'u64': 8, 'u32': 4, 'hash': 32}
WRITE_PRIMS = {'write_u64': 'u64', 'write_u32': 'u32', 'write_hash': 'hash'}


def learn_sizes(F, crate='mdb_shard'):
    """record sizes, from every size_of::<T>() the crate evaluates (the extractor resolves them with the real layout)"""
    from .core import an
    if getattr(F, '_posacct_sizes', None) is None:
        for p, b in F.bodies.items():
            if b['crate'] != crate:
                continue
            a = an(b)
            for bb in sorted(a.cfg.reach0):
                t = a.blocks[bb]['t']
                if t['k'] == 'call' and t.get('szty') and t.get('sz') is not None:
                    SIZES[sg(t['szty'])] = t['sz']
        F._posacct_sizes = True


def _mul(x, y):
    out = {}
    for (c1, t1), k1 in x.items():
        for (c2, t2), k2 in y.items():
            if (c1 and c2) or (t1 and t2):
                return None
            key = (c1 or c2, t1 or t2)
            out[key] = out.get(key, 0) + k1 * k2
    return {k: v for k, v in out.items() if v}


def _add(x, y):
    out = dict(x)
    for k, v in y.items():
        out[k] = out.get(k, 0) + v
    return {k: v for k, v in out.items() if v}


_DISPLAY = {}


def _key(kind, e):
    k = '%s%r' % (kind, (e,))
    _DISPLAY[k] = ('len(%s)' % flow.show(e)) if kind == 'len' else flow.show(e)
    return k


def count_key(e):
    """canonical identity of a count expression (casts stripped; len(v) keyed by v, call sites included so that two
    vectors built by the same constructor stay distinct)"""
    while e[0] == 'cast':
        e = e[1]
    if e[0] == 'len':
        return _key('len', e[1])
    if e[0] == 'call' and sg(e[1]).split('::')[-1] == 'len' and len(e[2]) == 1:
        return _key('len', e[2][0])
    return _key('', e)


def disp(k):
    return _DISPLAY.get(k, k) if k else k


def poly(e):
    """{(count key | None, record type | None): coeff} or None"""
    while e[0] == 'cast':
        e = e[1]
    if e[0] == 'const' and isinstance(e[1], int):
        return {(None, None): e[1]} if e[1] else {}
    if e[0] == 'sizeof':
        if e[2] is not None:
            SIZES[sg(e[1])] = e[2]
            return {(None, None): e[2]}
        return {(None, sg(e[1])): 1}
    if e[0] == 'field' and e[2] == '0' and e[1][0] == 'bin' and e[1][1] in ('AddO', 'MulO'):
        e = ('bin', e[1][1][:-1], e[1][2], e[1][3])
    if e[0] == 'bin' and e[1] in ('Add', 'AddO', 'Mul', 'MulO'):
        x, y = poly(e[2]), poly(e[3])
        if x is None or y is None:
            return None
        return _add(x, y) if e[1].startswith('Add') else _mul(x, y)
    if e[0] in ('local', 'field', 'call', 'len', 'param', 'upvar'):
        return {(count_key(e), None): 1}
    return None


def show_poly(p):
    if p is None:
        return '?'
    parts = []
    for (c, t), k in sorted(p.items(), key=str):
        s = ' * '.join(x for x in ((str(k) if k != 1 or not (c or t) else ''), disp(c) or '', ('size_of(%s)' % t.split('::')[-1]) if t else '') if x)
        parts.append(s)
    return ' + '.join(parts) or '0'


class Acct:
    def __init__(self, a, writer_pred, acc_name):
        self.a = a
        self.is_writer = writer_pred
        self.acc = acc_name
        self.viol = []      # (block, si|None, text)
        self.stats = dict(direct=0, bulk=0, final=0, loops=0, adds=0)

    def write_sites(self):
        a = self.a
        out = []
        for c in a.calls():
            t = a.term(c)
            nm = sg(t.get('fn', '')).split('::')[-1]
            if nm.startswith('deserialize') or nm in ('seek', 'flush', 'stream_position', 'rewind'):
                continue
            if any(self.is_writer(a.arg(c, i)) for i in range(len(t['args']))):
                ty = WRITE_PRIMS.get(nm)
                if ty is None and nm.startswith('serialize'):
                    ty = sg(t.get('fn', '')).rsplit('::', 1)[0]
                out.append((c, ty, nm))
        return out

    def acc_adds(self):
        a = self.a
        out = []
        for b in sorted(a.cfg.reach0):
            for si, st in enumerate(a.blocks[b]['s']):
                u = paths.additive_update(a, st)
                if u and u[0] == (self.acc,) and u[1] == 1:
                    out.append((b, si, u[2]))
        return out

    def acc_reads_after(self, block):
        """is ACC read (stored to a footer field, or added to) on some path after `block`?"""
        a = self.a
        r = a.cfg.reach_after([block])
        for b in r:
            for si, st in enumerate(a.blocks[b]['s']):
                rv = st.get('r')
                if rv and flow.mentions(a.flow.rvalue(rv, 0), lambda z: z[0] == 'local' and z[2] == self.acc):
                    return True
        return False

    def acc_stored_between(self, b, si, head):
        """is ACC copied somewhere (a footer offset) after the statement (b, si) and before the loop at `head` starts?"""
        a = self.a
        r = a.cfg.reach(list(a.cfg.succ[b]), cut_blocks=[head]) | {b}
        for bb in r:
            for sj, st in enumerate(a.blocks[bb]['s']):
                if bb == b and sj <= si:
                    continue
                rv = st.get('r')
                if rv and rv['k'] in ('use', 'cast'):
                    e = a.flow.rvalue(rv, 0)
                    if e[0] == 'local' and e[2] == self.acc and 'p' in st['d']:
                        return True
        return False

    def inevitable(self, starts, dst, src_blocks):
        """from `starts`, every path that neither fails nor ends passes `dst` before it returns or re-enters src_blocks"""
        a = self.a
        r = a.cfg.reach(list(starts), cut_blocks=[dst])
        fail = a.failing_blocks()
        rets = set(a.cfg.returns)
        return not ((r & rets) - fail) and not (r & set(src_blocks))

    def run(self):
        a = self.a
        for b in sorted(a.cfg.reach0):
            for st in a.blocks[b]['s']:
                if st.get('r'):
                    for z in flow.subtrees(a.flow.rvalue(st['r'], 0)):
                        if z[0] == 'sizeof' and z[2] is not None:
                            SIZES[sg(z[1])] = z[2]
        # -- the accumulator family: ACC and every local whose total is added into a member ("n_bytes" of an inlined
        #    helper that returns the bytes it wrote)
        family = {self.acc}
        transfers = {}          # member -> [(block, si)] statements `other member += member`
        changed = True
        while changed:
            changed = False
            for b in sorted(a.cfg.reach0):
                for si, st in enumerate(a.blocks[b]['s']):
                    u = paths.additive_update(a, st)
                    if not u or len(u[0]) != 1 or u[0][0] not in family or u[1] != 1:
                        continue
                    x = u[2]
                    while x[0] == 'cast':
                        x = x[1]
                    if x[0] == 'local' and x[2] and x[2] not in family and self.is_counter(x[1]):
                        family.add(x[2])
                        changed = True
                    if x[0] == 'local' and x[2] in family and x[2] != u[0][0]:
                        transfers.setdefault(x[2], set()).add((b, si))
        self.family = family
        adds = []
        for b in sorted(a.cfg.reach0):
            for si, st in enumerate(a.blocks[b]['s']):
                u = paths.additive_update(a, st)
                if u and len(u[0]) == 1 and u[0][0] in family and u[1] == 1 and (b, si) not in {t for ts in transfers.values() for t in ts}:
                    adds.append((b, si, u[2]))
        self.stats['adds'] = len(adds)
        # other places where a count can enter the position: a non-additive definition of a member (`let mut pos =
        # header.serialize(w)?`) and a final expression `pos + last.serialize(w)?` that is returned or stored
        inits = []
        for b in sorted(a.cfg.reach0):
            for si, st in enumerate(a.blocks[b]['s']):
                d = st.get('d')
                if d and 'p' not in d and a.flow.lname(d['l']) in family and st.get('r') and not paths.additive_update(a, st):
                    inits.append(a.flow.rvalue(st['r'], 0))
        finals = [e for (_, _, _, e) in a.ret_sites() if flow.mentions(e, lambda z: z[0] == 'local' and z[2] in family)]
        for (rb, rsi, _, e) in a.ret_sites():
            for (_, _, se) in a.flow.sources(e, (rb, rsi)):
                if flow.mentions(se, lambda z: z[0] == 'local' and z[2] in family):
                    finals.append(se)
        # a sub-accumulator must be handed on before the function returns normally
        fail = a.failing_blocks()
        rets = set(a.cfg.returns)
        for m in sorted(family - {self.acc}):
            ts = transfers.get(m, set())
            madds = [(b, si) for (b, si, x) in adds if paths.additive_update(a, a.blocks[b]['s'][si])[0] == (m,)]
            for (b, si) in madds:
                r = a.cfg.reach(list(a.cfg.succ[b]), cut_blocks=[tb for (tb, _) in ts])
                if not ts or ((r & rets) - fail):
                    self.viol.append((b, si, 'bytes counted in %s here are not added to the output position %s on every path before the function returns' % (m, self.acc)))
                    break
        sites = self.write_sites()
        direct_adds = set()
        bulk_sites = {}     # loop head -> [(c, ty)]
        mentions_site = lambda e, c: a.err_rooted_at(e, c) or flow.mentions(e, lambda z: z[0] == 'call' and len(z) > 3 and z[3] == c)
        for (c, ty, nm) in sites:
            hit = [(b, si) for (b, si, x) in adds if mentions_site(x, c)]
            if hit or any(mentions_site(e, c) for e in inits) or any(mentions_site(e, c) for e in finals):
                # the count this write returned enters the position: same iteration, nothing to pair
                self.stats['direct'] += 1
                direct_adds.update(hit)
                continue
            lp = L._loop_of(a, c)
            if lp is not None and L.every_iteration_passes(a, lp, c) and ty is not None:
                bulk_sites.setdefault(lp[0], []).append((c, ty))
                continue
            if not self.acc_reads_after(c):
                self.stats['final'] += 1
                continue
            self.viol.append((c, None, 'the bytes written by %s here are not added to the output position %s (its count is discarded%s), but %s is recorded in the footer later'
                              % (nm, self.acc, '' if lp is None else ' and the write does not run in every iteration of its loop', self.acc)))
        bulk_adds = [(b, si, x) for (b, si, x) in adds if (b, si) not in direct_adds]
        used = set()
        loops = a.cfg.loops()
        for head, ss in sorted(bulk_sites.items()):
            self.stats['loops'] += 1
            blks = loops[head]
            lp = (head, blks)
            trips = self.trip_count(lp)
            exp, per_iter = {}, {}
            for (c, ty) in ss:
                k_ = (trips, None) if ty in SIZES else (trips, ty)
                exp[k_] = exp.get(k_, 0) + (SIZES[ty] if ty in SIZES else 1)
                k2 = (None, None) if ty in SIZES else (None, ty)
                per_iter[k2] = per_iter.get(k2, 0) + (SIZES[ty] if ty in SIZES else 1)
            # (a) counted inside the loop, once per iteration, by a constant equal to what the iteration writes
            inside = [(b, si, x) for (b, si, x) in bulk_adds if b in blks and L._loop_of(a, b)[0] == head and L.every_iteration_passes(a, lp, b)]
            good_in = [cd for cd in inside if poly(cd[2]) == per_iter]
            if good_in:
                self.stats['bulk'] += len(ss)
                used.update((cd[0], cd[1]) for cd in good_in[:1])
                continue
            exits = [y for (x, y) in L._exits(a, blks)]
            cands = []
            for (b, si, x) in bulk_adds:
                if b in blks:
                    continue
                after = a.cfg.dominates(head, b) and self.inevitable(exits, b, blks)
                before = a.cfg.dominates(b, head) and self.inevitable(list(a.cfg.succ[b]), head, [b]) and head not in a.cfg.reach(exits, cut_blocks=[b]) \
                    and not self.acc_stored_between(b, si, head)
                if after or before:
                    cands.append((b, si, x))
            good = [cd for cd in cands if trips is not None and poly(cd[2]) == exp]
            if good:
                self.stats['bulk'] += len(ss)
                used.add((good[0][0], good[0][1]))
                continue
            c0 = ss[0][0]
            per = ' + '.join('size_of(%s)' % t.split('::')[-1] for (_, t) in ss)
            cands = cands or inside
            if cands:
                self.viol.append((cands[0][0], cands[0][1], 'the loop at line %d writes %s bytes in each of its %s iterations without counting them, and the output position %s is advanced by %s for it: every later offset in the footer is off by the difference'
                                  % (a.line(c0), per, disp(trips) or '?', self.acc, show_poly(poly(cands[0][2])))))
                used.add((cands[0][0], cands[0][1]))
            else:
                self.viol.append((c0, None, 'the loop at line %d writes %s bytes per iteration without counting them and no `%s += ..` runs exactly when the loop runs' % (a.line(c0), per, self.acc)))
        for (b, si, x) in bulk_adds:
            if (b, si) not in used:
                self.viol.append((b, si, 'the output position %s is advanced by %s, which is neither the byte count returned by a write nor the total of a loop of uncounted writes' % (self.acc, show_poly(poly(x)) if poly(x) is not None else flow.show(x)[:60])))
        return self

    def is_counter(self, l):
        """a local that starts at a constant (or a write count) and is otherwise only added to"""
        a = self.a
        ds = a.flow.defs.get(l, [])
        if not ds:
            return False
        for d in ds:
            if d[0] != 'assign':
                return False
            st = a.blocks[d[1]]['s'][d[2]]
            if paths.additive_update(a, st):
                continue
            e = a.flow.rvalue(d[3], 0)
            if e[0] == 'const':
                continue
            return False
        return True

    def trip_count(self, lp):
        a = self.a
        head, blks = lp
        # for _ in 0..n  /  for j in 0..n : Range iterator
        nx = [c for c in a.calls('core::iter::traits::iterator::Iterator::next') if c in blks and L._loop_of(a, c)[0] == head]
        if len(nx) == 1:
            it = a.arg(nx[0], 0)
            for (_, _, e) in a.flow.sources(it):
                z = e
                if z[0] == 'call' and sg(z[1]).split('::')[-1] == 'into_iter' and len(z[2]) == 1:
                    z = z[2][0]
                if z[0] == 'agg' and 'ops::range::Range' in z[2]:
                    d = dict(z[3])
                    st = d.get('start')
                    if st is not None and st[0] == 'const' and st[1] == 0 and d.get('end') is not None:
                        return count_key(d['end'])
                    continue
                if z[0] == 'call' and sg(z[1]).split('::')[-1] in ('iter', 'iter_mut', 'drain') and len(z[2]) >= 1:
                    z = z[2][0]
                if z[0] in ('local', 'field', 'call', 'param'):
                    return _key('len', z)
        c = L.counting_loop(a, lp, lambda y: True)
        if c is not None and c.get('bound') is not None:
            return count_key(c['bound'])
        return None
