"""C17 — reconstruction writes exactly the requested bytes at the right offsets (structural clauses only).

Decided here (each a necessary condition of the stated behaviour; the arithmetic values themselves are not decided):

  R17a  parallel planner: the byte range handed to write_term is [S, E); the output-offset accumulator ACC advances by
        exactly E - S and the budget REM shrinks by exactly E - S; the file offset handed on is ACC *before* that advance;
        E is bounded by S + REM (REM before it shrinks); S is non-zero only for the first term (index == 0).
  R17b  write_term: the writer is opened at the file_offset parameter, the slice written is term_data[term_range], the
        reported length is term_range.end - term_range.start, flush lies on every path to the success return, the range
        is indexed only where end <= len was established, and every fallible step propagates its error.
  R17c  sequential writer: one writer opened at 0; per term the slice written is term_data[S..E], REM shrinks by E - S,
        E <= S + REM (REM before it shrinks), S non-zero only for the first term, flush before success, errors
        propagate, and the reported total is the value REM started from.
  R17d  get_one_term: the fetch range is chosen only if it contains the term's chunk range; the trim indexes the
        chunk offset table at (term.range.X - fetch.range.start); the byte cut applied to the data uses those two
        offsets with the end cut before the start cut (or one slice [start..end]); the cache is filled with the whole
        fetched range *before* the data is trimmed, under the term's xorb hash; the cold success return lies behind the
        length check against term.unpacked_length; the warm path asks the cache for exactly (term.hash, term.range).
  R17e  both planners compute the requested total the same way: range.end - range.start of the byte range, else the
        sum of the terms' unpacked_length.
"""
from .core import an, strip_generics as sg, edges_where, propagation
from . import flow, paths

EXPLANATION = (
    'Decides structural necessary conditions of reconstruction: (R17a) in the parallel planner the offset accumulator advances and the budget shrinks by exactly the length of the '
    'range handed to write_term, the file offset handed on is the accumulator before the advance, the range end is bounded by start + budget, and a non-zero start is used only for '
    'term 0; (R17b) write_term opens the writer at its file_offset parameter, writes term_data[term_range], reports end - start, flushes before success, indexes only behind the '
    'end <= len guard and propagates every error; (R17c) the sequential writer obeys the same accounting with one writer opened at 0 and reports the total its budget started from; '
    '(R17d) get_one_term selects a fetch range only if it contains the term range, trims by offsets looked up at (term.range.x - fetch.range.start) with the end cut first, fills the '
    'cache before trimming under the term hash and the fetched range, returns cold data only behind the unpacked_length check, and asks the cache for exactly (term.hash, term.range); '
    '(R17e) both planners derive the requested total identically. Not decided: the numeric equality of output and plan, equality of the two planners on values, the warm path\'s data '
    '(C12), task completion orders (offsets are fixed before the tasks are spawned, which R17a decides).')

RC = 'cas_client::remote_client::'
PAR = RC + 'RemoteClient::reconstruct_file_to_writer_parallel'
SEQ = RC + 'RemoteClient::reconstruct_file_to_writer'
WT = RC + 'TermWriteTask::write_term'
GOT = RC + 'get_one_term'


def run(ctx):
    ctx.rule('R17a', 'parallel planner: offset accumulator and budget move by exactly the length of the range handed to write_term; offset handed on is the pre-advance accumulator; end <= start + budget; non-zero start only for term 0')
    ctx.rule('R17b', 'write_term: writer at file_offset, slice = term_data[term_range], reported length = end - start, flush before success, guarded indexing, errors propagate')
    ctx.rule('R17c', 'sequential writer: one writer at 0, slice = term_data[S..E], budget shrinks by E - S, E <= S + budget, non-zero S only for term 0, flush before success, errors propagate, reported total = initial budget')
    ctx.rule('R17d', 'get_one_term: containing fetch range, trim by table offsets relative to the fetch range (end cut first), cache filled before trimming with the fetched range, cold return behind the length check, warm lookup by (term.hash, term.range)')
    ctx.rule('R17e', 'both planners: requested total = range.end - range.start, else the sum of unpacked_length')
    ctx.guarded('R17a', PAR, lambda: r17a(ctx))
    ctx.guarded('R17b', WT, lambda: r17b(ctx))
    ctx.guarded('R17c', SEQ, lambda: r17c(ctx))
    ctx.guarded('R17d', GOT, lambda: r17d(ctx))
    ctx.guarded('R17e', PAR, lambda: r17e(ctx))


# ---------------------------------------------------------------------------------------------------------------------
# helpers
def uncast(e):
    while e[0] == 'cast':
        e = e[1]
    return e


def lin(e, sign=1, out=None):
    """linear form over Add/Sub with casts and checked-arithmetic wrappers removed: {atom expr: coefficient}; constants under key None"""
    out = {} if out is None else out
    e = uncast(e)
    if e[0] == 'field' and e[2] == '0' and e[1][0] == 'bin' and e[1][1] in ('AddO', 'SubO'):
        e = ('bin', e[1][1][:-1], e[1][2], e[1][3])
    if e[0] == 'bin' and e[1] in ('Add', 'Sub'):
        lin(e[2], sign, out)
        lin(e[3], sign if e[1] == 'Add' else -sign, out)
        return out
    if e[0] == 'const' and isinstance(e[1], int):
        out[None] = out.get(None, 0) + sign * e[1]
        return out
    if e[0] == 'call' and sg(e[1]).split('::')[-1] == 'max' and len(e[2]) == 2:
        # max(0, x) on an unsigned value is x
        z = [uncast(x) for x in e[2]]
        nz = [x for x in z if not (x[0] == 'const' and x[1] == 0)]
        if len(nz) == 1:
            return lin(nz[0], sign, out)
    k = _atom(e)
    out[k] = out.get(k, 0) + sign
    return out


def _strip_sites(e):
    """expression with call-site ordinals removed so that two reads of the same thing compare equal"""
    if isinstance(e, tuple):
        if e and e[0] == 'call':
            return ('call', sg(e[1]), tuple(_strip_sites(x) for x in e[2]))
        if e and e[0] == 'cast':
            return _strip_sites(e[1])
        return tuple(_strip_sites(x) for x in e)
    if isinstance(e, list):
        return tuple(_strip_sites(x) for x in e)
    return e


def _atom(e):
    return _strip_sites(e)


def lin_eq(x, y):
    d = dict(x)
    for k, v in y.items():
        d[k] = d.get(k, 0) - v
    return all(v == 0 for v in d.values())


def lin_sub(x, y):
    d = dict(x)
    for k, v in y.items():
        d[k] = d.get(k, 0) - v
    return {k: v for k, v in d.items() if v}


def range_parts(e):
    """(start, end) of a Range aggregate expression"""
    e = uncast(e)
    if e[0] == 'agg' and sg(e[2]).endswith('Range') or (e[0] == 'agg' and 'ops::range::Range' in e[2]):
        d = dict(e[3])
        if 'start' in d and 'end' in d:
            return d['start'], d['end']
    return None


def updates(a, blocks=None):
    """[(place key, sign, addend, (b, si))] additive updates in the body"""
    out = []
    for b in sorted(a.cfg.reach0):
        if blocks is not None and b not in blocks:
            continue
        for si, st in enumerate(a.blocks[b]['s']):
            u = paths.additive_update(a, st)
            if u:
                out.append((u[0], u[1], u[2], (b, si)))
    return out


def _ops(r):
    k = r.get('k')
    if k in ('use', 'cast', 'un'):
        return [r['a']]
    if k in ('bin', 'cbin'):
        return [r['a'], r['b']]
    return []


def reads(a, key):
    """[(b, si)] statements (si None = terminator argument) that read the place with this key directly"""
    out = []
    for b in sorted(a.cfg.reach0):
        blk = a.blocks[b]
        for si, st in enumerate(blk['s']):
            r = st.get('r')
            if not r:
                continue
            for o in _ops(r):
                p = o.get('cp') or o.get('mv')
                if p is not None and (('p' in p) or a.flow.lname(p['l'])) and paths.place_key(a, p) == key:
                    out.append((b, si))
        t = blk['t']
        if t['k'] == 'call':
            for o in t['args']:
                p = o.get('cp') or o.get('mv')
                if p is not None and (('p' in p) or a.flow.lname(p['l'])) and paths.place_key(a, p) == key:
                    out.append((b, 10 ** 6))
    return out


def precedes(a, r, u):
    """site r is executed before site u within one pass (back edges cut) and never after it"""
    if r[0] == u[0]:
        return r[1] < u[1]
    be = set(a.cfg.back_edges())
    after = a.cfg.reach([s_ for s_ in a.cfg.succ[u[0]] if (u[0], s_) not in be], cut_edges=be)
    return r[0] not in after


def reads_precede(ctx, rid, a, key, usite, what):
    rs = [r for r in reads(a, key) if r != usite]
    bad = [r for r in rs if not precedes(a, r, usite)]
    ctx.check(bool(rs) and not bad, rid, a.path, 'read of %s after its update' % what, a.loc(bad[0][0], bad[0][1] if bad and bad[0][1] < 10 ** 6 else None) if bad else a.loc(usite[0], usite[1]),
              'every use of %s in a pass (%d) reads it before the pass updates it' % (what, len(rs)),
              '%s is read after it was updated in the same pass: the value used (offset or budget) already includes this term' % what)
    return rs


def upper_bounds(a, S, E):
    """linear forms u with E <= S + u evident from E's construction (min of two values, or S + min(..))"""
    from .core import as_min
    out = []
    Eu = uncast(E)
    m = as_min(a, Eu)
    if m:
        for z in m:
            out.append(lin_sub(lin(z), lin(S)))
        return out
    d = lin_sub(lin(Eu), lin(S))
    if len(d) == 1:
        (k, v), = d.items()
        if v == 1 and isinstance(k, tuple) and k and k[0] == 'call' and k[1].split('::')[-1] == 'min':
            for z in k[2]:
                out.append({z: 1})
    return out


def key_atom(a, key):
    """the atom a read of the place `key` shows up as in a linear form"""
    return key


def place_of_atom(k):
    """place key of an atom produced by lin()"""
    if not isinstance(k, tuple):
        return None
    return paths.expr_place_key(k)


def first_term_only(ctx, rid, a, S, what='start'):
    """S is const 0 except behind an `index == 0` edge"""
    srcs = a.flow.sources(S) if S[0] == 'local' else [(None, None, S)]
    nz = [(b, si, e) for (b, si, e) in srcs if not (uncast(e)[0] == 'const' and uncast(e)[1] == 0)]
    z = [s for s in srcs if s not in nz]
    is0 = lambda x: uncast(x)[0] == 'const' and uncast(x)[1] == 0
    eq0 = edges_where(a, lambda op, l, r: op == 'Eq' and ((is0(r) and not is0(l)) or (is0(l) and not is0(r))))
    sw_idx = []
    for b_ in sorted(a.cfg.reach0):
        t_ = a.blocks[b_]['t']
        if t_['k'] == 'switch' and t_.get('dty') in ('usize', 'u64', 'u32', 'isize', 'i64', 'i32') and not t_.get('ex'):
            for (v_, tgt_) in t_['ts']:
                if str(v_) == '0' and any(b is not None and a.cfg.must_pass(b, via_edges=[(b_, tgt_)]) for (b, si, e) in nz):
                    de_ = a.flow.expr(t_['d'])
                    if de_[0] in ('discr', 'discriminant') or flow.show(de_).startswith('discr('):
                        continue
                    eq0 = list(eq0) + [(b_, tgt_)]
                    sw_idx.append(de_)
    ok = bool(nz) and bool(z) and bool(eq0) and all(b is not None and a.cfg.must_pass(b, via_edges=eq0) for (b, si, e) in nz)
    site = '-'
    for (b, si, e) in nz:
        if b is not None:
            site = a.loc(b, si)
    ctx.check(ok, rid, a.path, 'first-term offset', site,
              'the %s of the written range is 0 except behind an `index == 0` edge, where it is the offset into the first term (%d/%d source(s))' % (what, len(nz), len(srcs)),
              'the %s of the written range is not (0 for every term but the first, the first-term offset behind `index == 0`): %s' % (
                  what, '; '.join(flow.show(e)[:60] for (_, _, e) in srcs)))
    # the index compared with 0 counts the terms of the whole plan (seed C17a: an index restarted per batch applied the first-term offset again)
    from .core import cond_edges
    idxs = []
    for (x, y) in eq0:
        ce = cond_edges(a, x)
        if ce:
            idxs += [z for z in (ce[1], ce[2]) if not is0(z)]
    idxs += sw_idx
    if idxs:
        bad = [z for z in idxs if not _global_index(ctx.F, a, uncast(z))]
        ctx.check(not bad, rid, a.path, 'plan-wide index', site, 'the index tested against 0 numbers the terms of the whole plan (one enumeration / counter started outside every loop)',
                  'the index tested against 0 (%s) does not number the terms of the whole plan (it restarts inside a loop): the first-term offset is applied to later terms as well' % (flow.show(bad[0])[-70:] if bad else ''))
    # the non-zero source is a captured / parameter value, not something derived from the term or the accumulators
    for (b, si, e) in nz:
        ls = [k for k in lin(e) if k is not None]
        ctx.check(all(isinstance(x, tuple) and x[0] in ('upvar', 'param') for x in ls) and bool(ls), rid, a.path, 'first-term offset source', a.loc(b, si) if b is not None else '-',
                  'the first-term start is a value handed to the planner (%s)' % flow.show(e)[:60])


def _in_loop(a, b):
    return any(b in blks for blks in a.cfg.loops().values())


def _recv_chain_calls(a, operand, name, depth=0):
    """blocks of the calls named `name` in the chain of adaptor calls that produced this operand (raw def chain; iterator adaptors are
    transparent in the expression view)"""
    p = operand.get('mv') or operand.get('cp')
    if p is None or 'p' in p or depth > 8:
        return []
    ds = a.flow.defs.get(p['l'], [])
    if len(ds) != 1:
        return []
    d = ds[0]
    if d[0] == 'call':
        t = d[2]
        here = [d[1]] if sg(t.get('fn', '')).split('::')[-1] == name else []
        return here + (_recv_chain_calls(a, t['args'][0], name, depth + 1) if t['args'] else [])
    if d[0] == 'assign' and d[3].get('k') == 'use':
        return _recv_chain_calls(a, d[3]['a'], name, depth + 1)
    return []


def _global_index(F, a, z):
    """z counts the elements of one whole iteration: an enumerate() created outside every loop, a counter initialised outside every loop, or the
    index component of the argument of a per-element closure that is mapped over such an enumerate"""
    enum = []
    flow.mentions(z, lambda y: y[0] == 'call' and sg(y[1]).split('::')[-1] == 'enumerate' and (enum.append(y[-1]) or False))
    if enum:
        return all(not _in_loop(a, b) for b in enum)
    if z[0] == 'local':
        ds = a.flow.defs.get(z[1], [])
        inits = [d for d in ds if d[0] == 'assign' and not paths.additive_update(a, a.blocks[d[1]]['s'][d[2]])]
        incs = [d for d in ds if d[0] == 'assign' and paths.additive_update(a, a.blocks[d[1]]['s'][d[2]])]
        if inits and incs and all(not _in_loop(a, d[1]) for d in inits):
            return True
        srcs = a.flow.sources(z)
        if srcs and all(se != z for (_, _, se) in srcs):
            return all(_global_index(F, a, uncast(se)) for (_, _, se) in srcs)
        return False
    base = z
    while base[0] in ('field', 'cast', 'ref', 'deref', 'variant'):
        base = base[1]
    if base[0] == 'local':
        en = _recv_chain_calls(a, {'cp': {'l': base[1]}}, 'enumerate')
        return bool(en) and all(not _in_loop(a, b) for b in en)
    if base[0] == 'param':
        par = F.bodies.get(a.body.get('qparent'))
        if par is None:
            return False
        pa = an(par)
        for c in pa.calls():
            t = pa.term(c)
            for i in range(1, len(t['args'])):
                e = uncast(pa.arg(c, i))
                if e[0] == 'agg' and e[1] == 'closure' and e[2] == a.path:
                    en = []
                    flow.mentions(pa.arg(c, 0), lambda y: y[0] == 'call' and sg(y[1]).split('::')[-1] == 'enumerate' and (en.append(y[-1]) or False))
                    if not en:
                        en = _recv_chain_calls(pa, t['args'][0], 'enumerate')
                    return bool(en) and all(not _in_loop(pa, b) for b in en) and not _in_loop(pa, c)
        return False
    return False


def bodies_under(F, root):
    return [b for p, b in sorted(F.bodies.items()) if p == root or p.startswith(root + '::{')]


# ---------------------------------------------------------------------------------------------------------------------
def r17a(ctx):
    F = ctx.F
    sites = []
    for b in bodies_under(F, PAR):
        a = an(b)
        for c in a.calls(WT):
            sites.append((a, c))
    if not ctx.check(len(sites) >= 1, 'R17a', PAR, 'write_term call', '-', '%d call(s) of write_term under the parallel planner' % len(sites)):
        return
    ctx.floor('R17a', 'write_term call sites in the parallel planner', len(sites), 1)
    # write_term is called from nowhere else
    allsites = ctx.cg.call_sites(WT)
    outside = [(b['qpath'], bi) for (b, bi) in allsites if not (b['qpath'] == PAR or b['qpath'].startswith(PAR + '::{'))]
    ctx.check(not outside, 'R17a', PAR, 'other callers', '-', 'write_term is called only by the parallel planner', 'write_term is also called from %s' % (outside[0][0] if outside else ''))
    for (a, c) in sites:
        fn = a.path
        rp = range_parts(a.arg(c, 2))
        if not ctx.check(rp is not None, 'R17a', fn, 'range', a.loc(c), 'the term range handed to write_term is built here as start..end'):
            continue
        S, E = rp
        want = lin_sub(lin(E), lin(S))
        # the planner step: the innermost loop around the call when the planner is an explicit loop, else the whole (per-term closure) body
        lps_ = [lp for lp in a.cfg.loops().items() if c in lp[1]]
        ups = updates(a, min(lps_, key=lambda l: len(l[1]))[1] if lps_ else None)
        plus = [u for u in ups if u[1] == 1]
        minus = [u for u in ups if u[1] == -1]
        # the file offset
        off = uncast(a.arg(c, 3))
        offkey = paths.expr_place_key(off)
        acc = [u for u in plus if u[0] == offkey]
        if ctx.check(offkey is not None and len(acc) == 1, 'R17a', fn, 'offset accumulator', a.loc(c),
                     'the file offset handed to write_term is the running accumulator %s, advanced once per term' % (offkey,),
                     'the file offset handed to write_term (%s) is not a running accumulator advanced exactly once per term in the planner' % flow.show(off)[:80]):
            u = acc[0]
            ctx.check(lin_eq(lin(u[2]), want), 'R17a', fn, 'offset advance', a.loc(*u[3]),
                      'the accumulator advances by end - start of the range handed to write_term',
                      'the output offset advances by %s, but the range handed to write_term has length %s: later terms land at the wrong offset' % (flow.show(u[2])[:80], flow.show(('bin', 'Sub', E, S))[:100]))
            reads_precede(ctx, 'R17a', a, offkey, u[3], 'the offset accumulator')
        # the budget
        bnds = upper_bounds(a, S, E)
        rem = [u for u in minus if any(len(bd) == 1 and list(bd.values()) == [1] and place_of_atom(list(bd.keys())[0]) == u[0] for bd in bnds)]
        if ctx.check(len(rem) == 1, 'R17a', fn, 'budget', a.loc(c),
                     'end is bounded by start + the remaining budget, and the budget is decreased once per term',
                     'cannot establish that the range end is bounded by start + a remaining-bytes budget that is decreased once per term (bounds seen: %s)' % (
                         '; '.join(str(sorted((flow.show(k) if isinstance(k, tuple) else str(k))[:40] for k in bd)) for bd in bnds) or 'none')):
            u = rem[0]
            ctx.check(lin_eq(lin(u[2]), want), 'R17a', fn, 'budget decrease', a.loc(*u[3]),
                      'the budget decreases by end - start of the range handed to write_term',
                      'the remaining budget decreases by %s, not by the length of the range handed on: the requested byte range is over- or under-filled' % flow.show(u[2])[:80])
            reads_precede(ctx, 'R17a', a, u[0], u[3], 'the remaining budget')
        other = [u for u in ups if u not in acc and u not in rem and not (uncast(u[2])[0] == 'const')]
        ctx.check(not other, 'R17a', fn, 'other updates', a.loc(*other[0][3]) if other else '-', 'no other running value is updated in the planner step')
        first_term_only(ctx, 'R17a', a, S)
        # the term handed on is the closure's own term, the offset arithmetic uses its length
        ctx.check(any(any(isinstance(k, tuple) and flow.mentions(k, lambda z: z[0] == 'field' and z[-1] == 'unpacked_length') for k in bd) for bd in bnds), 'R17a', fn, 'term bound', a.loc(c),
                  'end is also bounded by the term\'s unpacked_length')


def _one_call(ctx, rid, a, name, what):
    cs = a.calls(name)
    if not ctx.check(len(cs) == 1, rid, a.path, what, a.loc(cs[0]) if cs else '-', 'one %s call' % what, 'expected one %s call, found %d' % (what, len(cs))):
        return None
    return cs[0]


def r17b(ctx):
    F = ctx.F
    a = an(F.body(WT + '::{closure#0}'))
    fn = a.path
    gw = _one_call(ctx, 'R17b', a, 'cas_client::interface::OutputProvider::get_writer_at', 'get_writer_at')
    wa = _one_call(ctx, 'R17b', a, 'std::io::Write::write_all', 'write_all')
    fl = _one_call(ctx, 'R17b', a, 'std::io::Write::flush', 'flush')
    got = _one_call(ctx, 'R17b', a, GOT, 'get_one_term')
    if None in (gw, wa, fl, got):
        return
    off = uncast(a.arg(gw, 1))
    ctx.check(off[0] in ('upvar', 'param'), 'R17b', fn, 'writer offset', a.loc(gw),
              'the writer is opened at the file_offset parameter', 'the writer is opened at %s, not at the file_offset parameter' % flow.show(off)[:80])
    ctx.check(a.rooted_at(a.arg(wa, 0), gw) and a.rooted_at(a.arg(fl, 0), gw), 'R17b', fn, 'writer', a.loc(wa), 'write_all and flush act on the writer opened at file_offset')
    data = a.arg(wa, 1)
    d = uncast(data)
    while d[0] in ('ref', 'deref'):
        d = d[1]
    if d[0] == 'index' and range_parts(d[2]) is not None:
        s_, e_ = [_path(uncast(z_)) for z_ in range_parts(d[2])]
        if s_[1] == ('start',) and e_[1] == ('end',) and _strip_sites(s_[0]) == _strip_sites(e_[0]) and s_[0][0] in ('upvar', 'param'):
            d = ('index', d[1], s_[0])
    ok = d[0] == 'index' and a.rooted_at(d[1], got) and uncast(d[2])[0] in ('upvar', 'param')
    if not ctx.check(ok, 'R17b', fn, 'slice written', a.loc(wa), 'the bytes written are term_data[term_range] (the fetched term indexed by the range parameter)',
                     'the bytes written are %s, not the fetched term data indexed by the term_range parameter' % flow.show(data)[:100]):
        return
    rng = uncast(d[2])
    # reported length
    oks = [(b, si, e) for (b, si, k, e) in a.ret_sites() if k == 'ok']
    want = lin_sub(lin(('field', rng, 'end')), lin(('field', rng, 'start')))
    for (b, si, e) in oks:
        pay = dict(e[3]).get('0') if e[0] == 'agg' else None
        ctx.check(pay is not None and lin_eq(lin(pay), want), 'R17b', fn, 'reported length', a.loc(b, si if si < 10 ** 6 else None),
                  'the reported length is term_range.end - term_range.start of the range written',
                  'write_term reports %s, not the length of the slice it wrote' % (flow.show(pay)[:80] if pay is not None else '?'))
        ctx.check(a.cfg.must_pass(b, via_blocks=[fl]) and a.cfg.must_pass(fl, via_blocks=[wa]) and a.cfg.must_pass(wa, via_blocks=[gw]), 'R17b', fn, 'flush before success', a.loc(fl),
                  'success is returned only after get_writer_at, write_all and flush, in this order')
    ctx.check(len(oks) == 1, 'R17b', fn, 'success returns', '-', 'one success return')
    # the guard
    idx = [c for c in a.calls('core::ops::index::Index::index') if c != wa and a.rooted_at(a.arg(c, 0), got)]
    is_end = lambda z: uncast(z) == ('field', rng, 'end')
    is_len = lambda z: uncast(z)[0] in ('call', 'len') and a.rooted_at(uncast(z)[2][0] if uncast(z)[0] == 'call' else uncast(z)[1], got)
    le = edges_where(a, lambda op, l, r: (op == 'Le' and is_end(l) and is_len(r)) or (op == 'Ge' and is_len(l) and is_end(r)))
    for c in idx:
        ctx.check(bool(le) and a.cfg.must_pass(c, via_edges=le), 'R17b', fn, 'guarded indexing', a.loc(c), 'term_data[term_range] is evaluated only where term_range.end <= term_data.len() was established',
                  'term_data is indexed by term_range without the end <= len guard: a short term panics the writer task instead of failing the download')
    ctx.check(len(idx) >= 1, 'R17b', fn, 'index site', '-', '%d indexing site(s)' % len(idx))
    for c, nm in ((got, 'get_one_term'), (gw, 'get_writer_at'), (wa, 'write_all'), (fl, 'flush')):
        ok_, det = propagation(a, c)
        ctx.check(ok_, 'R17b', fn, 'error of ' + nm, a.loc(c), 'the error of %s is propagated (%s)' % (nm, det), 'the error of %s can be dropped: %s' % (nm, det))


def r17c(ctx):
    F = ctx.F
    a = an(F.body(SEQ + '::{closure#0}'))
    fn = a.path
    gw = _one_call(ctx, 'R17c', a, 'cas_client::interface::OutputProvider::get_writer_at', 'get_writer_at')
    wa = _one_call(ctx, 'R17c', a, 'std::io::Write::write_all', 'write_all')
    fl = _one_call(ctx, 'R17c', a, 'std::io::Write::flush', 'flush')
    if None in (gw, wa, fl):
        return
    off = uncast(a.arg(gw, 1))
    ctx.check(off[0] == 'const' and off[1] == 0, 'R17c', fn, 'writer offset', a.loc(gw), 'the single sequential writer is opened at offset 0')
    ctx.check(a.rooted_at(a.arg(wa, 0), gw) and a.rooted_at(a.arg(fl, 0), gw), 'R17c', fn, 'writer', a.loc(wa), 'write_all and flush act on that writer')
    lps = [lp for lp in a.cfg.loops().items() if wa in lp[1]]
    if not ctx.check(len(lps) >= 1, 'R17c', fn, 'term loop', a.loc(wa), 'write_all runs in the per-term loop'):
        return
    lp = min(lps, key=lambda l: len(l[1]))
    ctx.check(gw not in lp[1] and fl not in lp[1], 'R17c', fn, 'writer outside loop', a.loc(gw), 'the writer is opened before and flushed after the term loop')
    d = uncast(a.arg(wa, 1))
    while d[0] in ('ref', 'deref'):
        d = d[1]
    rp = range_parts(d[2]) if d[0] == 'index' else None
    if not ctx.check(rp is not None, 'R17c', fn, 'slice written', a.loc(wa), 'the bytes written are term_data[start..end]', 'cannot establish the slice written: %s' % flow.show(d)[:100]):
        return
    S, E = rp
    td = d[1]
    # term data is this iteration's stream item
    nx = [c for c in a.calls() if sg(a.term(c).get('fn', '')).endswith('StreamExt::next') and c in lp[1]]
    ctx.check(len(nx) == 1 and a.rooted_at(td, nx[0]), 'R17c', fn, 'term data', a.loc(wa), 'the data indexed is the item the stream yielded in this iteration')
    want = lin_sub(lin(E), lin(S))
    ups = updates(a, lp[1])
    minus = [u for u in ups if u[1] == -1]
    bnds = upper_bounds(a, S, E)
    rem = [u for u in minus if any(len(bd) == 1 and list(bd.values()) == [1] and place_of_atom(list(bd.keys())[0]) == u[0] for bd in bnds)]
    if ctx.check(len(rem) == 1, 'R17c', fn, 'budget', a.loc(wa), 'end is bounded by start + the remaining budget, which is decreased once per term',
                 'cannot establish that the slice end is bounded by start + a remaining-bytes budget decreased once per term'):
        u = rem[0]
        ctx.check(lin_eq(lin(u[2]), want), 'R17c', fn, 'budget decrease', a.loc(*u[3]), 'the budget decreases by end - start of the slice written',
                  'the remaining budget decreases by %s, not by the length of the slice written' % flow.show(u[2])[:80])
        reads_precede(ctx, 'R17c', a, u[0], u[3], 'the remaining budget')
        ctx.check(precedes(a, (wa, 10 ** 6), u[3]) or a.cfg.must_pass(u[3][0], via_blocks=[wa]), 'R17c', fn, 'decrease after write', a.loc(*u[3]), 'the budget is decreased only after the slice was written (an error leaves it untouched)')
        # reported total = the budget's initial value
        rl = [l for l in range(len(a.body['locals'])) if (a.flow.lname(l),) == u[0]]
        init = []
        if rl:
            for dd in a.flow.defs.get(rl[0], []):
                if dd[0] == 'assign' and (dd[1], dd[2]) != u[3]:
                    init.append(a.flow.rvalue(dd[3], 0))
        oks = [(b, si, e) for (b, si, k, e) in a.ret_sites() if k == 'ok']
        for (b, si, e) in oks:
            pay = dict(e[3]).get('0') if e[0] == 'agg' else None
            ctx.check(pay is not None and len(init) == 1 and lin_eq(lin(pay), lin(init[0])), 'R17c', fn, 'reported total', a.loc(b, si if si < 10 ** 6 else None),
                      'the reported total is the value the budget started from (the requested length)',
                      'the sequential writer reports %s, which is not the requested length its budget started from' % (flow.show(pay)[:60] if pay is not None else '?'))
            ctx.check(a.cfg.must_pass(b, via_blocks=[fl]), 'R17c', fn, 'flush before success', a.loc(fl), 'success is returned only after flush')
        ctx.check(len(oks) == 1, 'R17c', fn, 'success returns', '-', 'one success return')
    other = [u for u in ups if u not in rem and not (uncast(u[2])[0] == 'const')]
    ctx.check(not other, 'R17c', fn, 'other updates', a.loc(*other[0][3]) if other else '-', 'no other running value is updated in the term loop')
    first_term_only(ctx, 'R17c', a, S)
    ctx.check(any(any(isinstance(k, tuple) and k and k[0] in ('call', 'len') and 'len' in str(k[1]) for k in bd) for bd in bnds), 'R17c', fn, 'term bound', a.loc(wa), 'end is also bounded by the length of the term data')
    for c, nm in ((gw, 'get_writer_at'), (wa, 'write_all'), (fl, 'flush')):
        ok_, det = propagation(a, c)
        ctx.check(ok_, 'R17c', fn, 'error of ' + nm, a.loc(c), 'the error of %s is propagated (%s)' % (nm, det), 'the error of %s can be dropped: %s' % (nm, det))
    # a failed term fetch ends the download with an error: the slice is taken only from an Ok item
    from .core import inspection_sites
    tries = [b for (lv, b, kind) in inspection_sites(a, nx[0])] if nx else []
    ctx.check(bool(nx) and bool(tries) and a.cfg.must_pass(wa, via_blocks=tries), 'R17c', fn, 'error of term fetch', a.loc(nx[0]) if nx else '-', 'a failed term fetch is propagated with `?` before anything of it is written')


def r17d(ctx):
    F = ctx.F
    a = an(F.body(GOT + '::{closure#0}'))
    fn = a.path
    is_term = lambda z: z[0] in ('upvar', 'param') and (z[1] if z[0] == 'upvar' else z[2]) == 'term'
    term_f = lambda z, *fs: _path(z) is not None and _path(z)[1] == tuple(fs) and is_term(_path(z)[0])
    # --- the fetch range selected
    finds = [c for c in a.calls() if sg(a.term(c).get('fn', '')).split('::')[-1] in ('find', 'position', 'find_map', 'filter') and len(a.term(c)['args']) == 2]
    sf = a.calls('utils::singleflight::Group::work_dump_caller_info') or a.calls(RC + 'download_range')
    if not ctx.check(len(sf) >= 1, 'R17d', fn, 'download', '-', 'the download call is identified'):
        return
    dl = sf[0]
    isf_ = lambda z, f: _path(uncast(z)) is not None and _path(uncast(z))[1][-2:] == ('range', f) and not is_term(_path(uncast(z))[0])
    ist_ = lambda z, f: (uncast(z)[0] == 'upvar' and uncast(z)[1] == 'term.range.' + f) or term_f(uncast(z), 'range', f)
    def containment(x, where):
        lo = edges_where(x, lambda op, l, r: (op == 'Le' and isf_(l, 'start') and ist_(r, 'start')) or (op == 'Ge' and ist_(l, 'start') and isf_(r, 'start')))
        hi = edges_where(x, lambda op, l, r: (op == 'Ge' and isf_(l, 'end') and ist_(r, 'end')) or (op == 'Le' and ist_(l, 'end') and isf_(r, 'end')))
        return lo, hi
    if len(finds) == 1:
        fc = finds[0]
        cl = uncast(a.arg(fc, 1))
        cb = F.bodies.get(cl[2]) if cl[0] == 'agg' and cl[1] == 'closure' else None
        if ctx.check(cb is not None, 'R17d', fn, 'selection predicate', a.loc(fc), 'the predicate is a local closure'):
            ca = an(cb)
            lo, hi = containment(ca, 'closure')
            trues = []
            for (b, si, k, e) in ca.ret_sites():
                for (sb, ssi, se) in ca.flow.sources(e, (b, si)):
                    se = uncast(se)
                    if se[0] == 'const' and se[1] == 0:
                        continue
                    trues.append((sb if sb is not None else b, se))
            okc = bool(trues)
            for (b, se) in trues:
                if se[0] == 'const' and se[1] == 1:
                    okc = okc and bool(lo) and bool(hi) and ca.cfg.must_pass(b, via_edges=lo) and ca.cfg.must_pass(b, via_edges=hi)
                else:
                    # `a && b` evaluated without branching on the second operand: the returned value is the second comparison, reached behind the first
                    cmpv = _cmp_of(se)
                    is_hi = cmpv is not None and _is_cmp(cmpv, 'Ge', lambda z: isf_(z, 'end'), lambda z: ist_(z, 'end'))
                    is_lo = cmpv is not None and _is_cmp(cmpv, 'Le', lambda z: isf_(z, 'start'), lambda z: ist_(z, 'start'))
                    okc = okc and ((is_hi and bool(lo) and ca.cfg.must_pass(b, via_edges=lo)) or (is_lo and bool(hi) and ca.cfg.must_pass(b, via_edges=hi)))
            ctx.check(okc, 'R17d', ca.path, 'containment', ca.loc(0), 'a fetch range is selected only if fetch.start <= term.start and fetch.end >= term.end',
                      'the fetch range is selected without establishing both fetch.range.start <= term.range.start and fetch.range.end >= term.range.end: a range that does not contain the term is trimmed at the wrong chunk offsets')
    else:
        # an explicit scan: the download is reached only behind both containment edges
        lo, hi = containment(a, 'loop')
        ctx.check(not finds and bool(lo) and bool(hi) and a.cfg.must_pass(dl, via_edges=lo) and a.cfg.must_pass(dl, via_edges=hi), 'R17d', fn, 'containment', a.loc(dl),
                  'the download is reached only behind fetch.start <= term.start and fetch.end >= term.end (explicit scan over the fetch ranges)',
                  'cannot establish that the fetch range that is downloaded contains the term\'s chunk range (no single search with a containment predicate, no pair of containment edges before the download)')
    # --- the trim: the byte offsets at which the data is cut
    tr = a.calls('alloc::vec::Vec::truncate')
    so = a.calls('alloc::vec::Vec::split_off') + a.calls('alloc::vec::Vec::drain')
    cut_end = cut_start = None
    muts = []
    if len(tr) == 1 and len(so) == 1:
        cut_end, cut_start, muts = a.arg(tr[0], 1), a.arg(so[0], 1), [tr[0], so[0]]
    else:
        sl = [c for c in a.calls('core::ops::index::Index::index') if range_parts(a.arg(c, 1)) and all(_deref(x_)[0] == 'index' for x_ in range_parts(a.arg(c, 1)))]
        if len(sl) == 1:
            cut_start, cut_end = range_parts(a.arg(sl[0], 1))
            muts = [sl[0]]
    if not ctx.check(cut_end is not None, 'R17d', fn, 'trim', '-', 'the trim of the fetched data to the term is identified (truncate + split_off, or one slice)',
                     'cannot establish how the fetched data is trimmed to the term (neither one truncate + one split_off nor one slice of the downloaded data)'):
        return
    def lookup(e):
        """(table, which, fetch base) if e is TABLE[term.range.which - F.range.start]"""
        e = _deref(e)
        if e[0] != 'index':
            return None
        i = uncast(e[2])
        if not (i[0] == 'bin' and i[1] == 'Sub'):
            return None
        pl, pr = _path(uncast(i[2])), _path(uncast(i[3]))
        if pl and pr and is_term(pl[0]) and pl[1] in (('range', 'start'), ('range', 'end')) and pr[1][-2:] == ('range', 'start') and not is_term(pr[0]):
            return e[1], pl[1][1], pr[0]
        return None
    le, ls = lookup(cut_end), lookup(cut_start)
    ok = le is not None and ls is not None and le[1] == 'end' and ls[1] == 'start'
    ctx.check(ok, 'R17d', fn, 'trim indices', a.loc(muts[0]),
              'the data is cut at table[term.range.end - fetch.range.start] (end) and table[term.range.start - fetch.range.start] (start)',
              'the data is not cut at the offsets looked up at (term.range.end - fetch.range.start) and (term.range.start - fetch.range.start): end cut %s, start cut %s' % (flow.show(cut_end)[-110:], flow.show(cut_start)[-110:]))
    ctx.floor('R17d', 'byte cuts of the trim', 2 if cut_end is not None and cut_start is not None else 0, 2)
    if ok:
        fr = ls[2]
        ctx.check(_strip_sites(le[2]) == _strip_sites(fr), 'R17d', fn, 'same fetch range', a.loc(muts[0]), 'both lookups are relative to the same fetch range')
        tab_ok = all(flow.mentions(x[0], lambda z: z[0] == 'call' and z[-1] == dl) for x in (le, ls))
        ctx.check(tab_ok, 'R17d', fn, 'offset table', a.loc(muts[0]), 'the offsets come from the table that was downloaded with the data')
        # the fetch range the indices are relative to is the one that is downloaded
        dlr = [c for c in a.calls(RC + 'download_range')]
        same_dl = bool(dlr) and all(flow.mentions(a.arg(c, 1), lambda z: _strip_sites(z) == _strip_sites(fr)) for c in dlr)
        ctx.check(same_dl, 'R17d', fn, 'selected fetch range', a.loc(dlr[0]) if dlr else '-', 'that fetch range is the one handed to download_range',
                  'the trim is relative to %s, which is not the fetch range that is downloaded' % flow.show(fr)[-80:])
        if finds:
            ctx.check(flow.mentions(fr, lambda z: z[0] == 'call' and z[-1] == finds[0]), 'R17d', fn, 'searched fetch range', a.loc(finds[0]), 'and it is the one the containment search selected')
        # the flight that downloads is keyed by the fetch range (its url), not by something coarser
        for c in a.calls('utils::singleflight::Group::work_dump_caller_info', 'utils::singleflight::Group::work'):
            ctx.check(flow.mentions(a.arg(c, 1), lambda z: _strip_sites(z) == _strip_sites(fr)), 'R17d', fn, 'flight key', a.loc(c),
                      'concurrent downloads are merged only under a key taken from the fetch range that is downloaded',
                      'the single-flight key (%s) is not derived from the fetch range that is downloaded: two terms of one xorb served by different fetch ranges join one flight and one of them receives the other range\'s bytes' % flow.show(a.arg(c, 1))[-90:])
        if len(muts) == 2:
            t0, s0 = muts
            ctx.check(a.cfg.must_pass(s0, via_blocks=[t0]) and t0 not in a.cfg.reach(list(a.cfg.succ[s0])), 'R17d', fn, 'cut order', a.loc(s0),
                      'the end cut is applied before the start cut (offsets are relative to the untrimmed data)',
                      'split_off(start) runs before truncate(end): after the front is removed the end offset no longer denotes the term\'s end — the term data is too long by start bytes')
        # --- cache fill before the trim, with the fetched range
        puts = a.calls('chunk_cache::ChunkCache::put')
        for p in puts:
            later = [m for m in muts if p in a.cfg.reach(list(a.cfg.succ[m]))]
            ctx.check(not later, 'R17d', fn, 'cache fill before trim', a.loc(p), 'the cache is filled before the data is trimmed',
                      'the cache is filled after the data was trimmed to the term but under the whole fetched range: a later hit returns the wrong bytes')
            rg = _deref(a.arg(p, 2))
            pr = _path(rg)
            ctx.check(pr is not None and pr[1][-1:] == ('range',) and _strip_sites(pr[0]) == _strip_sites(fr), 'R17d', fn, 'cache fill range', a.loc(p),
                      'the range stored with the data is the fetched range', 'the data is stored in the cache under %s, which is not the range that was fetched' % flow.show(rg)[-80:])
            kh = _key_hash(a, a.arg(p, 1))
            ctx.check(kh is not None and term_f(kh, 'hash'), 'R17d', fn, 'cache fill key', a.loc(p), 'the cache key is the term\'s xorb hash')
            ctx.check(flow.mentions(a.arg(p, 3), lambda z: z[0] == 'call' and z[-1] == dl) and (flow.mentions(a.arg(p, 4), lambda z: z[0] == 'call' and z[-1] == dl) or _deref(a.arg(p, 4))[0] == 'local'), 'R17d', fn, 'cache fill data', a.loc(p), 'offsets and data stored are the downloaded ones')
            ok_, det = propagation(a, p)
            ctx.check(ok_, 'R17d', fn, 'error of cache.put', a.loc(p), 'the error of cache.put is propagated (%s)' % det)
        ctx.floor('R17d', 'cache fill sites', len(puts), 1)
        # the trim is skipped only on term.range == fetch.range
        ne = [c for c in a.calls('core::cmp::PartialEq::ne', 'core::cmp::PartialEq::eq')]
        ne = [c for c in ne if {_strip_sites(_deref(a.arg(c, 0))), _strip_sites(_deref(a.arg(c, 1)))} == {_strip_sites(('field', ('upvar', 'term'), 'range')), _strip_sites(('field', fr, 'range'))}]
        ctx.check(len(ne) == 1, 'R17d', fn, 'trim condition', a.loc(ne[0]) if ne else '-', 'the trim is skipped only on term.range == fetch.range (compared as whole ranges)',
                  'cannot establish that the trim is skipped only when the term range equals the fetched range')
    # --- cold return behind the length check
    oks = [(b, si, e) for (b, si, k, e) in a.ret_sites() if k == 'ok']
    gets = a.calls('chunk_cache::ChunkCache::get')
    warm = [(b, si, e) for (b, si, e) in oks if gets and flow.mentions(e, lambda z: z[0] == 'call' and z[-1] == gets[0])]
    cold = [x for x in oks if x not in warm]
    is_len = lambda z: uncast(z)[0] in ('call', 'len') and 'len' in sg(str(uncast(z)[1])).split('::')[-1]
    is_ul = lambda z: term_f(uncast(z), 'unpacked_length')
    eq = edges_where(a, lambda op, l, r: op == 'Eq' and ((is_len(l) and is_ul(r)) or (is_ul(l) and is_len(r))))
    for (b, si, e) in cold:
        ctx.check(bool(eq) and a.cfg.must_pass(b, via_edges=eq), 'R17d', fn, 'length check', a.loc(b, si if si < 10 ** 6 else None),
                  'downloaded term data is returned only behind data.len() == term.unpacked_length',
                  'downloaded (and possibly trimmed) term data is returned without the check against term.unpacked_length: a wrong trim goes undetected and shifts everything written after it')
    ctx.check(len(cold) >= 1, 'R17d', fn, 'cold return', '-', '%d cold success return(s)' % len(cold))
    for (b, si, e) in warm:
        if not (bool(eq) and a.cfg.must_pass(b, via_edges=eq)):
            ctx.info('R17d', fn, a.loc(b, si if si < 10 ** 6 else None), 'information: the warm (cache hit) return is not behind the unpacked_length check; the length of a hit is what C12 decides (a hit returns what was put for that range)')
    # --- warm lookup
    for g in gets:
        kh = _key_hash(a, a.arg(g, 1))
        rg = _deref(a.arg(g, 2))
        ctx.check(kh is not None and term_f(kh, 'hash') and term_f(uncast(rg), 'range'), 'R17d', fn, 'warm lookup', a.loc(g), 'the cache is asked for exactly (term.hash, term.range)',
                  'the cache lookup does not use (term.hash, term.range): %s / %s' % (flow.show(a.arg(g, 1))[:60], flow.show(rg)[:40]))
    for (b, si, e) in warm:
        pay = dict(e[3]).get('0') if e[0] == 'agg' else None
        ctx.check(pay is not None and _path(_through(pay)) is not None and _path(_through(pay))[1][-1:] == ('data',), 'R17d', fn, 'warm return', a.loc(b, si if si < 10 ** 6 else None), 'a hit returns the cached range\'s data')
    ctx.floor('R17d', 'cache lookups', len(gets), 1)
    # invalid term ranges are rejected first
    lt = edges_where(a, lambda op, l, r: (op == 'Lt' and term_f(uncast(l), 'range', 'end') and term_f(uncast(r), 'range', 'start')) or (op == 'Gt' and term_f(uncast(l), 'range', 'start') and term_f(uncast(r), 'range', 'end')))
    ctx.check(bool(lt), 'R17d', fn, 'inverted range', '-', 'a term whose range end precedes its start is rejected')


def _is_lookup(a, e, c):
    """e is the value the Index::index call in block c produced (the table entry), casts aside"""
    e = _deref(e)
    return e[0] == 'index' and _strip_sites(e[2]) == _strip_sites(a.arg(c, 1)) and _strip_sites(_deref(e[1])) == _strip_sites(_deref(a.arg(c, 0)))


def _deref(e):
    e = uncast(e)
    while e[0] in ('ref', 'deref'):
        e = uncast(e[1])
    return e


def _through(e):
    """look through to_vec / clone / deref calls"""
    e = uncast(e)
    while True:
        if e[0] in ('ref', 'deref'):
            e = uncast(e[1])
            continue
        if e[0] == 'call' and sg(e[1]).split('::')[-1] in ('to_vec', 'clone', 'deref', 'into', 'to_owned', 'as_ref') and e[2]:
            e = uncast(e[2][0])
            continue
        return e


def _path(e):
    """(base, (field names...)) of a field chain"""
    fs = []
    e = uncast(e)
    while e[0] in ('field', 'ref', 'deref'):
        if e[0] == 'field':
            fs.append(e[2])
        e = uncast(e[1])
    return e, tuple(reversed(fs))


def _term_atom(a):
    for l in range(len(a.body['locals'])):
        pass
    return ('upvar', 'term')


def _key_hash(a, e):
    e = _deref(e)
    if e[0] == 'local':
        ss = a.flow.sources(e)
        if len(ss) == 1:
            e = _deref(ss[0][2])
    if e[0] == 'agg' and e[2].endswith('Key'):
        h = dict(e[3]).get('hash')
        if h is not None:
            return _through(h)
    return None


def _cmp_of(e):
    e = uncast(e)
    if e[0] == 'bin' and e[1] in ('Le', 'Ge', 'Lt', 'Gt', 'Eq', 'Ne'):
        return e
    return None


def _is_cmp(c, op, isl, isr):
    flip = {'Le': 'Ge', 'Ge': 'Le'}
    return (c[1] == op and isl(c[2]) and isr(c[3])) or (c[1] == flip.get(op) and isr(c[2]) and isl(c[3]))


def r17e(ctx):
    F = ctx.F
    for root in (PAR, SEQ):
        a = an(F.body(root + '::{closure#0}'))
        fn = a.path
        tl = [l for l in range(len(a.body['locals'])) if a.flow.lname(l) == 'total_len']
        # the requested total: the value assigned on both arms of `if let Some(range) = byte_range`
        cands = []
        for l in range(len(a.body['locals'])):
            accs = {u[0] for u in updates(a)}
            srcs = a.flow.sources(('local', l, a.flow.lname(l)), stop=lambda z: z[0] == 'local' and ((z[2] or '_%d' % z[1]),) in accs)
            if (a.flow.lname(l),) in accs:
                continue
            if len(srcs) == 2:
                ks = [_total_kind(a, F, e) for (_, _, e) in srcs]
                if None not in ks:
                    cands.append((l, ks))
        good = [c for c in cands if sorted(c[1]) == ['range', 'sum']]
        ctx.check(len(good) >= 1, 'R17e', fn, 'requested total', a.loc(0), 'the requested total is byte_range.end - byte_range.start, else the sum of the terms\' unpacked_length',
                  'cannot establish the requested total as (range.end - range.start | sum of unpacked_length): candidates %s' % [c[1] for c in cands])
        if tl:
            ctx.check(any(c[0] == tl[0] for c in good) or bool(good), 'R17e', fn, 'total_len', '-', 'total_len is that value')


def _total_kind(a, F, e):
    e = uncast(e)
    if e[0] == 'local':
        # an accumulator: starts at 0 and only grows by a term's unpacked_length
        key = (e[2] or '_%d' % e[1],)
        ups = [u for u in updates(a) if u[0] == key]
        inits = [a.flow.rvalue(d[3], 0) for d in a.flow.defs.get(e[1], []) if d[0] == 'assign' and not paths.additive_update(a, a.blocks[d[1]]['s'][d[2]])]
        if ups and all(u[1] == 1 and flow.mentions(u[2], lambda z: z[0] == 'field' and z[-1] == 'unpacked_length') for u in ups) and len(inits) == 1 and uncast(inits[0])[:2] == ('const', 0):
            return 'sum'
        return None
    if e[0] == 'bin' and e[1] == 'Sub':
        l, r = _path(e[2]), _path(e[3])
        if l[1][-1:] == ('end',) and r[1][-1:] == ('start',) and _strip_sites(l[0]) == _strip_sites(r[0]):
            return 'range'
        return None
    if e[0] == 'call' and sg(e[1]).split('::')[-1] in ('fold', 'sum'):
        # the fold closure adds unpacked_length
        for x in e[2]:
            x = uncast(x)
            if x[0] == 'agg' and x[1] == 'closure':
                cb = F.bodies.get(x[2])
                if cb is not None:
                    ca = an(cb)
                    for (b, si, k, re) in ca.ret_sites():
                        d = lin(re)
                        ks = [k_ for k_ in d if isinstance(k_, tuple)]
                        if len(ks) == 2 and all(v == 1 for v in d.values()) and any(flow.mentions(k_, lambda z: z[0] == 'field' and z[-1] == 'unpacked_length') for k_ in ks):
                            return 'sum'
        if sg(e[1]).split('::')[-1] == 'sum' and flow.mentions(e, lambda z: z[0] == 'agg' and z[1] == 'closure'):
            return 'sum'
        return None
    return None
