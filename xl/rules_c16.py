"""C16 — shards follow their xorbs; upload failures are never swallowed (DESIGN.md §5 C16)."""
from .core import an, outer_fn
from . import flow

EXPLANATION = (
    'Decides ordering, pairing and propagation facts on the MIR of data::file_upload_session, data::shard_interface, '
    'data::deduplication_interface, data::file_cleaner and deduplication::file_deduplication: (R16a) who may call '
    'UploadClient::put / upload_shard; (R16b) the shard upload is dominated by the exhausted join of every xorb '
    'task, the task set is taken after the last xorb was registered, nothing registers a xorb after the take; '
    '(R16c) every store/task/chain Result is propagated with `?` or returned. These hold on all paths, hence for '
    'every schedule and every failing store call. Not decided: behaviour of the store itself.')

PUT = 'cas_client::interface::UploadClient::put'
UPLOAD_SHARD = 'cas_client::interface::RegistrationClient::upload_shard'
LIBS = ('data', 'deduplication')

FIN = 'data::file_upload_session::FileUploadSession::finalize_impl::{closure#0}'
REG = 'data::file_upload_session::FileUploadSession::register_new_xorb_for_upload'
REGC = REG + '::{closure#0}'
TASK = REG + '::{closure#0}::{closure#0}'
PROC = 'data::file_upload_session::FileUploadSession::process_aggregated_data_as_xorb'
UPL = 'data::shard_interface::SessionShardInterface::upload_and_register_session_shards'
UPLC = UPL + '::{closure#0}'
SHARDTASK = UPL + '::{closure#0}::{closure#0}'
REGNEW = '<data::deduplication_interface::UploadSessionDataManager as deduplication::interface::DeduplicationDataInterface>::register_new_xorb::{closure#0}'

# callees whose Result carries (directly or transitively) an upload failure; every call site in the library
# crates `data` and `deduplication` must propagate it.  Keyed on the callee, not on the error type.
CHAIN = [
    PUT, UPLOAD_SHARD,
    'data::file_upload_session::FileUploadSession::register_new_xorb_for_upload',
    'data::file_upload_session::FileUploadSession::process_aggregated_data_as_xorb',
    'data::file_upload_session::FileUploadSession::register_single_file_clean_completion',
    'data::file_upload_session::FileUploadSession::finalize_impl',
    'data::shard_interface::SessionShardInterface::upload_and_register_session_shards',
    'data::shard_interface::SessionShardInterface::add_cas_block',
    'data::shard_interface::SessionShardInterface::add_file_reconstruction_info',
    'data::file_cleaner::SingleFileCleaner::add_data_impl',
    'deduplication::interface::DeduplicationDataInterface::register_new_xorb',
    'deduplication::file_deduplication::FileDeduper::process_chunks',
    'data::file_upload_session::acquire_upload_permit',
]


def lib_sites(ctx, name):
    return [(b, bi) for (b, bi) in ctx.cg.call_sites(name) if b['crate'] in LIBS]


class Task:
    """the coroutine body that runs as a spawned upload task.
      path     its body path
      form     'closure' (an `async move { .. }` block written inside the spawner) or 'method' (the body of a private
               async fn whose future the spawner hands to spawn, e.g. `set.spawn(task.run())`)
      fn       for 'method': the async fn's path"""

    def __init__(self, path, form, fn=None):
        self.path, self.form, self.fn = path, form, fn

    def spawned_in(self, a, spawn_block):
        """is this task what the spawn call in analysis `a` spawns?"""
        from .core import strip_generics
        arg = a.arg(spawn_block, 1)
        if self.form == 'closure':
            return flow.mentions(arg, lambda e: e[0] == 'agg' and e[2] == self.path)
        return flow.mentions(arg, lambda e: e[0] == 'call' and strip_generics(e[1]) == strip_generics(self.fn))


def _capture_of(task, ctx, a, spawn_block, node):
    """the spawner-side expression of a value the task body refers to: `node` is ('upvar', name) or
    ('field', ('upvar', 'self'), name) in the task body."""
    from .core import strip_generics
    arg = a.arg(spawn_block, 1)
    if task.form == 'closure':
        aggs = [z for z in flow.subtrees(arg) if z[0] == 'agg' and z[2] == task.path]
        if not aggs:
            return None
        if node[0] == 'upvar':
            return dict(aggs[0][3]).get(node[1])
        if node[0] == 'field' and node[1][0] == 'upvar':
            # a field of a captured struct (`self.si` of a task object moved into the coroutine)
            cap = dict(aggs[0][3]).get(node[1][1])
            if cap is not None and cap[0] == 'agg':
                return dict(cap[3]).get(node[2])
        return None
    calls = [z for z in flow.subtrees(arg) if z[0] == 'call' and strip_generics(z[1]) == strip_generics(task.fn)]
    fb = ctx.F.bodies.get(task.fn)
    if not calls or fb is None:
        return None
    names = [l.get('n') for l in fb['locals'][1:fb['argc'] + 1]]
    if node[0] == 'upvar' and node[1] in names:
        i = names.index(node[1])
        return calls[0][2][i] if i < len(calls[0][2]) else None
    if node[0] == 'field' and node[1] == ('upvar', 'self') and 'self' in names:
        recv = calls[0][2][names.index('self')]
        if recv[0] == 'agg':
            return dict(recv[3]).get(node[2])
    return None


Task.capture_of = _capture_of


def find_task(ctx, callee, spawner):
    """Discover the task body from the store call it must contain: the only library call site of `callee` lies either
    in an async block inside `spawner` or in a private async fn of crate `data` that is called only from `spawner`
    (its future being handed to JoinSet::spawn).  Fails closed (AnchorMissing) otherwise."""
    from .facts import AnchorMissing
    cache = ctx.__dict__.setdefault('_tasks', {})
    if callee in cache:
        return cache[callee]
    sites = lib_sites(ctx, callee)
    if len(sites) != 1:
        raise AnchorMissing('expected exactly one call site of %s in data/deduplication, found %d (%s)' % (callee, len(sites), sorted(b['qpath'] for b, _ in sites)))
    P = sites[0][0]['qpath']
    t = None
    if P.startswith(spawner + '::{closure#0}::{closure#'):
        t = Task(P, 'closure')
    elif P.endswith('::{closure#0}'):
        fq = P[:-len('::{closure#0}')]
        fb = ctx.F.bodies.get(fq)
        if fb is not None and fb['crate'] == 'data' and not fb.get('exported'):
            callers = {b['qpath'] for b, _ in ctx.cg.call_sites(fq)}
            if callers and all(c.startswith(spawner + '::{closure#0}') for c in callers):
                t = Task(P, 'method', fq)
    if t is None and P.endswith('::{closure#0}') and P[:-len('::{closure#0}')] not in ctx.F.bodies:
        # the async fn's shell was inlined (xl/inline.py): the coroutine is then built where the shell was called; it is
        # the task if it is built only inside the spawner
        builders = set()
        for bp, bb in ctx.F.bodies.items():
            for blk in bb['blocks']:
                for st in blk['s']:
                    r = st.get('r')
                    if r and r['k'] == 'agg' and r.get('ak') == 'coroutine' and r.get('def') == P:
                        builders.add(bp)
        if builders and all(c.startswith(spawner + '::{closure#0}') for c in builders):
            t = Task(P, 'closure')
    if t is None:
        raise AnchorMissing('%s is called from %s, which is neither an async block of %s nor a private async fn called only from it' % (callee, P, spawner))
    cache[callee] = t
    return t


def xorb_task(ctx):
    return find_task(ctx, PUT, REG)


def shard_task(ctx):
    return find_task(ctx, UPLOAD_SHARD, UPL)


def run(ctx):
    F = ctx.F
    ctx.rule('R16a', 'UploadClient::put is called only from the task spawned in register_new_xorb_for_upload (crate-private, two callers); '
                     'upload_shard only from the task spawned in upload_and_register_session_shards, whose only caller is finalize_impl')
    ctx.rule('R16b', 'in finalize_impl the shard upload is dominated by the None-exit of the join_next loop over the JoinSet taken from '
                     'xorb_upload_tasks; that take is dominated by the awaited process_aggregated_data_as_xorb; nothing that can register a xorb runs after the take')
    ctx.rule('R16c', 'every Result of a store call, upload task or upload-chain function is propagated with `?` (or returned) on every path')
    ctx.guarded('R16a', 'who-may-call', lambda: r16a(ctx))
    ctx.guarded('R16b', FIN, lambda: r16b(ctx))
    ctx.guarded('R16c', 'propagation', lambda: r16c(ctx))
    ctx.rule('R16e', 'register_new_xorb_for_upload: every successful return passed the spawn of the put task for this xorb, except on the empty-xorb edge; the task puts the hash, bytes and chunk list of that same xorb')
    ctx.guarded('R16e', REGC, lambda: r16e(ctx))
    ctx.rule('R16f', 'upload_and_register_session_shards has no successful shortcut: every non-error return consolidated the session directory and joined every shard upload')
    ctx.guarded('R16f', UPLC, lambda: shard_upload_no_shortcut(ctx, 'R16f'))
    ctx.rule('R16g', 'pipeline completeness: every successful return of add_data_impl, finish, process_aggregated_data_as_xorb and finalize_impl passed the calls that hand its data on (chunks -> deduper, file -> session, aggregate -> xorb upload + file records, session -> shard upload)')
    ctx.guarded('R16g', 'pipeline', lambda: r16g(ctx))
    ctx.rule('R16h', 'a session shard is recorded as stored (exported into the persistent shard cache and registered there) only after upload_shard succeeded in that task (= C11-R11c): a later session never dedups against xorbs that no store holds')
    ctx.guarded('R16h', 'shard upload task', lambda: _r16h(ctx))


def r16a(ctx):
    F = ctx.F
    put_sites = lib_sites(ctx, PUT)
    ctx.floor('R16a', 'call sites of UploadClient::put in data/deduplication', len(put_sites), 1)
    for b, bi in put_sites:
        a = an(b)
        ctx.check(b['qpath'] == _task_path(ctx, xorb_task), 'R16a', b['qpath'], 'UploadClient::put', a.loc(bi),
                  'put is called from the upload task spawned by register_new_xorb_for_upload',
                  'UploadClient::put called outside the upload task of register_new_xorb_for_upload')
    reg = F.body(REG)
    ctx.check(not reg.get('exported') and reg.get('vis', '').startswith('in:'), 'R16a', REG, 'visibility', '%s:%d' % (reg['file'], reg['lo']),
              'register_new_xorb_for_upload is not reachable from outside the crate (vis %s)' % reg.get('vis'))
    callers = sorted({b['qpath'] for b, _ in ctx.cg.call_sites('FileUploadSession::register_new_xorb_for_upload')})
    ctx.check(callers == sorted([REGNEW, PROC + '::{closure#0}']), 'R16a', REG, 'callers', '-',
              'callers of register_new_xorb_for_upload are exactly register_new_xorb and process_aggregated_data_as_xorb',
              'unexpected caller set of register_new_xorb_for_upload: %s' % callers)
    us = lib_sites(ctx, UPLOAD_SHARD)
    ctx.floor('R16a', 'call sites of RegistrationClient::upload_shard in data/deduplication', len(us), 1)
    for b, bi in us:
        ctx.check(b['qpath'] == _task_path(ctx, shard_task), 'R16a', b['qpath'], 'upload_shard', an(b).loc(bi),
                  'upload_shard is called from the task spawned by upload_and_register_session_shards',
                  'upload_shard called outside upload_and_register_session_shards')
    upl = F.body(UPL)
    ctx.check(not upl.get('exported'), 'R16a', UPL, 'visibility', '%s:%d' % (upl['file'], upl['lo']),
              'upload_and_register_session_shards is not reachable from outside the crate')
    callers = sorted({b['qpath'] for b, _ in ctx.cg.call_sites('SessionShardInterface::upload_and_register_session_shards')})
    ctx.check(callers == [FIN], 'R16a', UPL, 'callers', '-',
              'the only caller of upload_and_register_session_shards is finalize_impl',
              'unexpected caller set of upload_and_register_session_shards: %s' % callers)


def _task_path(ctx, finder):
    from .facts import AnchorMissing
    try:
        return finder(ctx).path
    except AnchorMissing:
        return None


def is_field_of_self(e, field):
    return flow.mentions(e, lambda x: x[0] in ('field',) and x[2] == field) or flow.mentions(e, lambda x: x[0] == 'upvar' and x[1] == field)


class Drain:
    """Where finalize_impl waits for every xorb upload task: either inline (take of self.xorb_upload_tasks + join_next
    loop) or in a same-crate async helper that finalize_impl awaits with `?` (inlining bound: one level).
      a      analysis of the body that contains `site`
      site   block in finalize_impl: the take (inline) or the call of the helper
      edges  CFG edges of finalize_impl crossed exactly when all tasks have been joined: the None edges of join_next
             (inline) or the success edges of the awaited helper call (helper; empty if the helper can return Ok
             without having crossed its own None edges)
      inner  (path, analysis, take, joins, none_edges) of the body that holds the loop"""

    def __init__(self, a, site, edges, inner, via_helper):
        self.a, self.site, self.edges, self.inner, self.via_helper = a, site, edges, inner, via_helper


def _inline_drain(a):
    takes = [t for t in a.calls('core::mem::take') if is_field_of_self(a.arg(t, 0), 'xorb_upload_tasks')]
    if len(takes) != 1:
        return None, len(takes)
    tk = takes[0]
    joins = [j for j in a.calls('tokio::task::join_set::JoinSet::join_next') if a.rooted_at(a.arg(j, 0), tk)]
    none_edges = []
    for j in joins:
        ve = a.variant_edges(j, 'core::option::Option<')
        none_edges += ve.get('0', []) + ve.get('otherwise', [])
    return (tk, joins, none_edges), 1


def drain_site(ctx, a, path=None):
    from .core import strip_generics, success_edges
    path = path or FIN
    d, n = _inline_drain(a)
    if d:
        return Drain(a, d[0], d[2], (path, a, d[0], d[1], d[2]), False), n
    for cb in a.calls():
        t = a.term(cb)
        q = ctx.cg.norm.get(strip_generics(t.get('res') or t.get('fn') or ''))
        hb = ctx.F.bodies.get((q or '') + '::{closure#0}')
        if hb is None or hb['crate'] != 'data' or a.awaited(cb) is None:
            continue
        ah = an(hb)
        dh, nh = _inline_drain(ah)
        if not dh:
            continue
        oks = [b for (b, si, k, e) in ah.ret_sites() if k != 'err']
        good = bool(dh[2]) and bool(oks) and all(ah.cfg.must_pass(b, via_edges=dh[2]) for b in oks)
        return Drain(a, cb, success_edges(a, cb) if good else [], (hb['qpath'], ah, dh[0], dh[1], dh[2]), True), nh
    return None, n


def r16b(ctx):
    F = ctx.F
    b = F.body(FIN)
    a = an(b)
    ups = a.calls('SessionShardInterface::upload_and_register_session_shards')
    if not ctx.check(len(ups) >= 1, 'R16b', FIN, 'upload_and_register_session_shards', '-', 'finalize_impl calls upload_and_register_session_shards',
                     'finalize_impl no longer calls upload_and_register_session_shards: cannot establish the ordering'):
        return
    # the JoinSet taken out of self.xorb_upload_tasks (inline or in an awaited helper)
    dr, ntk = drain_site(ctx, a)
    if not ctx.check(dr is not None, 'R16b', FIN, 'take(xorb_upload_tasks)', '-', 'exactly one take of self.xorb_upload_tasks',
                     'expected exactly one `take` of self.xorb_upload_tasks, found %d' % ntk):
        return
    tk = dr.site
    ipath, ia, itk, joins, inone = dr.inner
    if not ctx.check(len(joins) >= 1, 'R16b', ipath, 'join_next', ia.loc(itk), 'join_next is called on the taken JoinSet',
                     'no join_next on the JoinSet taken from xorb_upload_tasks'):
        return
    for j in joins:
        ctx.check(ia.awaited(j) is not None, 'R16b', ipath, 'join_next.await', ia.loc(j), 'join_next future is awaited')
    if dr.via_helper:
        ctx.check(bool(dr.edges), 'R16b', ipath, 'helper', ia.loc(itk), 'the helper that joins the xorb tasks returns success only across the None edge of join_next, and finalize_impl continues only on its success',
                  'the helper that joins the xorb tasks can return success without having exhausted join_next (or its result is not checked by finalize_impl)')
    none_edges = dr.edges
    for u in ups:
        ctx.check(a.awaited(u) is not None, 'R16b', FIN, 'upload_and_register_session_shards.await', a.loc(u), 'shard upload future is awaited here')
        ok = bool(none_edges) and a.cfg.must_pass(u, via_edges=none_edges)
        p = None if ok else a.cfg.path(0, u, cut_edges=none_edges)
        ctx.check(ok, 'R16b', FIN, 'upload_and_register_session_shards', a.loc(u),
                  'every path to the shard upload crosses the None edge of join_next on the taken xorb task set (all xorb tasks joined)',
                  'shard upload reachable without exhausting join_next on the xorb task set: a shard can be handed to the store before its xorbs',
                  path=p and [a.line(x) for x in p])
    # take dominated by awaited process_aggregated_data_as_xorb
    procs = a.calls('FileUploadSession::process_aggregated_data_as_xorb')
    okp = bool(procs) and all(a.awaited(p) is not None for p in procs) and a.cfg.must_pass(tk, via_blocks=procs)
    ctx.check(okp, 'R16b', FIN, 'take(xorb_upload_tasks)', a.loc(tk),
              'the take of the task set is dominated by the awaited process_aggregated_data_as_xorb (the final xorb task is in the joined set)',
              'the task set is taken on a path that has not (yet) run process_aggregated_data_as_xorb: the final xorb task escapes the join')
    # nothing that reaches register_new_xorb_for_upload after the take
    n = 0
    scopes = [(FIN, a, tk)] + ([(ipath, ia, itk)] if dr.via_helper else [])
    for (spath, sa, stk) in scopes:
        after = sa.cfg.reach_after([stk])
        for cb in sa.calls():
            if cb not in after:
                continue
            n += 1
            t = sa.term(cb)
            cal = t.get('res') or t.get('fn')
            from .core import strip_generics
            c0 = strip_generics(cal)
            hit = None
            if c0.endswith('register_new_xorb_for_upload'):
                hit = (c0,)
            else:
                q = ctx.cg.norm.get(c0)
                if q and q.startswith('data::'):
                    hit = ctx.cg.reaches(q, lambda c: c.endswith('FileUploadSession::register_new_xorb_for_upload'))
            if hit:
                ctx.fail('R16b', spath, 'late:' + c0, sa.loc(cb), 'call after the take of the task set can register a new xorb upload (%s): its task is never joined' % ' -> '.join(hit))
    ctx.ok('R16b', FIN, a.loc(tk), '%d calls after the take examined: none reaches register_new_xorb_for_upload' % n)


def r16c(ctx):
    F = ctx.F
    # (1) the upload task: put(..).await? -> task output
    xt = xorb_task(ctx)
    st = shard_task(ctx)
    TASK, SHARDTASK = xt.path, st.path
    a = an(F.body(TASK))
    puts = a.calls(PUT)
    for p in puts:
        ok, d = (False, 'future not awaited') if a.awaited(p) is None else __import__('xl.core', fromlist=['propagation']).propagation(a, p)
        ctx.check(ok, 'R16c', TASK, 'put', a.loc(p), 'put result: ' + d, 'put result dropped: ' + d)
    # the task must be what is spawned into xorb_upload_tasks
    ar = an(F.body(REGC))
    spawns = ar.calls('tokio::task::join_set::JoinSet::spawn')
    okspawn = any(xt.spawned_in(ar, s) and is_field_of_self(ar.arg(s, 0), 'xorb_upload_tasks') for s in spawns)
    ctx.check(okspawn, 'R16c', REGC, 'spawn', '-', 'the put task is spawned into self.xorb_upload_tasks (its output is the task result)')
    # (2) join sites: every join on the xorb task set anywhere in the library crates (and the shard task set in
    # upload_and_register_session_shards) inspects both the JoinError and the task's own error
    from .core import propagation
    jsites = []
    for p_, b_ in sorted(F.bodies.items()):
        if b_['crate'] not in LIBS:
            continue
        ab_ = None
        for jname in ('tokio::task::join_set::JoinSet::try_join_next', 'tokio::task::join_set::JoinSet::join_next'):
            if not any(jname.split('::')[-1] in (t_.get('fn') or '') for blk in b_['blocks'] for t_ in [blk['t']] if t_['k'] == 'call'):
                continue
            ab_ = ab_ or an(b_)
            for j in ab_.calls(jname):
                e0 = ab_.arg(j, 0)
                on_xorb = is_field_of_self(e0, 'xorb_upload_tasks')
                if on_xorb or p_ == UPLC:
                    jsites.append((p_, ab_, j, jname.split('::')[-1]))
    kinds = {(k_) for (_, _, _, k_) in jsites if _ != UPLC}
    ctx.floor('R16c', 'join sites on the xorb task set (try_join_next while registering, join_next at finalize)', len([1 for (p_, _, _, _) in jsites if p_ != UPLC]), 2)
    ctx.floor('R16c', 'join sites on the shard task set in upload_and_register_session_shards', len([1 for (p_, _, _, _) in jsites if p_ == UPLC]), 1)
    ctx.check({'try_join_next', 'join_next'} <= {k_ for (_, _, _, k_) in jsites}, 'R16c', '-', 'join kinds', '-', 'both the opportunistic try_join_next and the final join_next exist')
    joiners = set()
    for (path, aj, j, jn) in jsites:
        joiners.add(path.split('::{closure')[0])
        ve = aj.variant_edges(j, 'core::option::Option<')
        some = [tgt for (_, tgt) in aj.some_edges(ve)]
        if not some:
            ctx.fail('R16c', path, jn, aj.loc(j), 'cannot find the Some arm of the join result')
            continue
        ok, d = propagation(aj, j, need=2, start_blocks=some)
        ctx.check(ok, 'R16c', path, jn, aj.loc(j), 'joined task result (JoinError and task error): ' + d,
                  'a joined upload task\'s failure can be swallowed: ' + d)
    # shard task: upload_shard(..).await?
    ast = an(F.body(SHARDTASK))
    for u in ast.calls(UPLOAD_SHARD):
        ok, d = (False, 'future not awaited') if ast.awaited(u) is None else propagation(ast, u)
        ctx.check(ok, 'R16c', SHARDTASK, 'upload_shard', ast.loc(u), 'upload_shard result: ' + d, 'upload_shard result dropped: ' + d)
    au = an(F.body(UPLC))
    sp = au.calls('tokio::task::join_set::JoinSet::spawn')
    ctx.check(any(st.spawned_in(au, s) for s in sp) and
              all(au.rooted_at(au.arg(j, 0), au.root_call(au.arg(sp[0], 0))[3]) if sp and au.root_call(au.arg(sp[0], 0)) else False for j in au.calls('tokio::task::join_set::JoinSet::join_next')),
              'R16c', UPLC, 'spawn', '-', 'the shard task is spawned into the JoinSet that the join loop drains')
    # (3) census: every call of an upload-failure carrier in data / deduplication propagates.  Carriers: the CHAIN seeds,
    # every function that joins upload tasks, and (fixpoint) every library function that calls a carrier — a helper
    # extracted from a carrier is a carrier, so its call site is held to the same rule.
    carriers = list(CHAIN)
    for q in sorted(joiners):
        if q not in carriers:
            carriers.append(q)
    k = 0
    while k < len(carriers):
        name = carriers[k]
        k += 1
        for b, bi in lib_sites(ctx, name):
            o = b['qpath'].split('::{closure')[0]
            for cand in (o, (F.bodies.get(o) or {}).get('implements')):
                if cand and cand not in carriers:
                    carriers.append(cand)
    n = 0
    seen_sites = set()
    for name in carriers:
        for b, bi in lib_sites(ctx, name):
            if (b['qpath'], name) in ((TASK, PUT), (SHARDTASK, UPLOAD_SHARD)) or (b['qpath'], bi) in seen_sites:
                continue
            seen_sites.add((b['qpath'], bi))
            ab = an(b)
            if bi not in ab.cfg.reach0:
                continue
            n += 1
            t = ab.term(bi)
            is_async = ab.awaited(bi) is not None
            ret_ty = ab.flow.lty(t['d']['l']) if 'p' not in t['d'] else ''
            if not is_async and ('Future' in ret_ty or 'async fn body' in ret_ty or 'Pin<' in ret_ty):
                # a future that is not awaited in this body: fine only if it is returned / handed on as a value
                direct = [1 for (_, _, k_, e) in ab.ret_sites() if ab.rooted_at(e, bi)]
                # or handed to JoinSet::spawn in this body (the set's join sites are held to rule (2))
                direct += [1 for s_ in ab.calls('tokio::task::join_set::JoinSet::spawn') if flow.mentions(ab.arg(s_, 1), lambda z: ab.rooted_at(z, bi))]
                ctx.check(bool(direct), 'R16c', b['qpath'], short(name), ab.loc(bi), 'future of %s is returned to the caller or spawned into a joined task set' % short(name),
                          'future of %s is created but neither awaited nor returned: its error is lost' % short(name))
                continue
            ok, d = propagation(ab, bi)
            ctx.check(ok, 'R16c', b['qpath'], short(name), ab.loc(bi), '%s result: %s' % (short(name), d), '%s failure can be swallowed: %s' % (short(name), d))
    ctx.floor('R16c', 'upload-chain call sites in data/deduplication', n, 24)
    ctx.info('R16c', '-', '-', 'upload-failure carriers (%d): %s' % (len(carriers), ', '.join(short(c) for c in carriers)))


def shard_upload_no_shortcut(ctx, rule):
    """no successful shortcut in upload_and_register_session_shards: every non-error return has consolidated the session
    directory and joined every shard task (shards cut earlier in the session live in the directory even when the final
    flush had nothing left to write)"""
    ap = an(ctx.F.body(UPLC))
    cons = ap.calls('mdb_shard::session_directory::consolidate_shards_in_directory')
    joins = [j for j in ap.calls('tokio::task::join_set::JoinSet::join_next')]
    none_edges = []
    for j in joins:
        ve = ap.variant_edges(j, 'core::option::Option<')
        none_edges += ve.get('0', []) + ve.get('otherwise', [])
    for (b, si, k, e) in ap.ret_sites():
        if k == 'err':
            continue
        ok = bool(cons) and bool(none_edges) and ap.cfg.must_pass(b, via_blocks=cons) and ap.cfg.must_pass(b, via_edges=none_edges)
        ctx.check(ok, rule, UPLC, 'Ok<-consolidate+join', ap.loc(b, si), 'a successful return has consolidated the session directory and joined all shard upload tasks',
                  'upload_and_register_session_shards can report success without consolidating / uploading the shards in the session directory: shards cut earlier in the session never reach the store or the cache')


FINISHC = 'data::file_cleaner::SingleFileCleaner::finish::{closure#0}'
ADDIMPLC = 'data::file_cleaner::SingleFileCleaner::add_data_impl::{closure#0}'
# pipeline stage -> steps every successful return must have passed (callee suffixes); bypass = name of an emptiness test on
# the result of the first step whose true edge may skip the rest
ESSENTIAL = [
    (ADDIMPLC, ['deduplication::chunking::Chunker::next_block', 'FileDeduper::process_chunks'], 'is_empty'),
    (FINISHC, ['FileDeduper::finalize', 'FileUploadSession::register_single_file_clean_completion'], None),
    (PROC + '::{closure#0}', ['DataAggregator::finalize', 'FileUploadSession::register_new_xorb_for_upload'], None),
    (FIN, ['FileUploadSession::process_aggregated_data_as_xorb', 'SessionShardInterface::upload_and_register_session_shards'], None),
]


def r16g(ctx):
    """pipeline completeness: no stage can report success having skipped the step that hands its data on"""
    from .core import bool_edges, edges_where, strip_generics as sg_
    F = ctx.F
    n = 0
    for (path, steps, bypass) in ESSENTIAL:
        a = an(F.body(path))
        oks = [(b, si) for (b, si, k, e) in a.ret_sites() if k != 'err']
        first = None
        for st in steps:
            cs = [c for c in a.calls() if sg_(a.term(c).get('fn', '')).endswith(st.split('::', 1)[-1]) or sg_(a.term(c).get('res', '') or '').endswith(st)]
            if not ctx.check(len(cs) >= 1, 'R16g', path, st.split('::')[-1], '-', 'the stage calls %s' % st.split('::')[-1], 'the stage no longer calls %s: cannot establish completeness' % st):
                continue
            if first is None:
                first = cs
            cut = []
            if bypass:
                # nothing to hand on: the input slice is empty, or (after the first step) that step produced nothing
                is_in = lambda z: z[0] in ('upvar', 'param') and (z[1] == 'data' if z[0] == 'upvar' else z[2] == 'data')
                te0, _ = bool_edges(a, lambda e: e[0] == 'call' and sg_(e[1]).split('::')[-1] == bypass and is_in(e[2][0]))
                cut = list(te0) + list(edges_where(a, lambda op, l, r: op == 'Eq' and l[0] in ('len', 'call') and 'len' in flow.show(l) and flow.mentions(l, is_in) and r[:2] == ('const', 0)))
                if st is not steps[0]:
                    te, fe = bool_edges(a, lambda e: e[0] == 'call' and sg_(e[1]).split('::')[-1] == bypass and any(a.rooted_at(e[2][0], f_) for f_ in first))
                    cut += list(te)
            for (b, si) in oks:
                n += 1
                ctx.check(a.cfg.must_pass(b, via_blocks=cs, also_cut_edges=cut), 'R16g', path, 'Ok<-' + st.split('::')[-1], a.loc(b, si),
                          'a successful return passed %s%s' % (st.split('::')[-1], ' (or the block produced no chunks)' if cut else ''),
                          'the stage can report success without having called %s: data accepted so far is silently dropped from the upload' % st.split('::')[-1])
    # the file-info loop of process_aggregated_data_as_xorb runs to exhaustion and registers every file
    from . import loops as L
    a = an(F.body(PROC + '::{closure#0}'))
    adds = a.calls('data::shard_interface::SessionShardInterface::add_file_reconstruction_info')
    if ctx.check(len(adds) == 1, 'R16g', PROC, 'add_file_reconstruction_info', '-', 'one registration of file reconstruction info'):
        from . import rules_c05 as c05
        lp = c05.loop_of(a, adds[0])
        fin = a.calls('deduplication::data_aggregator::DataAggregator::finalize')
        wp = L.whole_pass(a, lp, lambda z: bool(fin) and a.rooted_at(z, fin[0])) if lp else None
        ok = wp is not None and L.every_iteration_passes(a, lp, adds[0])
        oks = [(b, si) for (b, si, k, e) in a.ret_sites() if k != 'err']
        ok = ok and all(a.cfg.must_pass(b, via_edges=wp['exhaust']) for (b, si) in oks)
        ctx.check(ok, 'R16g', PROC, 'file infos', a.loc(adds[0]), 'every file of the aggregate is registered: the loop over DataAggregator::finalize().1 runs to exhaustion, each iteration registers, success only after it',
                  'a file record of the aggregate can be left unregistered although process_aggregated_data_as_xorb reports success')
    ctx.floor('R16g', 'success-return x essential-step obligations in the upload pipeline', n, 8)


def short(n):
    return '::'.join(n.split('::')[-2:])


def r16e(ctx):
    from .core import edges_where, strip_generics as sg
    F = ctx.F
    a = an(F.body(REGC))
    xt = xorb_task(ctx)
    TASK = xt.path
    sp = [s_ for s_ in a.calls('tokio::task::join_set::JoinSet::spawn') if xt.spawned_in(a, s_)]
    if not ctx.check(len(sp) == 1, 'R16e', REGC, 'spawn', '-', 'one spawn of the put task'):
        return
    empty = edges_where(a, lambda op, l, r: op == 'Eq' and l[0] == 'call' and sg(l[1]).endswith('RawXorbData::num_bytes') and r == ('const', 0, 'usize'))
    oks = [(b, si) for (b, si, k, e) in a.ret_sites() if k != 'err']
    for (b, si) in oks:
        ok = a.cfg.must_pass(b, via_blocks=sp, also_cut_edges=empty)
        ctx.check(ok, 'R16e', REGC, 'Ok<-spawn', a.loc(b, si), 'a successful return passed the spawn of this xorb\'s upload task (or the xorb is empty)',
                  'register_new_xorb_for_upload can report success for a non-empty xorb without having spawned its upload: the shard will reference a xorb that is never stored')
    # name-agnostic: the put argument is a value captured by the task (closure capture, or parameter / field of the
    # struct handed to the task method); that capture is xorb.<method>() in register_new_xorb_for_upload
    want = [(2, 'hash', 'RawXorbData::hash'), (3, 'data', 'RawXorbData::to_vec'), (4, 'chunk boundaries', 'chunks_and_boundaries')]
    t = an(F.body(TASK))
    ps = t.calls(PUT)
    if not ctx.check(len(ps) == 1, 'R16e', TASK, 'put', '-', 'one put call in the upload task'):
        return
    roots = []
    for (i, what, meth) in want:
        arg = t.arg(ps[0], i)
        refs = [z for z in flow.subtrees(arg) if z[0] == 'upvar' and z[1] != 'self' or (z[0] == 'field' and z[1] == ('upvar', 'self'))]
        refs = [z for k_, z in enumerate(refs) if z not in refs[:k_]]
        direct = (arg in refs) or (i == 2 and len(refs) == 1)
        if not ctx.check(direct and len(refs) == 1, 'R16e', TASK, 'put.arg%d' % i, t.loc(ps[0]), 'the %s handed to put is a value captured by the task (%s)' % (what, [flow.show(z) for z in refs]),
                         'the %s handed to put is not simply a value captured from register_new_xorb_for_upload' % what):
            continue
        e = xt.capture_of(ctx, a, sp[0], refs[0])
        recv = [z for z in flow.subtrees(e) if z[0] == 'call' and sg(z[1]).endswith(meth)] if e is not None else []
        srcs_ = sorted({(y[0], y[1] if y[0] == 'upvar' else y[2]) for z in recv for y in flow.subtrees(z[2][0]) if y[0] in ('upvar', 'param', 'local')}) if recv else []
        roots.append(srcs_)
        ok = len(recv) == 1 and len(srcs_) == 1 and srcs_[0][0] in ('upvar', 'param')
        ctx.check(ok, 'R16e', REGC, 'task.' + what, a.loc(sp[0]), 'the task captures %s = xorb.%s()' % (flow.show(refs[0]), meth.split('::')[-1]),
                  'the upload task\'s %s does not derive from the xorb being registered' % what)
    nx = [l for l in F.body(REG)['locals'][1:F.body(REG)['argc'] + 1] if 'RawXorbData' in l.get('ty', l.get('t', ''))]
    ctx.check(len(roots) == 3 and all(r_ == roots[0] for r_ in roots) and len(nx) == 1, 'R16e', REGC, 'same xorb', a.loc(sp[0]),
              'hash, data and chunk boundaries are taken from one and the same xorb, the function\'s only RawXorbData parameter (%s)' % (roots[0] if roots else '?'),
              'hash, data and chunk boundaries handed to the upload task do not all come from the xorb being registered (%s)' % roots)


def _r16h(ctx):
    from . import rules_c11 as c11
    c11.r11c(c11._Alias(ctx, 'R11c', 'R16h'))
