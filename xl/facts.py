"""Fact base: load per-crate fact files written by xetlint, index bodies/ADTs, fail-closed anchor lookup."""
import glob, hashlib, json, os, pickle, re, subprocess, sys, time

VERIF = os.path.dirname(os.path.dirname(os.path.abspath(__file__)))
REPO = os.environ.get('XL_REPO', '/repo')
CACHE = os.path.join(VERIF, '.cache')

# library crates of the workspace that must each produce exactly one fact file (fail closed otherwise)
EXPECTED_LIBS = ['cas_client', 'cas_object', 'cas_types', 'chunk_cache', 'data', 'deduplication', 'error_printer',
                 'file_utils', 'mdb_shard', 'merkledb', 'merklehash', 'parutils', 'progress_reporting', 'utils',
                 'xet_threadpool']


class AnchorMissing(Exception):
    pass


def tree_hash(repo=None):
    """SHA-256 over every source/config file that can influence the analysed program."""
    repo = repo or REPO
    h = hashlib.sha256()
    files = []
    for root, dirs, fs in os.walk(repo):
        dirs[:] = [d for d in dirs if d not in ('target', '.git', 'node_modules')]
        for f in fs:
            if f.endswith('.rs') or f in ('Cargo.toml', 'Cargo.lock', 'config.toml', 'rust-toolchain.toml', 'rust-toolchain'):
                files.append(os.path.join(root, f))
    files.sort()
    for p in files:
        h.update(os.path.relpath(p, repo).encode())
        h.update(b'\0')
        with open(p, 'rb') as fh:
            h.update(fh.read())
        h.update(b'\0')
    # the extractor itself is part of the key
    drv = os.path.join(VERIF, 'xetlint', 'src', 'main.rs')
    with open(drv, 'rb') as fh:
        h.update(fh.read())
    return h.hexdigest()[:24]


def ensure_facts(config='rel', repo=None, verbose=True):
    """Return the directory holding facts for the repo's *current* working tree; extract if not cached."""
    repo = repo or REPO
    th = tree_hash(repo)
    d = os.path.join(CACHE, 'facts', th, config)
    ok = os.path.join(d, 'OK')
    if not os.path.exists(ok):
        t0 = time.time()
        os.makedirs(d, exist_ok=True)
        r = subprocess.run([os.path.join(VERIF, 'bin', 'extract.sh'), repo, d, config], stdout=subprocess.PIPE,
                           stderr=subprocess.PIPE, text=True)
        if r.returncode != 0:
            sys.stderr.write(r.stderr[-4000:])
            raise RuntimeError('fact extraction failed (the tree does not type-check under cargo +nightly check?)')
        with open(ok, 'w') as fh:
            fh.write('%.1f' % (time.time() - t0))
        if verbose:
            sys.stderr.write('[xl] extracted facts for tree %s (%s) in %.1fs\n' % (th, config, time.time() - t0))
        _gc_fact_cache(keep=th)
    return d, th


def _gc_fact_cache(keep, maxn=6):
    base = os.path.join(CACHE, 'facts')
    ds = [os.path.join(base, x) for x in os.listdir(base) if x != keep]
    ds.sort(key=lambda p: os.path.getmtime(p))
    import shutil
    for p in ds[:-maxn] if len(ds) > maxn else []:
        shutil.rmtree(p, ignore_errors=True)


class Facts:
    def __init__(self, factdir):
        self.dir = factdir
        self.crates = {}
        self.bodies = {}      # full path (crate-qualified) -> body
        self.adts = {}
        self.consts = {}
        self.by_crate = {}
        pk = os.path.join(factdir, 'merged.pickle')
        if os.path.exists(pk):
            with open(pk, 'rb') as fh:
                self.crates = pickle.load(fh)
        else:
            for f in sorted(glob.glob(os.path.join(factdir, '*.json'))):
                raw = open(f).read()
                m = re.match(r'\{"crate":"([A-Za-z0-9_]+)"', raw)
                # local items are printed as `crate::…`; make every path crate-qualified
                raw = re.sub(r'(?<![A-Za-z0-9_])crate::', m.group(1) + '::', raw)
                d = json.loads(raw)
                if d['test']:
                    continue
                key = d['crate'] if 'Rlib' in d['crate_kind'] else 'bin:' + d['crate']
                if key in self.crates:
                    raise RuntimeError('duplicate fact file for crate %s' % key)
                self.crates[key] = d
            with open(pk, 'wb') as fh:
                pickle.dump(self.crates, fh, protocol=4)
        missing = [c for c in EXPECTED_LIBS if c not in self.crates]
        if missing:
            raise RuntimeError('no fact file written for crates: %s' % missing)
        for key, d in self.crates.items():
            if d['n_stolen']:
                raise RuntimeError('stolen MIR bodies in %s: %s' % (key, d['stolen'][:5]))
            cname = d['crate']
            for b in d['bodies']:
                p = qualify(b['path'], cname)
                b['qpath'] = p
                b['crate'] = key
                if 'parent' in b:
                    b['qparent'] = qualify(b['parent'], cname)
                if key.startswith('bin:'):
                    p = key + '::' + p
                self.bodies[p] = b
                self.by_crate.setdefault(key, []).append(b)
            for a in d['adts']:
                self.adts[qualify(a['path'], cname)] = a
            for c in d['consts']:
                self.consts[qualify(c['path'], cname)] = c
        self.n_bodies = len(self.bodies)
        # functions that do not exist in the baseline decomposition are inlined into their callers (xl/inline.py)
        from . import inline
        self.inlined = inline.inline_new_functions(self) if os.path.exists(inline.BASELINE) else {}

    # ---- anchors (fail closed) -------------------------------------------------------------
    def body(self, qpath):
        b = self.bodies.get(qpath)
        if b is None:
            raise AnchorMissing('function not found: %s' % qpath)
        return b

    def find(self, suffix, crate=None):
        """All bodies whose qualified path ends with `suffix`."""
        r = [b for p, b in self.bodies.items() if p.endswith(suffix) and (crate is None or b['crate'] == crate)]
        return r

    def one(self, suffix, crate=None):
        r = self.find(suffix, crate)
        if len(r) != 1:
            raise AnchorMissing('expected exactly one function matching %r, found %d' % (suffix, len(r)))
        return r[0]

    def children(self, body):
        """closure / coroutine bodies nested directly in `body`."""
        q = body['qpath']
        out = [b for b in self.by_crate[body['crate']] if b.get('qparent') == q]
        # closures built here whose definition lies in a helper that was inlined into this body
        have = {b['qpath'] for b in out}
        for blk in body['blocks']:
            for s in blk['s']:
                r = s.get('r')
                if r and r.get('k') == 'agg' and r.get('ak') in ('closure', 'coroutine', 'coroutine_closure') and r.get('def'):
                    d = r['def']
                    if d not in have and d != q:
                        cb = self.bodies.get(d)
                        if cb is None:
                            cb = next((b for b in self.by_crate[body['crate']] if b['qpath'] == d or b.get('path') == d), None)
                        if cb is not None and cb['qpath'] not in have:
                            have.add(cb['qpath'])
                            out.append(cb)
        return out

    def descendants(self, body):
        out = []
        for c in self.children(body):
            out.append(c)
            out.extend(self.descendants(c))
        return out

    def adt(self, qpath):
        a = self.adts.get(qpath)
        if a is None:
            raise AnchorMissing('type not found: %s' % qpath)
        return a


def qualify(path, crate):
    return path


_FACTS = {}


def load(config='rel', repo=None, view='plain'):
    """view 'plain': the extracted program (new helper functions inlined); view 'desugared': additionally, Option/Result
    combinators with closure arguments are written out as matches (xl/inline.py)."""
    d, th = ensure_facts(config, repo)
    k = (d, view)
    if k not in _FACTS:
        f = Facts(d)
        f.tree_hash = th
        f.config = config
        f.view = view
        if view == 'desugared':
            from . import inline
            f.n_desugared = inline.desugar_combinators(f)
        _FACTS[k] = f
    return _FACTS[k]
