"""Obligations added after the fifth round of independent changes that are shared between properties (DESIGN.md 10.3)."""
from .core import an, strip_generics as sg
from . import flow

GET = 'chunk_cache::disk::DiskCache::get_impl'


def stale_entries_dropped(ctx, rid):
    """C13d: `get` finds the file of a tracked item gone (evicted through another handle, deleted externally) and reports
    a plain miss: the entry stays in the state for ever, num_items/total_bytes exceed what is on disk.
    Obligation: once find_match has produced an item, every path that looks again (next loop iteration) or returns a
    miss passes remove_item for that item; only the hit and error returns do not."""
    a = an(ctx.F.body(GET))
    fn = GET
    fm = a.calls('chunk_cache::disk::DiskCache::find_match')
    rm = a.calls('chunk_cache::disk::DiskCache::remove_item')
    if not ctx.check(len(fm) == 1 and len(rm) >= 1, rid, fn, 'sites', '-', 'one find_match and %d remove_item site(s) in get_impl' % len(rm)):
        return
    ve = a.variant_edges(fm[0], 'core::option::Option<')
    some = a.some_edges(ve)
    if not ctx.check(bool(some), rid, fn, 'found edge', a.loc(fm[0]), 'the Some edge of find_match is identified'):
        return
    # remove sites that remove the found item
    item_rm = [r for r in rm if flow.mentions(a.arg(r, 2), lambda z: a.rooted_at(z, fm[0]))]
    ctx.check(len(item_rm) >= 1, rid, fn, 'remove sites', '-', '%d remove_item call(s) take the item find_match returned' % len(item_rm))
    starts = [y for (_, y) in some]
    r = a.cfg.reach(starts, cut_blocks=item_rm)
    fail = a.failing_blocks()
    miss = []
    for (b, si, k, e) in a.ret_sites():
        if k != 'ok' or b not in r:
            continue
        for (sb, ssi, se) in a.flow.sources(e, (b, si)):
            blk = sb if sb is not None else b
            if blk in r and se[0] == 'agg' and se[3] and se[3][0][1][0] == 'agg' and se[3][0][1][2].endswith('Option::None'):
                miss.append((blk, ssi if sb is not None else si))
    ctx.check(not miss, rid, fn, 'miss after find', a.loc(*miss[0]) if miss else '-', 'after an item was found, a miss is reported only after remove_item dropped it from the state',
              'get can report a miss for an item it found in the state without removing it (e.g. its file is gone): the entry stays tracked, num_items and total_bytes no longer equal what is on disk')
    again = fm[0] in r
    ctx.check(not again, rid, fn, 'retry after find', a.loc(fm[0]), 'after an item was found, the lookup is repeated only after remove_item dropped it',
              'get can look the same item up again without having removed it from the state (endless loop or stale entry)')


def end_exclusive_ranges(ctx, rid):
    """C07d: `end >= num_chunks` rejects every range that ends at the last chunk.  The chunk-range accessors of CasObject
    take end-exclusive ranges: a range is rejected for its end only where end > num_chunks is established."""
    from .core import edges_where
    CO = 'cas_object::cas_object_format::CasObject::'
    n = 0
    for nm in ('generate_chunk_range_hash', 'get_byte_offset', 'uncompressed_range_length'):
        a = an(ctx.F.body(CO + nm))
        is_end = lambda z: z[0] == 'param' and z[1] == 3
        is_n = lambda z: z[0] == 'field' and z[2] == 'num_chunks'
        strip = lambda z: z[1] if z[0] == 'cast' else z
        errs = [b for (b, si, k, e) in a.ret_sites() if k == 'err' or (k == 'other' and False)]
        errs += [b for (b, si, k, e) in a.ret_sites() if k != 'ok' and flow.mentions(e, lambda z: z[0] == 'agg' and z[2].endswith('InvalidArguments'))]
        inval = [b for (b, si, k, e) in a.ret_sites() if flow.mentions(e, lambda z: z[0] == 'agg' and z[2].endswith('InvalidArguments'))]
        # the error may be built in an inlined helper and handed on with `?`: any place that builds InvalidArguments
        for b_ in sorted(a.cfg.reach0):
            for st_ in a.blocks[b_]['s']:
                r_ = st_.get('r')
                if r_ and r_.get('k') == 'agg' and (r_.get('adt') or '').endswith('CasObjectError') and r_.get('var') == 'InvalidArguments' and b_ not in inval:
                    inval.append(b_)
        gt = edges_where(a, lambda op, l, r: (op == 'Gt' and is_end(strip(l)) and is_n(strip(r))) or (op == 'Lt' and is_n(strip(l)) and is_end(strip(r))))
        ge = edges_where(a, lambda op, l, r: (op == 'Ge' and is_end(strip(l)) and is_n(strip(r))) or (op == 'Le' and is_n(strip(l)) and is_end(strip(r))))
        n += len(gt)
        ctx.check(bool(gt) and bool(inval), rid, CO + nm, 'end > num_chunks', '-', 'the range is rejected where end > num_chunks (%d edge(s))' % len(gt))
        bad = [(x, y) for (x, y) in ge if (x, y) not in gt and any(iv in a.cfg.reach([y]) or iv == y for iv in inval)]
        ctx.check(not bad, rid, CO + nm, 'end == num_chunks', a.loc(bad[0][0]) if bad else '-', 'no rejection is decided on end >= num_chunks: the range that ends at the last chunk is served',
                  'an end-exclusive chunk range is rejected where end >= num_chunks holds: every range that reaches the last chunk (the whole object, a one-chunk object) fails with InvalidArguments')
        # the success path is taken only where end <= num_chunks is established
        le = edges_where(a, lambda op, l, r: (op == 'Le' and is_end(strip(l)) and is_n(strip(r))) or (op == 'Ge' and is_n(strip(l)) and is_end(strip(r))))
        oks = [b for (b, si, k, e) in a.ret_sites() if k == 'ok']
        ctx.check(bool(le) and bool(oks) and all(a.cfg.must_pass(b, via_edges=le) for b in oks), rid, CO + nm, 'served ranges', '-', 'a range is served only where end <= num_chunks was established')
    ctx.floor(rid, 'end > num_chunks rejections in the chunk-range accessors', n, 3)


def merge_on_full_hash(ctx, rid):
    """C10d: merging on truncate_hash(h) treats two records whose hashes share their first 64 bits as one record: union
    and consolidation lose one of them, difference drops a record that is not in the other shard."""
    SO = 'mdb_shard::set_operations::'
    a = an(ctx.F.body(SO + 'get_next_actions'))
    CMPS = ('cmp', 'partial_cmp', 'eq', 'ne', 'lt', 'le', 'gt', 'ge')
    cmps = [c for c in a.calls() if sg(a.term(c).get('fn', '')).split('::')[-1] in CMPS
            and all(flow.mentions(a.arg(c, i), lambda z: z[0] == 'param' and z[1] in (1, 2)) for i in range(len(a.term(c)['args']))) and len(a.term(c)['args']) == 2]
    if ctx.check(len(cmps) >= 1, rid, a.path, 'comparison', '-', '%d comparison(s) of the two current records decide the merge step' % len(cmps), 'cannot establish: no comparison of the two current records'):
        def bare(e, p):
            # the hash parameter itself (through the Option/tuple payload projections and references), no call applied to it
            while e[0] in ('field', 'variant', 'cast', 'ref'):
                e = e[1]
            return e[0] == 'param' and e[1] == p
        for c in cmps:
            x, y = a.arg(c, 0), a.arg(c, 1)
            ok = (bare(x, 1) and bare(y, 2)) or (bare(x, 2) and bare(y, 1))
            ctx.check(ok, rid, a.path, 'full hashes', a.loc(c), 'the merge step orders the two records by their full 256-bit hashes',
                      'the merge step compares %s with %s, not the full hashes of the two records: records that agree on the compared part are taken for one record — a union or consolidation loses one of them, a difference drops a record the other shard does not contain'
                      % (flow.show(x)[:50], flow.show(y)[:50]))
        # nothing else derived from the hashes decides it
        other = [c for c in a.calls() if sg(a.term(c).get('fn', '')).split('::')[-1] in CMPS and c not in cmps
                 and any(flow.mentions(a.arg(c, i), lambda z: z[0] == 'param' and z[1] in (1, 2)) for i in range(len(a.term(c)['args'])))]
        ctx.check(not other, rid, a.path, 'other comparisons', a.loc(other[0]) if other else '-', 'no comparison involves something derived from only one of the hashes',
                  'a comparison in the merge step involves a value derived from a record hash (%s)' % (flow.show(a.arg(other[0], 0))[:50] if other else ''))
    f = an(ctx.F.body(SO + 'get_next_actions_for_file_info'))
    fc = [c for c in f.calls() if sg(f.term(c).get('fn', '')).split('::')[-1] in ('cmp', 'eq', 'ne')
          and sum(1 for i in range(len(f.term(c)['args'])) if flow.mentions(f.arg(c, i), lambda z: z[0] == 'field' and z[2] == 'file_hash')) == 2]
    ctx.check(len(fc) >= 1 and all(f.arg(c, i)[0] == 'field' and f.arg(c, i)[2] == 'file_hash' for c in fc for i in (0, 1)), rid, f.path, 'same file', f.loc(fc[0]) if fc else '-',
              'two file records are taken for the same file only on equality of their full file_hash fields')
    dl = [c for c in f.calls(SO + 'get_next_actions')]
    if not dl:
        # the fallback may be a local closure
        for ch in ctx.F.children(f.body):
            ac = an(ch)
            cs = ac.calls(SO + 'get_next_actions')
            if len(cs) == 1 and not any(flow.mentions(ac.arg(cs[0], i), lambda z: z[0] == 'call' and 'truncate' in sg(z[1])) for i in (0, 1)) \
                    and all(flow.mentions(ac.arg(cs[0], i), lambda z: z[0] == 'field' and z[2] == 'file_hash') or flow.mentions(ac.arg(cs[0], i), lambda z: z[0] in ('upvar', 'param')) for i in (0, 1)):
                ctx.check(True, rid, f.path, 'delegation', ac.loc(cs[0]), 'otherwise the step is decided by get_next_actions on the two records\' file hashes (in a local closure)')
                return
    def from_param(e, i, site):
        if flow.mentions(e, lambda z: z[0] == 'param' and z[1] == i + 1):
            return True
        return any(flow.mentions(se, lambda z: z[0] == 'param' and z[1] == i + 1) for (_, _, se) in f.flow.sources(e, (site, None)))
    ctx.check(len(dl) >= 1 and all(from_param(f.arg(d_, i), i, d_) and not flow.mentions(f.arg(d_, i), lambda z: z[0] == 'call' and 'truncate' in sg(z[1])) for d_ in dl for i in (0, 1)),
              rid, f.path, 'delegation', f.loc(dl[0]) if dl else '-', 'otherwise the step is decided by get_next_actions on the two records\' file hashes')
