"""C12 — a cache hit returns what was put: verified-flag typestate, hit dominated by verification, scan-path hygiene."""
from .core import an, strip_generics as sg, edges_where, bool_edges, success_edges, propagation, cond_edges
from . import flow, serde
from . import rules_c05 as c05

EXPLANATION = (
    'Decides: (R12a) typestate of the verified flag: VerificationCell::new_verified is called only by put_impl after SafeFileCreator::close succeeded, entries loaded by the directory scan are '
    'new_unverified, verify() is called only in get_impl on the equal edge of crc32(file) == item.checksum, nothing else stores the flag, the cell type is crate-private; (R12b) in get_impl every '
    'hit is dominated by is_verified() or that checksum equality and its payload is read from the file opened in the same iteration; missing file, checksum mismatch and unparsable header each lead to '
    'remove_item and a retry; (R12c) the scan accepts a file only if its metadata length equals the length encoded in its name; CacheItem::parse checks the decoded size and start < end; (R12d) the '
    'item name and the file header are written and parsed with the same token tables; (R12e) on the directory-scan path every slice/index operation on bytes derived from names found on disk is guarded. '
    'Not decided: the sub-range slicing arithmetic, equivalence to a model across histories, schedule interleavings.')

D = 'chunk_cache::disk::'
CELL = D + 'cache_item::VerificationCell::<T>::'
GET = D + 'DiskCache::get_impl'
PUT = D + 'DiskCache::put_impl'
INIT = D + 'DiskCache::initialize_state'
TPCF = D + 'try_parse_cache_file'
PARSE = D + 'cache_item::CacheItem::parse'
FNAME = D + 'cache_item::CacheItem::file_name'


def run(ctx):
    ctx.rule('R12a', 'verified-flag typestate: new_verified only after a successful close in put_impl; scan builds unverified cells; verify() only on checksum equality in get_impl; type is crate-private')
    ctx.rule('R12b', 'get_impl: a hit is dominated by is_verified or checksum equality; payload from the file opened in this iteration; damaged entries are removed and the lookup retried')
    ctx.rule('R12c', 'scan: a file is tracked only if its on-disk length equals the length in its name; name parser checks size and range')
    ctx.rule('R12d', 'writer/reader token tables agree for the item file name and the cache file header')
    ctx.rule('R12e', 'directory-scan path: slice/index operations on bytes decoded from directory entries are guarded by length checks')
    ctx.guarded('R12a', 'typestate', lambda: r12a(ctx))
    ctx.guarded('R12b', GET, lambda: r12b(ctx))
    ctx.guarded('R12c', TPCF, lambda: r12c(ctx))
    ctx.guarded('R12d', 'tokens', lambda: r12d(ctx))
    ctx.guarded('R12e', 'scan path', lambda: r12e(ctx))
    ctx.rule('R12f', 'get path: every index into the offset table of a cache file header (indices derive from the entry name, the table from the file) is covered by a successful checked lookup or a length comparison')
    ctx.guarded('R12f', D + 'get_range_from_cache_file', lambda: r12f(ctx))


def nontest_sites(ctx, name):
    return [(b, bi) for (b, bi) in ctx.cg.call_sites(name) if b['crate'] == 'chunk_cache' and '::tests::' not in b['qpath'] and 'test_utils' not in b['qpath'] and 'concurrency_tests' not in b['qpath']]


def r12a(ctx):
    F = ctx.F
    nv = nontest_sites(ctx, CELL + 'new_verified')
    ctx.check(len(nv) == 1 and nv[0][0]['qpath'] == PUT, 'R12a', PUT, 'new_verified callers', '-', 'new_verified is called only in put_impl', 'new_verified called from %s' % sorted({b['qpath'] for b, _ in nv}))
    if nv and nv[0][0]['qpath'] == PUT:
        a = an(nv[0][0])
        cl = a.calls('file_utils::safe_file_creator::SafeFileCreator::close')
        se = [e for c in cl for e in success_edges(a, c)]
        ctx.check(bool(se) and a.cfg.must_pass(nv[0][1], via_edges=se), 'R12a', PUT, 'new_verified<-close', a.loc(nv[0][1]), 'the verified cell is created only after the cache file was closed (flushed and renamed) successfully',
                  'a cell can be born verified although its file was not written successfully')
        # the verified item's checksum is the crc over exactly header+data that were written
        it = a.arg(nv[0][1], 0)
        ck = dict(it[3]).get('checksum') if it[0] == 'agg' else None
        ups = [u for u in a.calls('crc32fast::Hasher::update')]
        wr = [w for w in a.calls('std::io::Write::write_all')]
        same = len(ups) == 2 and len(wr) == 2 and sorted(flow.show(a.arg(u, 1)) for u in ups) == sorted(flow.show(a.arg(w, 1)) for w in wr)
        ctx.check(ck is not None and ck[0] == 'call' and sg(ck[1]).endswith('Hasher::finalize') and same, 'R12a', PUT, 'checksum', a.loc(nv[0][1]), 'the recorded checksum is the crc32 over the same two buffers (header, data) that are written to the file')
        ln = dict(it[3]).get('len') if it[0] == 'agg' else None
        ctx.check(ln is not None and ln[0] == 'bin' and ln[1] in ('Add', 'AddO') and 'len' in flow.show(ln), 'R12a', PUT, 'len', a.loc(nv[0][1]), 'the recorded len is header length + data length')
    nu = nontest_sites(ctx, CELL + 'new_unverified')
    ctx.check(len(nu) == 1 and nu[0][0]['qpath'] == INIT, 'R12a', INIT, 'new_unverified callers', '-', 'entries found by the directory scan are created unverified (only initialize_state calls new_unverified)',
              'new_unverified callers: %s' % sorted({b['qpath'] for b, _ in nu}))
    # every cell pushed in initialize_state is unverified
    ai = an(F.body(INIT))
    for p in ai.calls('alloc::vec::Vec::push'):
        el = ai.arg(p, 1)
        if 'VerificationCell' in flow.show(el):
            ctx.check(el[0] == 'call' and sg(el[1]).endswith('new_unverified'), 'R12a', INIT, 'scan cells', ai.loc(p), 'the scan pushes new_unverified(item)', 'the directory scan creates a cell that is not unverified: %s' % flow.show(el)[:60])
    vf = nontest_sites(ctx, CELL + 'verify')
    ctx.check(len(vf) == 1 and vf[0][0]['qpath'] == GET, 'R12a', GET, 'verify callers', '-', 'verify() is called only in get_impl', 'verify() callers: %s' % sorted({b['qpath'] for b, _ in vf}))
    # constructors
    n = an(F.body(CELL + 'new'))
    rs = [e for (_, _, _, e) in n.ret_sites()]
    ok = len(rs) == 1 and rs[0][0] == 'agg' and flow.mentions(dict(rs[0][3]).get('verification', ('top',)), lambda z: z[0] == 'call' and sg(z[1]).endswith('new') and z[2] and z[2][0] == ('param', 2, 'verified'))
    ctx.check(ok, 'R12a', n.path, 'flag init', '-', 'the flag is initialised from the `verified` argument')
    for nm, val in (('new_verified', 1), ('new_unverified', 0)):
        x = an(F.body(CELL + nm))
        cs = x.calls(CELL + 'new')
        ctx.check(len(cs) == 1 and x.arg(cs[0], 1) == ('const', val, 'bool'), 'R12a', x.path, 'literal', '-', '%s passes %s' % (nm, bool(val)))
    callers = {b['qpath'] for b, _ in nontest_sites(ctx, CELL + 'new')}
    ctx.check(callers == {CELL + 'new_verified', CELL + 'new_unverified'}, 'R12a', CELL + 'new', 'callers', '-', 'the raw constructor is used only by new_verified/new_unverified', 'callers: %s' % sorted(callers))
    # who stores the flag
    st = set()
    for p, b in F.bodies.items():
        if b['crate'] != 'chunk_cache' or '::tests::' in p:
            continue
        ab = an(b)
        for c in ab.calls('core::sync::atomic::Atomic::store') + ab.calls('core::sync::atomic::Atomic::swap') + ab.calls('core::sync::atomic::Atomic::fetch_or'):
            if flow.mentions(ab.arg(c, 0), lambda z: z[0] == 'field' and z[2] == 'verification'):
                st.add(p)
    ctx.check(st == {CELL + 'verify'}, 'R12a', 'chunk_cache', 'flag writers', '-', 'only verify() stores the flag', 'flag stored in %s' % sorted(st))
    adt = F.adt('chunk_cache::disk::cache_item::VerificationCell')
    ctx.check(not adt.get('exported'), 'R12a', 'chunk_cache::disk::cache_item::VerificationCell', 'visibility', '-', 'VerificationCell is not reachable from outside the crate')
    ctx.check(all(f['vis'] != 'pub' for f in adt['variants'][0]['fields']), 'R12a', 'chunk_cache::disk::cache_item::VerificationCell', 'fields', '-', 'its fields are private')


def r12b(ctx):
    a = an(ctx.F.body(GET))
    fn = GET
    vf = a.calls(CELL + 'verify')
    crc = a.calls(D + 'crc32_from_reader')
    opens = a.calls('std::fs::File::open')
    if not ctx.check(len(crc) == 1 and len(opens) == 1 and len(vf) == 1, 'R12b', fn, 'sites', '-', 'one File::open, one crc32_from_reader, one verify in get_impl'):
        return
    eq = edges_where(a, lambda op, l, r: op == 'Eq' and a.rooted_at(l, crc[0]) and r[0] == 'field' and r[2] == 'checksum')
    ctx.check(bool(eq) and a.cfg.must_pass(vf[0], via_edges=eq), 'R12a', fn, 'verify<-checksum', a.loc(vf[0]), 'verify() is dominated by the equal edge of crc32_from_reader(file) == cache_item.checksum',
              'an entry can be marked verified without its checksum having matched')
    ctx.check(a.rooted_at(a.arg(crc[0], 0), opens[0]), 'R12b', fn, 'crc.file', a.loc(crc[0]), 'the checksum is computed over the file that was just opened')
    tv, fv = bool_edges(a, lambda e: e[0] == 'call' and sg(e[1]).endswith('is_verified'))
    hits = []
    for (b, si, k, e) in a.ret_sites():
        if k == 'ok' and e[3][0][1][0] == 'agg' and e[3][0][1][2].endswith('Option::Some'):
            hits.append((b, si, e[3][0][1][3][0][1]))
    # a hit that re-wraps the payload of an Option built elsewhere (`if let Some(buf) = helper()? { return Ok(Some(buf)) }`)
    # is judged at the place where that Option was built
    rew = []
    for (b_, si_, pl_) in hits:
        if a.root_call(pl_) is None and pl_[0] == 'local':
            inner = [z for (_, _, se_) in a.flow.sources(pl_, (b_, si_)) for z in flow.subtrees(se_)
                     if z[0] == 'agg' and z[2].endswith('Option::Some') and z[3] and a.root_call(z[3][0][1]) is not None]
            if inner:
                rew.append((b_, si_))
    if rew:
        hits = [h for h in hits if (h[0], h[1]) not in rew]
    if not hits:
        # the hit may be built further away from the return (an inlined helper's result, a result variable): every
        # `Some(range)` of the cache's payload type built in the function is a hit site
        for b_ in sorted(a.cfg.reach0):
            for si_, st_ in enumerate(a.blocks[b_]['s']):
                r_, d_ = st_.get('r'), st_.get('d')
                if r_ and d_ and 'p' not in d_ and r_.get('k') == 'agg' and r_.get('ak') == 'adt' and r_.get('var') == 'Some' and 'Option' in (r_.get('adt') or '') \
                        and 'CacheRange' in a.flow.lty(d_['l']):
                    e_ = a.flow.rvalue(r_, 0)
                    pl_ = e_[3][0][1]
                    if a.root_call(pl_) is None and pl_[0] == 'local':
                        # a re-wrap `Some(x)` of the payload of an Option built elsewhere in the function: not a hit site of its own
                        srcs_ = a.flow.sources(pl_, (b_, si_))
                        if any(flow.mentions(se_, lambda z: z[0] == 'agg' and z[2].endswith('Option::Some') and z[3] and a.root_call(z[3][0][1]) is not None
                                             and sg(a.root_call(z[3][0][1])[1]).endswith('get_range_from_cache_file')) for (_, _, se_) in srcs_):
                            continue
                    hits.append((b_, si_, pl_))
    ctx.floor('R12b', 'hit returns in get_impl', len(hits), 1)
    lp = c05.loop_of(a, opens[0])
    for (b, si, payload) in hits:
        ok = lp is not None and c05.in_iteration_guarded(a, lp, b, list(tv) + list(eq))
        ctx.check(ok, 'R12b', fn, 'hit guard', a.loc(b, si), 'a hit is returned only on the is_verified() edge or the checksum-equal edge of the same iteration',
                  'a hit can be returned for an unverified entry whose checksum was not compared: damaged or planted files are served as data')
        rc = a.root_call(payload)
        ok2 = rc is not None and sg(rc[1]).endswith('get_range_from_cache_file') and flow.mentions(rc[2][1], lambda z: a.rooted_at(z, opens[0]))
        ctx.check(ok2, 'R12b', fn, 'payload', a.loc(b, si), 'the payload is read by get_range_from_cache_file from the file opened in this iteration')
        if rc is not None:
            ctx.check(rc[2][2] == ('param', 3, 'range') and flow.mentions(rc[2][3], lambda z: z[0] == 'field' and z[2] == 'start'), 'R12b', fn, 'payload.args', a.loc(b, si), 'sliced for the requested range relative to the item\'s start')
    # self-healing: each failure edge reaches remove_item before the next iteration
    rms = a.calls(D + 'DiskCache::remove_item')
    ctx.floor('R12b', 'remove_item sites in get_impl', len(rms), 3)
    ne = edges_where(a, lambda op, l, r: op == 'Ne' and a.rooted_at(l, crc[0]) and r[0] == 'field' and r[2] == 'checksum')
    if lp:
        head, blks = lp
        latches = [(x, head) for x in blks if head in a.cfg.succ[x]]
        rm_out = [e for r_ in rms for e in a.cfg.out_edges(r_)]
        for (x, y) in ne:
            r = a.cfg.reach([y], cut_edges=set(rm_out))
            bad = [l for l in latches if l[0] in r] + [h for h in hits if h[0] in r]
            ctx.check(not bad, 'R12b', fn, 'mismatch -> remove', a.loc(x), 'from the checksum-mismatch edge neither a hit nor the next iteration is reachable without remove_item')
    for r_ in rms:
        okp, d = propagation(a, r_)
        ctx.check(okp, 'R12b', fn, 'remove_item?', a.loc(r_), 'remove_item errors propagate: ' + d)


def r12c(ctx):
    F = ctx.F
    a = an(F.body(TPCF))
    fn = TPCF
    ps = a.calls(PARSE)
    hits = [(b, si, e) for (b, si, k, e) in a.ret_sites() if k == 'ok' and e[3][0][1][0] == 'agg' and e[3][0][1][2].endswith('Option::Some')]
    if ctx.check(len(ps) == 1 and len(hits) == 1, 'R12c', fn, 'sites', '-', 'one CacheItem::parse and one Ok(Some(item))'):
        eq = edges_where(a, lambda op, l, r: op == 'Eq' and l[0] == 'call' and sg(l[1]).endswith('Metadata::len') and r[0] == 'field' and r[2] == 'len' and a.rooted_at(r, ps[0]))
        b, si, e = hits[0]
        ctx.check(bool(eq) and a.cfg.must_pass(b, via_edges=eq), 'R12c', fn, 'len check', a.loc(b, si), 'an item is tracked only on the equal edge of metadata.len() == the length encoded in its name',
                  'a truncated or padded cache file can be tracked (its name\'s length is not compared with the file)')
        ctx.check(a.rooted_at(e[3][0][1][3][0][1], ps[0]), 'R12c', fn, 'item', a.loc(b, si), 'the tracked item is the parsed name')
        tf, ff = bool_edges(a, lambda z: z[0] == 'call' and sg(z[1]).endswith('Metadata::is_file'))
        ctx.check(bool(tf) and a.cfg.must_pass(b, via_edges=tf), 'R12c', fn, 'is_file', a.loc(b, si), 'only regular files are tracked')
        ne = edges_where(a, lambda op, l, r: op == 'Ne' and l[0] == 'call' and sg(l[1]).endswith('Metadata::len') and r[0] == 'field' and r[2] == 'len')
        rms = a.calls(D + 'remove_file')
        rm_out = [x for r_ in rms for x in a.cfg.out_edges(r_)]
        for (x, y) in ne:
            r = a.cfg.reach([y], cut_edges=rm_out)
            ctx.check(not (r & set(a.cfg.returns)) or all(bb in a.error_blocks() for bb in (r & set(a.cfg.returns))), 'R12c', fn, 'mismatch -> remove', a.loc(x), 'a length-mismatched file is removed before returning')
    p = an(F.body(PARSE))
    oks = [(b, si, e) for (b, si, k, e) in p.ret_sites() if k == 'ok']
    eqs = edges_where(p, lambda op, l, r: op == 'Eq' and l[0] in ('call', 'len') and 'len' in flow.show(l) and flow.const_eval(r) == 20)
    lt = edges_where(p, lambda op, l, r: op == 'Lt' and p.root_call(l) is not None and p.root_call(r) is not None and sg(p.root_call(l)[1]).endswith('read_u32') and sg(p.root_call(r)[1]).endswith('read_u32'))
    ok = len(oks) == 1 and bool(eqs) and bool(lt) and p.cfg.must_pass(oks[0][0], via_edges=eqs) and p.cfg.must_pass(oks[0][0], via_edges=lt)
    ctx.check(ok, 'R12c', PARSE, 'size+range', p.loc(oks[0][0], oks[0][1]) if oks else '-', 'CacheItem::parse returns Ok only if the decoded name is exactly 20 bytes and start < end',
              'CacheItem::parse can accept a name of the wrong size or an empty/inverted range')


def r12d(ctx):
    F = ctx.F
    w = an(F.body(FNAME))
    r = an(F.body(PARSE))
    wt = serde.tokens(w)
    rt = serde.tokens(r)
    oks = [e for (_, _, k, e) in r.ret_sites() if k == 'ok']
    fm = serde.reader_fields(r, rt, oks[0][3][0][1]) if oks else {}
    wseq = [(t['width'], serde.writer_field(t['value'])) for t in wt]
    rseq = [(t['width'], fm.get(t['block'])) for t in rt]
    ctx.check(wseq == rseq and len(wseq) == 4, 'R12d', FNAME, 'tokens', '-', 'file_name writes and parse reads the same table %s' % wseq, 'item name writer/reader disagree: writer %s, reader %s' % (wseq, rseq))
    tot = sum(serde.WIDTH[x[0]] for x in wseq)
    c = F.consts.get('chunk_cache::disk::cache_item::CACHE_ITEM_FILE_NAME_BUF_SIZE')
    ctx.check(c is not None and int(c['v']) == tot, 'R12d', FNAME, 'size', '-', 'the widths sum to CACHE_ITEM_FILE_NAME_BUF_SIZE = %s' % (c and c['v']))
    H = 'chunk_cache::disk::cache_file_header::CacheFileHeader::'
    hs = an(F.body(H + 'serialize'))
    hd = an(F.body(H + 'deserialize'))
    ws = serde.tokens(hs)
    rs = serde.tokens(hd)
    okw = [t['width'] for t in ws] == ['u32', 'u32s'] and ws[0]['value'][0] in ('call', 'len') and flow.show(ws[0]['value']).startswith('Vec::len(self.chunk_byte_indices') and flow.show(ws[1]['value']) .startswith('self.chunk_byte_indices')
    if not okw and [t['width'] for t in ws] == ['u32', 'u32'] and ws[0]['rep'] is None and ws[1]['rep'] is not None:
        # write_u32s written out: one u32 per element in a loop that passes over the whole vector
        from . import loops as L_
        lpw = serde.innermost_loop(hs, ws[1]['block'])
        wp = L_.whole_pass(hs, lpw, lambda z: 'chunk_byte_indices' in flow.show(z)) if lpw else None
        okw = ws[0]['value'][0] in ('call', 'len') and flow.show(ws[0]['value']).startswith('Vec::len(self.chunk_byte_indices') and wp is not None
    okr = [t['width'] for t in rs] == ['u32', 'u32'] and rs[0]['rep'] is None and rs[1]['rep'] is not None
    bound_ok = False
    if okr:
        lp = serde.innermost_loop(hd, rs[1]['block'])
        # loop bound originates from the first token
        for b in lp[1]:
            t = hd.blocks[b]['t']
            if t['k'] == 'call' and sg(t.get('fn', '')).endswith('Iterator::next'):
                it = hd.arg(b, 0)
                bound_ok = bound_ok or flow.mentions(hd.flow.local(it[1]) if it[0] == 'local' else it, lambda z: _range_to_token(hd, z, rs[0]['block']))
        if not bound_ok:
            # the iterator local is a join point; look at its initial definition
            for l, ds in hd.flow.defs.items():
                for d in ds:
                    if d[0] == 'assign':
                        e = hd.flow.rvalue(d[3], 0)
                        if _range_to_token(hd, e, rs[0]['block']):
                            bound_ok = True
    if okr and not bound_ok:
        # `i = 0; while i < n { ..; i += 1 }`: a counting loop whose bound is the first token itself
        from . import loops as L_
        lp = serde.innermost_loop(hd, rs[1]['block'])
        def _is_tok(z):
            while z[0] == 'cast':
                z = z[1]
            return hd.rooted_at(z, rs[0]['block'])
        cl = L_.counting_loop(hd, lp, _is_tok, strict=False) if lp else None
        bound_ok = cl is not None
    ctx.check(okw and okr and bound_ok, 'R12d', H + 'serialize', 'tokens', '-', 'header: writer (u32 = len, u32 x len), reader (u32 n, then n x u32 with the loop running over 0..n, n being the first token itself)',
              'cache file header writer/reader disagree: writer %s reader %s' % ([t['width'] for t in ws], [(t['width'], t['rep'] is not None) for t in rs]))
    hl = an(F.body(H + 'header_len'))
    e = [x for (_, _, _, x) in hl.ret_sites()]
    ok = False
    if len(e) == 1 and e[0][0] == 'bin' and e[0][1] in ('Mul', 'MulO'):
        for (f4, sm) in ((e[0][3], e[0][2]), (e[0][2], e[0][3])):
            while sm[0] == 'cast':
                sm = sm[1]
            if flow.const_eval(f4) == 4 and sm[0] == 'bin' and sm[1] in ('Add', 'AddO'):
                for (one, ln) in ((sm[3], sm[2]), (sm[2], sm[3])):
                    if flow.const_eval(one) == 1 and 'chunk_byte_indices' in flow.show(ln):
                        ok = True
    ctx.check(ok, 'R12d', H + 'header_len', 'formula', '-', 'header_len = (len + 1) * 4 = sum of the token widths')


def _range_to_token(a, e, tok_block):
    """e is a range 0..N (or 0..=N-1 is not accepted) whose end N is the value read by the token at tok_block itself — through casts and
    the `?` payload only.  A bound that is merely derived from it (min/clamp, minus one, masked) reads a different number of
    elements than the writer wrote (seed C12e: `.min(MAX)` dropped the trailing offsets of a full xorb's header)."""
    if not (e[0] == 'agg' and 'ops::range::Range' in e[2]):
        return False
    d = dict(e[3])
    end = d.get('end')
    st = d.get('start')
    if end is None or st is None:
        return False
    while end[0] == 'cast':
        end = end[1]
    while st[0] == 'cast':
        st = st[1]
    return st[:2] == ('const', 0) and a.rooted_at(end, tok_block)


def r12f(ctx):
    """the slicing of a cache file by its header: indices come from the entry's *name* (range) and index a table read
    from the file; a renamed or planted entry can make them disagree, so every index into header.chunk_byte_indices must
    be covered by a successful checked lookup (`.get(i)`) of an index at least as large, or by a length comparison"""
    F = ctx.F
    if getattr(F, 'config', 'rel') != 'rel':
        return
    a = an(F.body(D + 'get_range_from_cache_file'))
    fn = a.path
    is_tab = lambda z: flow.mentions(z, lambda y: y[0] == 'field' and y[2] == 'chunk_byte_indices')
    gets = [c for c in a.calls() if sg(a.term(c).get('fn', '')).split('::')[-1] == 'get' and len(a.term(c)['args']) == 2 and is_tab(a.arg(c, 0))]
    guards = {}      # printed index expression -> edges on which table.get(index) succeeded
    for g in gets:
        ed = list(a.some_edges(a.variant_edges(g, 'core::option::Option<'))) + list(a.some_edges(a.dest_variant_edges(g)))
        guards.setdefault(flow.show(a.arg(g, 1)), []).extend(ed)
    # `table.get(i).ok_or(err)?` (the checked lookup is an indexing expression in the value flow)
    for c in a.calls():
        if sg(a.term(c).get('fn', '')).split('::')[-1] in ('ok_or', 'ok_or_else') and a.term(c)['args']:
            v = a.arg(c, 0)
            if v[0] == 'index' and is_tab(v[1]):
                guards.setdefault(flow.show(v[2]), []).extend(success_edges(a, c))
    n = 0
    for cb in a.calls('core::ops::index::Index::index', 'core::slice::index::index', 'core::ops::index::IndexMut::index_mut'):
        base, idx = a.arg(cb, 0), a.arg(cb, 1)
        if not is_tab(base):
            continue
        n += 1
        need = [idx]
        if idx[0] == 'agg' and 'Range' in idx[2]:
            need = [c for nm_, c in idx[3] if nm_ in ('start', 'end')]
        elif idx[0] == 'call' and 'Range' in idx[1] and sg(idx[1]).endswith('::new'):
            need = list(idx[2][:2])
        ok = True
        for x in need:
            ed = guards.get(flow.show(x), [])
            lt = edges_where(a, lambda op, l, r: op in ('Lt', 'Le') and flow.eqv(l, x) and 'len' in flow.show(r) and is_tab(r))
            ok = ok and bool(ed or lt) and a.cfg.must_pass(cb, via_edges=list(ed) + list(lt))
        ctx.check(ok, 'R12f', fn, 'table index', a.loc(cb), 'the index into the header\'s offset table is covered by a successful checked lookup of the same index (or a length comparison)',
                  'the header\'s offset table is indexed with a value derived from the entry\'s name without a bound check: a renamed or planted cache entry whose name claims a wider range than its header holds panics the cache on get')
    ctx.floor('R12f', 'indexings of header.chunk_byte_indices in get_range_from_cache_file', n, 1)


def r12e(ctx):
    """K10 on the directory-scan path: slice / index operations on decoded directory-entry names."""
    F = ctx.F
    if getattr(F, 'config', 'rel') != 'rel':
        ctx.info('R12e', 'scan path', '-', 'panic-freedom is decided in release semantics only (debug_assert! exists to panic in development builds); skipped in the %s configuration' % F.config)
        return
    fns = [INIT, D + 'read_dir', D + 'is_ok_dir', D + 'try_parse_key', TPCF, PARSE, D + 'remove_file']
    n = 0
    for p in fns:
        a = an(F.body(p))
        for cb in a.calls('core::ops::index::Index::index', 'core::slice::index::index', 'core::ops::index::IndexMut::index_mut'):
            base, idx = a.arg(cb, 0), a.arg(cb, 1)
            # only range-indexing with a non-full range can panic on length
            if not (idx[0] == 'agg' and 'Range' in idx[2]) or 'RangeFull' in idx[2]:
                continue
            tainted = flow.mentions(base, lambda z: z[0] == 'call' and (sg(z[1]).endswith('Engine::decode') or sg(z[1]).endswith('as_encoded_bytes') or sg(z[1]).endswith('file_name')))
            if not tainted:
                continue
            n += 1
            bound = [c for _, c in idx[3]]
            ok = False
            why = ''
            for bd in bound:
                v = flow.const_eval(bd)
                if v is None:
                    continue
                # guard: a dominating edge on which len(base) >= v (Ge / the false edge of Lt)
                ge = edges_where(a, lambda op, l, r: op in ('Ge', 'Gt', 'Eq') and 'len' in flow.show(l) and flow.mentions(l, lambda z: flow.eqv(z, base)) and flow.const_eval(r) is not None and
                                 (flow.const_eval(r) >= v if op in ('Ge', 'Eq') else flow.const_eval(r) >= v - 1))
                if ge and a.cfg.must_pass(cb, via_edges=ge):
                    ok = True
                    why = 'dominated by len >= %d' % v
            if p == INIT and a.term(cb).get('ex'):
                # inside debug_assert!: absent in release semantics (the edge is pruned); reported as information
                ctx.info('R12e', p, a.loc(cb), 'range index inside a debug assertion (debug builds only)')
                continue
            ctx.check(ok, 'R12e', p, 'index', a.loc(cb), 'range index %s on bytes decoded from a directory entry is %s' % (flow.show(idx)[:40], why),
                      'unguarded range index %s on bytes decoded from a name found on disk: a planted or damaged directory entry panics the cache on open' % flow.show(idx)[:50])
        # `buf.split_at(mid)` panics when mid > len: same obligation as a range index
        for cb in a.calls():
            if sg(a.term(cb).get('fn', '')).split('::')[-1] not in ('split_at', 'split_at_mut') or len(a.term(cb)['args']) != 2:
                continue
            base, mid = a.arg(cb, 0), a.arg(cb, 1)
            if not flow.mentions(base, lambda z: z[0] == 'call' and (sg(z[1]).endswith('Engine::decode') or sg(z[1]).endswith('as_encoded_bytes') or sg(z[1]).endswith('file_name'))):
                continue
            n += 1
            v = flow.const_eval(mid)
            ge = edges_where(a, lambda op, l, r: op in ('Ge', 'Gt', 'Eq') and 'len' in flow.show(l) and flow.mentions(l, lambda z: flow.eqv(z, base)) and flow.const_eval(r) is not None and v is not None and
                             (flow.const_eval(r) >= v if op in ('Ge', 'Eq') else flow.const_eval(r) >= v - 1)) if v is not None else []
            ctx.check(bool(ge) and a.cfg.must_pass(cb, via_edges=ge), 'R12e', p, 'split_at', a.loc(cb), 'split_at(%s) on bytes decoded from a directory entry is dominated by len >= %s' % (v, v),
                      'unguarded split_at on bytes decoded from a name found on disk: a planted or damaged directory entry panics the cache on open')
        # unwrap/expect on tainted values
        for cb in a.calls('core::result::Result::unwrap', 'core::option::Option::unwrap', 'core::result::Result::expect', 'core::option::Option::expect'):
            v = a.arg(cb, 0)
            if flow.mentions(v, lambda z: z[0] == 'call' and (sg(z[1]).endswith('Engine::decode') or sg(z[1]).endswith('from_utf8') or sg(z[1]).endswith('from_slice') or sg(z[1]).endswith('to_str'))):
                n += 1
                ctx.fail('R12e', p, 'unwrap', a.loc(cb), 'unwrap/expect on a value parsed from a name found on disk (%s)' % flow.show(v)[:50])
    ctx.floor('R12e', 'input-tainted range-index / split_at sites on the scan path', n, 1)
