"""C07 — xorb serialisation: writer/reader table agreement and sibling-decoder agreement (structural clauses)."""
from .core import an, strip_generics as sg, edges_where, bool_edges, success_edges, propagation
from . import flow, serde, paths
from . import rules_c05 as c05
from . import rules_c09 as c09

EXPLANATION = (
    'Decides necessary conditions of any round trip: (R07a) CasObjectInfoV1::serialize and its three readers (sync, async, boundaries-only) walk the same token table (width, repetition, field), the async and '
    'boundaries-only readers a suffix of it; repeated groups are bounded by the count token read just before them and the writer rejects a count that differs from the list length; (R07b) the 8-byte chunk header is written '
    'field by field in the declaration order of the packed struct that the readers reinterpret, the 3-byte length helpers use the same little-endian byte range; (R07c) the synchronous and asynchronous chunk decoders perform '
    'the same steps (validated header, scheme from the header, declared-vs-actual length rejection, same returned pair) and the multi-chunk decoders accumulate offsets identically; the stream variant is a thin wrapper; '
    '(R07d) CasObject::serialize pushes the running sum of serialize_chunk results as boundary offsets, slices the data by consecutive boundaries, fills the section offsets before writing the footer and writes the footer length last; '
    '(R07e) serialize_chunk takes the header\'s scheme and the bytes written from the same branch of the incompressible fallback. Not decided: byte equality through lz4/bg4 for every input, bg4 pointer arithmetic.')

CO = 'cas_object::cas_object_format::'
CF = 'cas_object::cas_chunk_format::'
V1 = CO + 'CasObjectInfoV1::'


def run(ctx):
    ctx.rule('R07a', 'footer writer and readers walk the same token table; repeated groups bounded by their count token; writer checks count == list length')
    ctx.rule('R07b', 'chunk header written in the declaration order of the packed struct the readers reinterpret; 3-byte helpers agree')
    ctx.rule('R07c', 'sync / async / stream chunk decoders agree step by step')
    ctx.rule('R07d', 'CasObject::serialize: boundary offsets = running sum of chunk sizes; data sliced by consecutive boundaries; section offsets filled before the footer; footer length written last')
    ctx.rule('R07e', 'serialize_chunk: header scheme and written bytes come from the same fallback branch; header lengths are those of the bytes written and of the input chunk')
    ctx.guarded('R07a', V1 + 'serialize', lambda: r07a(ctx))
    ctx.guarded('R07b', CF + 'write_chunk_header', lambda: r07b(ctx))
    ctx.guarded('R07c', 'decoders', lambda: r07c(ctx))
    ctx.guarded('R07d', CO + 'CasObject::serialize', lambda: r07d(ctx))
    ctx.guarded('R07e', CF + 'serialize_chunk', lambda: r07e(ctx))
    ctx.rule('R07f', 'a loop that fills a buffer with several partial reads (the byte count of each read is added to a cursor) reads into the unread tail buf[cursor..]: otherwise a header delivered in two pieces is overwritten and the stream position is lost (the stream decoder then differs from the sync decoder)')
    ctx.guarded('R07f', 'fill loops', lambda: fill_loops(ctx, 'R07f'))
    ctx.rule('R07g', 'the chunk-range accessors of CasObject take end-exclusive ranges: a range is rejected for its end only where end > num_chunks is established and served only where end <= num_chunks (the range that ends at the last chunk is valid)')
    ctx.guarded('R07g', 'chunk-range accessors', lambda: __import__('xl.rules_r5', fromlist=['x']).end_exclusive_ranges(ctx, 'R07g'))


def norm_tokens(a, direction):
    """[(elem width, repeated?, field)]"""
    out = []
    for t in serde.tokens(a):
        if t['dir'] != direction:
            continue
        w = t['width']
        rep = t['rep'] is not None
        if w in ('u32s', 'u64s'):
            w, rep = w[:-1], True
        if direction == 'w':
            f = serde.writer_field(t['value']) if t['value'] is not None else None
            if t['rep'] is not None:
                # element of an iterated field: find the collection the loop iterates
                f = loop_source_field(a, t['rep']) or f
            f = (f or '').split('.')[-1] or None
        else:
            f = c09.field_sinks(a, t)
            if f is None:
                f = push_field(a, t['block'])
        out.append((w, rep, f, t['line'], t['block']))
    return out


def loop_source_field(a, head):
    blks = a.cfg.natural_loop(head)
    for b in blks:
        t = a.blocks[b]['t']
        if t['k'] == 'call' and sg(t.get('fn', '')).endswith('Iterator::next'):
            it = a.arg(b, 0)
            e = a.flow.local(it[1]) if it[0] == 'local' else it
            fs = [z for z in flow.subtrees(e) if z[0] == 'field']
            if fs:
                return fs[0][2]
            # join local: look at its defining assignment
            if it[0] == 'local':
                for d in a.flow.defs.get(it[1], []):
                    if d[0] == 'assign':
                        ee = a.flow.rvalue(d[3], 0)
                        fs = [z for z in flow.subtrees(ee) if z[0] == 'field']
                        if fs:
                            return fs[0][2]
                    if d[0] == 'call':
                        ee = a.flow.call(d[2], d[1], 0)
                        fs = [z for z in flow.subtrees(ee) if z[0] == 'field']
                        if fs:
                            return fs[0][2]
    return None


def push_field(a, rb):
    for p in a.calls('alloc::vec::Vec::push'):
        if a.rooted_at(a.arg(p, 1), rb):
            fs = [z for z in flow.subtrees(a.arg(p, 0)) if z[0] == 'field']
            if fs:
                return fs[0][2]
    return None


def r07a(ctx):
    F = ctx.F
    w = an(F.body(V1 + 'serialize'))
    W = norm_tokens(w, 'w')
    ctx.floor('R07a', 'tokens written by CasObjectInfoV1::serialize', len(W), 16)
    wkey = [(x[0], x[1]) for x in W]
    readers = [(V1 + 'deserialize', 0), (V1 + 'deserialize_async_v1::{closure#0}', 0), (V1 + 'deserialize_only_boundaries_section', 1)]
    for path, lead in readers:
        r = an(F.body(path))
        R = norm_tokens(r, 'r')
        R2 = R[lead:]
        rkey = [(x[0], x[1]) for x in R2]
        ok = len(rkey) >= 8 and wkey[len(wkey) - len(rkey):] == rkey
        ctx.check(ok, 'R07a', path, 'widths', '-', 'reader walks %s of the writer\'s table: %d tokens, widths and repetition agree' % ('the whole' if len(rkey) == len(wkey) else 'a suffix', len(rkey)),
                  'footer reader and writer disagree on widths/repetition: writer %s, reader %s' % (wkey[len(wkey) - len(rkey):], rkey))
        if ok:
            ws = W[len(W) - len(R2):]
            bad = [(wf[2], rf[2], rf[3]) for wf, rf in zip(ws, R2) if wf[2] and rf[2] and rf[2] not in ('end',) and wf[2] != rf[2] and not (wf[2] == 'num_chunks' and rf[2] in ('end', None))]
            ctx.check(not bad, 'R07a', path, 'fields', '-', 'every value is read into the field it was written from', 'field association differs (writer field, reader field, line): %s' % bad)
            # repeated groups are bounded by a count read just before (a Range whose end is rooted at an earlier read token)
            reps = [x for x in R2 if x[1] and x[0] in ('hash', 'u32') and serde.innermost_loop(r, x[4]) is not None]
            for x in reps:
                lp = serde.innermost_loop(r, x[4])
                okb = False
                for l, ds in r.flow.defs.items():
                    for d in ds:
                        if d[0] == 'assign':
                            e = r.flow.rvalue(d[3], 0)
                            if e[0] == 'agg' and 'Range' in e[2] and any(r.rooted_at(dict(e[3]).get('end', ('top',)), y[4]) for y in R if not y[1] and y[0] == 'u32' and y[3] < x[3]):
                                okb = True
                ctx.check(okb, 'R07a', path, 'group bound@%d' % x[3], '%s:%d' % (r.body['file'], x[3]), 'the repeated group is bounded by a count token read before it')
            # bulk groups (`buf.resize(n, 0); read_u32s(r, &mut buf)`): the buffer length is exactly a count token read
            # before, not a clamped / derived value (a shorter buffer silently truncates the group and misaligns the rest)
            for t in serde.tokens(r):
                if t['dir'] != 'r' or t['width'] not in ('u32s', 'u64s'):
                    continue
                buf = r.arg(t['block'], 1) if len(r.term(t['block'])['args']) > 1 else None
                rz = [c for c in r.calls('alloc::vec::Vec::resize') if buf is not None and flow.show(r.arg(c, 0)) == flow.show(buf) and r.cfg.must_pass(t['block'], via_blocks=[c])]
                okz = False
                for c in rz:
                    n_ = r.arg(c, 1)
                    okz = okz or any(r.rooted_at(n_, y[4]) for y in R if not y[1] and y[0] == 'u32' and y[3] <= t['line'])
                ctx.check(bool(rz) and okz, 'R07a', path, 'bulk bound@%d' % t['line'], '%s:%d' % (r.body['file'], t['line']), 'the bulk-read buffer is sized by exactly the count token read before it',
                          'a bulk-read group is not sized by its count token (a clamped or derived length truncates the group and misaligns everything read after it)')
    # writer: count == list length before each group
    for fld in ('chunk_hashes', 'chunk_boundary_offsets', 'unpacked_chunk_offsets'):
        eq = edges_where(w, lambda op, l, r: op == 'Eq' and flow.mentions(l, lambda z: z[0] == 'field' and z[2] == 'num_chunks') and 'len' in flow.show(r) and flow.mentions(r, lambda z: z[0] == 'field' and z[2] == fld))
        grp = [x for x in W if x[2] == fld]
        ok = bool(eq) and bool(grp) and all(w.cfg.must_pass(x[4], via_edges=eq) for x in grp)
        ctx.check(ok, 'R07a', V1 + 'serialize', 'count==len(%s)' % fld, '-', 'the %s group is written only on the num_chunks == %s.len() edge' % (fld, fld),
                  'the writer can emit a %s group whose length differs from the count token' % fld)
    # fill_in_boundary_offsets
    f = an(F.body(V1 + 'fill_in_boundary_offsets'))
    for fld in ('hashes_section_offset_from_end', 'boundary_section_offset_from_end'):
        ctx.check(len(f.stores_to_field(fld)) == 1, 'R07a', f.path, fld, '-', 'fill_in_boundary_offsets sets ' + fld)


def r07b(ctx):
    F = ctx.F
    w = an(F.body(CF + 'write_chunk_header'))
    adt = F.adt('cas_object::cas_chunk_format::CASChunkHeader')
    decl = [(x['n'], x['ty']) for x in adt['variants'][0]['fields']]
    ctx.check(adt.get('repr_packed') and adt.get('repr_c'), 'R07b', 'cas_object::cas_chunk_format::CASChunkHeader', 'repr', '-', 'CASChunkHeader is #[repr(C, packed)] (its in-memory layout is its declaration order)')
    ws = [c for c in w.calls('std::io::Write::write_all')]
    order = serde.topo_blocks(w, [bb for (bb, si, k, _) in w.ret_sites() if k == 'err'])
    ws.sort(key=lambda b: order.index(b))
    seq = []
    for c in ws:
        e = w.arg(c, 1)
        fs = [z for z in flow.subtrees(e) if z[0] == 'field']
        seq.append(fs[0][2] if fs else '?')
    ctx.check(seq == [n for n, _ in decl] and len(seq) == 4, 'R07b', w.path, 'order', '-', 'write_chunk_header writes %s: the declaration order of the packed struct' % seq,
              'write_chunk_header writes %s but the struct the readers reinterpret declares %s' % (seq, [n for n, _ in decl]))
    sz = sum(int(t.split(';')[1].strip(' ]')) if t.startswith('[u8') else 1 for _, t in decl)
    c = F.consts.get('cas_object::cas_chunk_format::CAS_CHUNK_HEADER_LENGTH')
    ctx.check(c is not None and int(c['v']) == sz == 8, 'R07b', 'cas_object::cas_chunk_format::CAS_CHUNK_HEADER_LENGTH', 'size', '-', 'the field widths sum to CAS_CHUNK_HEADER_LENGTH = %s' % (c and c['v']))
    # 3-byte helpers: same byte range [0..3] of the little-endian form
    cp = an(F.body(CF + 'copy_three_byte_num'))
    cv = an(F.body(CF + 'convert_three_byte_num'))
    le1 = [x for x in cp.calls('core::num::to_le_bytes')]
    le2 = [x for x in cv.calls('core::num::from_le_bytes')]
    rng = lambda a: [flow.show(z) for b in a.calls('core::ops::index::Index::index', 'core::ops::index::IndexMut::index_mut', 'core::slice::index::index', 'core::slice::index::index_mut') for z in [a.arg(b, 1)]]

    def elems(e, base_pred, n):
        """e is an array aggregate whose first n components are base[0], base[1], .. in order"""
        return e[0] == 'agg' and e[1] == 'array' and len(e[3]) >= n and all(
            c[1][0] == 'index' and base_pred(c[1][1]) and c[1][2][:2] == ('const', k) for k, c in enumerate(e[3][:n]))
    # writer: buf <- bytes [0..3] of num.to_le_bytes(), by sub-slice copy or by an element-wise array
    is_le = lambda z: z[0] == 'call' and sg(z[1]).endswith('to_le_bytes') and z[2] and z[2][0][0] == 'param'
    w_slice = len(le1) == 1 and any('start: 0' in x and 'end: 3' in x for x in rng(cp))
    w_arr = False
    for b_ in sorted(cp.cfg.reach0):
        for st_ in cp.blocks[b_]['s']:
            d_ = st_.get('d')
            if d_ and d_.get('l') == 1 and d_.get('p') == ['*'] and st_.get('r'):
                e_ = cp.flow.rvalue(st_['r'], 0)
                w_arr = w_arr or (elems(e_, is_le, 3) and len(e_[3]) == 3)
    # reader: from_le_bytes of buf[0..3] followed by a zero byte
    r_slice = len(le2) == 1 and any('start: 0' in x and 'end: 3' in x for x in rng(cv))
    r_arr = False
    for c_ in le2:
        e_ = cv.arg(c_, 0)
        r_arr = r_arr or (elems(e_, lambda z: z[0] == 'param' and z[1] == 1, 3) and len(e_[3]) == 4 and e_[3][3][1][:2] == ('const', 0))
    ok = len(le1) == 1 and len(le2) == 1 and (w_slice or w_arr) and (r_slice or r_arr)
    ctx.check(ok, 'R07b', cp.path, '3-byte range', '-', 'both 3-byte helpers use bytes [0..3] of the little-endian u32')
    # getters/setters pair fields
    for nm, fld in (('compressed_length', 'compressed_length'), ('uncompressed_length', 'uncompressed_length')):
        g = an(F.body('cas_object::cas_chunk_format::CASChunkHeader::get_' + nm))
        s = an(F.body('cas_object::cas_chunk_format::CASChunkHeader::set_' + nm))
        okg = any(flow.mentions(g.arg(c, 0), lambda z: z[0] == 'field' and z[2] == fld) for c in g.calls(CF + 'convert_three_byte_num'))
        oks = any(flow.mentions(s.arg(c, 0), lambda z: z[0] == 'field' and z[2] == fld) for c in s.calls(CF + 'copy_three_byte_num'))
        ctx.check(okg and oks, 'R07b', g.path, 'field', '-', 'get_/set_%s use the %s field' % (nm, fld))
    nw = an(F.body('cas_object::cas_chunk_format::CASChunkHeader::new'))
    sc = [c for c in nw.calls('cas_object::cas_chunk_format::CASChunkHeader::set_compressed_length')]
    su = [c for c in nw.calls('cas_object::cas_chunk_format::CASChunkHeader::set_uncompressed_length')]
    ok = len(sc) == 1 and len(su) == 1 and nw.arg(sc[0], 1) == ('param', 2, 'compressed_length') and nw.arg(su[0], 1) == ('param', 3, 'uncompressed_length')
    ctx.check(ok, 'R07b', nw.path, 'args', '-', 'CASChunkHeader::new stores its second/third argument as compressed/uncompressed length')


def steps(a, F):
    """abstract the single-chunk decoder to its alphabet"""
    out = {}
    hd = [c for c in a.calls() if sg(a.term(c).get('fn', '')).endswith('deserialize_chunk_header')]
    out['header'] = len(hd) == 1
    h = hd[0] if hd else None
    dec = [c for c in a.calls() if sg(a.term(c).get('fn', '')).split('::')[-1] in ('decompress_from_reader', 'decompress_from_slice')]
    out['decompress'] = len(dec) == 1 and flow.mentions(a.arg(dec[0], 0), lambda z: z[0] == 'call' and sg(z[1]).endswith('get_compression_scheme') and a.rooted_at(z[2][0], h))
    d = dec[0] if dec else None
    if not dec:
        # `header.get_compression_scheme().and_then(|scheme| scheme.decompress_from_..(..))`: the decompression sits in a
        # closure handed to Result::and_then on the scheme; its result is the and_then call's result
        for c in a.calls():
            if sg(a.term(c).get('fn', '')) != 'core::result::Result::and_then' or len(a.term(c)['args']) != 2:
                continue
            recv, clo = a.arg(c, 0), a.arg(c, 1)
            if not (recv[0] == 'call' and sg(recv[1]).endswith('get_compression_scheme') and a.rooted_at(recv[2][0], h)) or clo[0] != 'agg' or clo[1] != 'closure':
                continue
            cb_ = F.bodies.get(clo[2])
            if cb_ is None:
                continue
            ac = an(cb_)
            cd = [x for x in ac.calls() if sg(ac.term(x).get('fn', '')).split('::')[-1] in ('decompress_from_reader', 'decompress_from_slice')]
            rets_ = [e_ for (_, _, _, e_) in ac.ret_sites()]
            if len(cd) == 1 and ac.arg(cd[0], 0)[0] == 'param' and ac.arg(cd[0], 0)[1] == 2 and len(rets_) == 1 and ac.rooted_at(rets_[0], cd[0]):
                out['decompress'] = True
                d = c
    eq = edges_where(a, lambda op, l, r: op == 'Eq' and ((d is not None and flow.mentions(l, lambda z: a.rooted_at(z, d))) and flow.mentions(r, lambda z: z[0] == 'call' and sg(z[1]).endswith('get_uncompressed_length') and a.rooted_at(z[2][0], h))))
    oks = [(b, si, e) for (b, si, k, e) in a.ret_sites() if k == 'ok']
    out['length check'] = bool(eq) and len(oks) >= 1 and all(a.cfg.must_pass(o_[0], via_edges=eq) for o_ in oks)
    if len(oks) == 1:
        tup = oks[0][2][3][0][1]
        c0, c1 = tup[3][0][1], tup[3][1][1]
        out['ret.0'] = (c0[0] == 'bin' and c0[1] in ('Add', 'AddO') and flow.mentions(c0[2], lambda z: z[0] == 'call' and sg(z[1]).endswith('get_compressed_length') and a.rooted_at(z[2][0], h)) and flow.const_eval(c0[3]) == 8)
        out['ret.1'] = d is not None and flow.mentions(c1, lambda z: a.rooted_at(z, d))
    # amount of compressed data consumed = header.compressed_length
    out['consumes compressed_length'] = any(flow.mentions(a.arg(c, i), lambda z: z[0] == 'call' and sg(z[1]).endswith('get_compressed_length') and a.rooted_at(z[2][0], h))
                                           for c in a.calls() for i in range(len(a.term(c)['args'])) if sg(a.term(c).get('fn', '')).split('::')[-1] in ('take', 'from_elem'))
    return out


def r07c(ctx):
    F = ctx.F
    s = an(F.body(CF + 'deserialize_chunk_to_writer'))
    a = an(F.body(CF + 'deserialize_async::deserialize_chunk_to_writer::{closure#0}'))
    ss, sa = steps(s, F), steps(a, F)
    for k in sorted(set(ss) | set(sa)):
        ctx.check(ss.get(k) and sa.get(k), 'R07c', 'deserialize_chunk_to_writer (sync|async)', k, '-', 'both decoders perform step "%s"' % k,
                  'the %s decoder lacks step "%s" that its sibling performs' % ('sync' if not ss.get(k) else 'async', k))
    # async writes exactly the decompressed data
    wr = [c for c in a.calls('std::io::Write::write_all')]
    dec = [c for c in a.calls() if sg(a.term(c).get('fn', '')).endswith('decompress_from_slice')] or \
          [c for c in a.calls() if sg(a.term(c).get('fn', '')) == 'core::result::Result::and_then' and sa.get('decompress')]
    ctx.check(len(wr) == 1 and dec and a.rooted_at(a.arg(wr[0], 1), dec[0]), 'R07c', a.path, 'writes decompressed', '-', 'the async decoder writes exactly the decompressed bytes')
    # header readers validate
    for nm in (CF + 'parse_chunk_header', CF + 'deserialize_async::deserialize_chunk_header::{closure#0}'):
        ctx.check(returns_validated_headers(F, nm), 'R07c', nm, 'validate', '-', 'the header reader returns only validated headers')
    dh = an(F.body(CF + 'deserialize_chunk_header'))
    ctx.check(len(dh.calls(CF + 'parse_chunk_header')) == 1, 'R07c', dh.path, 'uses parse', '-', 'the sync header reader goes through parse_chunk_header')
    # multi-chunk decoders
    def multi(x, single_suffix):
        o = {}
        cs = [c for c in x.calls() if sg(x.term(c).get('fn', '')).endswith(single_suffix)]
        o['single call in loop'] = len(cs) == 1 and c05.loop_of(x, cs[0]) is not None
        eff = paths.collect_effects(x, x.cfg.reach0, lambda k: k[0] if len(k) == 1 else None)
        terms = sorted((c, flow.show(e).split('(')[-1][:3] if False else e[2] if e[0] == 'field' else '?') for es in eff.values() for (c, s_, t, e, ln) in es if s_ == 1)
        o['accumulators'] = terms
        ps = x.calls('alloc::vec::Vec::push')
        # per-chunk pushes, and the initial content of the list (`Vec::new()` + push of a value that is still its
        # constant initialiser there, or `vec![c, ..]`)
        inloop = [p for p in ps if c05.loop_of(x, p) is not None]
        o['pushes'] = sorted(flow.show(x.arg(p, 1))[:40] for p in inloop)
        init = []
        for p in ps:
            if p in inloop:
                continue
            srcs = [se for (sb, ssi, se) in x.flow.sources(x.arg(p, 1), (p, None)) if sb is None or sb == p or p in x.cfg.reach([sb])]
            vals = {flow.const_eval(se) for se in srcs}
            init.append(next(iter(vals)) if len(vals) == 1 and None not in vals else flow.show(x.arg(p, 1))[:30])
        for b_ in sorted(x.cfg.reach0):
            for st_ in x.blocks[b_]['s']:
                r_ = st_.get('r')
                if r_ and r_['k'] == 'agg' and r_.get('ak') == 'array' and 'alloc::macros::vec' in (st_.get('mac') or '') and 'p' in st_['d']:
                    for op_ in r_['ops']:
                        e_ = x.flow.expr(op_)
                        init.append(flow.const_eval(e_) if flow.const_eval(e_) is not None else flow.show(e_)[:30])
        o['initial elements'] = init
        # EOF terminates: comparison of error kind with UnexpectedEof leads out of the loop
        o['eof'] = bool(edges_where(x, lambda op, l, r: op == 'Eq' and l[0] == 'call' and sg(l[1]).endswith('Error::kind')))
        rs = [e for (_, _, k, e) in x.ret_sites() if k == 'ok']
        import re as _re
        o['ret'] = _re.sub(r'boxed::box_assume_init_into_vec_unsafe\(.*?\)\)', 'Vec::new()', flow.show(rs[0]))[:80] if rs else None
        return o
    ms = multi(an(F.body(CF + 'deserialize_chunks_to_writer')), 'cas_chunk_format::deserialize_chunk_to_writer')
    ma = multi(an(F.body(CF + 'deserialize_async::deserialize_chunks_to_writer_from_async_read::{closure#0}')), 'deserialize_async::deserialize_chunk_to_writer')
    for k in sorted(ms):
        ctx.check(ms[k] == ma[k] and ms[k] not in (False, None, []), 'R07c', 'deserialize_chunks_to_writer (sync|async)', k, '-', 'multi-chunk decoders agree on "%s": %s' % (k, str(ms[k])[:100]),
                  'multi-chunk decoders differ on "%s": sync %s, async %s' % (k, ms[k], ma[k]))
    st = an(F.body(CF + 'deserialize_async::deserialize_chunks_to_writer_from_stream::{closure#0}'))
    cs = st.calls(CF + 'deserialize_async::deserialize_chunks_to_writer_from_async_read')
    rs = [e for (_, _, _, e) in st.ret_sites()]
    ctx.check(len(cs) == 1 and len(rs) == 1 and st.rooted_at(rs[0], cs[0]), 'R07c', st.path, 'wrapper', '-', 'the stream decoder is a direct wrapper around the async-read decoder')


def r07d(ctx):
    F = ctx.F
    a = an(F.body(CO + 'CasObject::serialize'))
    fn = a.path
    sc = a.calls(CF + 'serialize_chunk')
    if not ctx.check(len(sc) == 1 and c05.loop_of(a, sc[0]) is not None, 'R07d', fn, 'serialize_chunk', '-', 'one serialize_chunk call in the chunk loop'):
        return
    s = sc[0]
    lp = c05.loop_of(a, s)
    eff = paths.collect_effects(a, lp[1], lambda k: k[0] if len(k) == 1 else None)
    acc = [(c, e) for es in eff.values() for (c, sg_, t, e, ln) in es if sg_ == 1 and a.rooted_at(e, s)]
    pushes = [p for p in a.calls('alloc::vec::Vec::push') if p in lp[1] and flow.mentions(a.arg(p, 0), lambda z: z[0] == 'field' and z[2] == 'chunk_boundary_offsets')]
    if not pushes:
        # the offsets may be collected in a local list that is stored into the field afterwards
        for (b_, si_, st_) in a.stores_to_field('chunk_boundary_offsets'):
            v_ = a.flow.rvalue(st_['r'], 0)
            rc_ = a.root_call(v_)
            if rc_ is not None and sg(rc_[1]).split('::')[-1] in ('new', 'with_capacity') and b_ not in lp[1]:
                pushes += [p for p in a.calls('alloc::vec::Vec::push') if p in lp[1] and a.root_call(a.arg(p, 0)) is not None and a.root_call(a.arg(p, 0))[3] == rc_[3]
                           and b_ in a.cfg.reach_after([lp[0]])]
    ok = len(acc) == 1 and len(pushes) == 1 and a.arg(pushes[0], 1)[0] == 'local' and a.arg(pushes[0], 1)[2] == acc[0][0]
    ctx.check(ok, 'R07d', fn, 'boundary offsets', a.loc(pushes[0]) if pushes else '-', 'each iteration adds the chunk\'s serialised size to a running total and pushes that total as the boundary offset',
              'chunk_boundary_offsets is not the running sum of the serialised chunk sizes')
    ok2 = ok and a.cfg.must_pass(pushes[0], via_blocks=[s])
    # ... and after the running total was advanced by this chunk (the offset is an end offset)
    ub = [b for b, es in eff.items() for (c, sg_, t, e, ln) in es if sg_ == 1 and a.rooted_at(e, s)]
    if ok2 and ub:
        # the update is a statement: it precedes the push when its block dominates the push block within the iteration,
        # or it sits in the push's own block (statements run before the terminator)
        ok2 = ub[0] == pushes[0] or c05.in_iteration_guarded(a, lp, pushes[0], a.cfg.out_edges(ub[0]))
    ctx.check(ok2, 'R07d', fn, 'order', a.loc(pushes[0]) if pushes else '-', 'the offset is pushed after the chunk was serialised and after the running total was advanced by it (end offsets)',
              'the boundary offset can be pushed before the running total includes the current chunk (start offsets instead of end offsets)')
    # data slice: data[raw_start..boundary.1], raw_start := boundary.1
    sl = a.arg(s, 0)
    rg = dict(sl[2][3]) if sl[0] == 'index' and sl[2][0] == 'agg' else {}
    st, en = rg.get('start'), rg.get('end')
    okr = sl[0] == 'index' and sl[1] == ('param', 3, 'data') and st is not None and st[0] == 'local' and en is not None
    # the end of the slice is the boundary recorded for this chunk in the input list
    okr = okr and flow.mentions(en, lambda z: z == ('param', 4, 'chunk_and_boundaries') or (z[0] == 'local' and z[2] in ('iter', 'boundary'))) or (okr and en[0] == 'local' and any(
        flow.mentions(se, lambda z: z == ('param', 4, 'chunk_and_boundaries') or (z[0] == 'local' and z[2] == 'iter')) for (_, _, se) in a.flow.sources(en)))
    if okr:
        ds = [d for d in a.flow.defs.get(st[1], []) if d[0] == 'assign']
        vals = [a.flow.rvalue(d[3], 0) for d in ds]
        okr = len(vals) == 2 and any(v[:2] == ('const', 0) for v in vals) and any(flow.eqv(v, en) for v in vals if v[0] != 'const')
    ctx.check(okr, 'R07d', fn, 'slices', a.loc(s), 'chunk i is data[previous boundary .. boundary i] (consecutive, starting at 0)')
    # hashes and unpacked offsets come from the same input list
    for fld, comp in (('chunk_hashes', '0'), ('unpacked_chunk_offsets', '1')):
        sts = a.stores_to_field(fld)
        ok = len(sts) == 1 and flow.mentions(a.flow.rvalue(sts[0][2]['r'], 0), lambda z: z == ('param', 4, 'chunk_and_boundaries'))
        ctx.check(ok, 'R07d', fn, fld, a.loc(sts[0][0], sts[0][1]) if sts else '-', '%s is collected from chunk_and_boundaries' % fld)
    fb = a.calls(V1 + 'fill_in_boundary_offsets')
    ser = a.calls(V1 + 'serialize')
    ok = len(fb) == 1 and len(ser) == 1 and a.cfg.must_pass(ser[0], via_blocks=fb)
    ctx.check(ok, 'R07d', fn, 'fill<serialize', a.loc(ser[0]) if ser else '-', 'section offsets are filled in before the footer is serialised')
    il = a.stores_to_field('info_length')
    wr = [c for c in a.calls('std::io::Write::write_all')]
    ok = len(il) == 1 and ser and a.rooted_at(a.flow.rvalue(il[0][2]['r'], 0), ser[0]) and len(wr) == 1 and flow.mentions(a.arg(wr[0], 1), lambda z: z[0] == 'field' and z[2] == 'info_length') and a.cfg.must_pass(wr[0], via_blocks=ser)
    ctx.check(ok, 'R07d', fn, 'info_length', a.loc(wr[0]) if wr else '-', 'info_length is the byte count returned by the footer serialiser and is written (little endian) after the footer')
    nc = a.stores_to_field('num_chunks')
    ctx.check(len(nc) == 1 and 'len' in flow.show(a.flow.rvalue(nc[0][2]['r'], 0)) and flow.mentions(a.flow.rvalue(nc[0][2]['r'], 0), lambda z: z == ('param', 4, 'chunk_and_boundaries')), 'R07d', fn, 'num_chunks', '-', 'num_chunks = chunk_and_boundaries.len()')


def r07e(ctx):
    F = ctx.F
    a = an(F.body(CF + 'serialize_chunk'))
    fn = a.path
    hn = a.calls('cas_object::cas_chunk_format::CASChunkHeader::new')
    wh = a.calls(CF + 'write_chunk_header')
    wr = a.calls('std::io::Write::write_all')
    if not ctx.check(len(hn) == 1 and len(wh) == 1 and len(wr) == 1, 'R07e', fn, 'sites', '-', 'one header construction, one header write, one data write'):
        return
    scheme, clen, ulen = a.arg(hn[0], 0), a.arg(hn[0], 1), a.arg(hn[0], 2)
    data = a.arg(wr[0], 1)
    # scheme and data are components .0 / .1 of the same tuple local
    def tup_base(e):
        while e[0] in ('field', 'cast', 'len') or (e[0] == 'call' and sg(e[1]).split('::')[-1] in ('len', 'deref', 'as_ref')):
            if e[0] == 'call':
                e = e[2][0]
            else:
                e = e[1]
        return e
    b1, b2 = tup_base(scheme), tup_base(data)
    ok = b1 == b2 and b1[0] == 'local' and flow.show(scheme).endswith('.0') and '.1' in flow.show(data)
    two_var = False
    if not ok and b1[0] == 'local' and b2[0] == 'local' and b1 != b2:
        # two variables reassigned together: `if payload.len() >= chunk.len() { scheme = None; payload = chunk.into(); }`
        ds1, ds2 = a.flow.defs.get(b1[1], []), a.flow.defs.get(b2[1], [])

        def dexpr(d):
            return a.flow.rvalue(d[3], 0) if d[0] == 'assign' else a.flow.call(d[2], d[1], 0)
        none_d = [d for d in ds1 if d[0] == 'assign' and flow.mentions(dexpr(d), lambda z: z[0] == 'agg' and z[2].endswith('CompressionScheme::None'))]
        raw_d = [d for d in ds2 if flow.mentions(dexpr(d), lambda z: z[0] == 'param' and z[1] == 1) and not flow.mentions(dexpr(d), lambda z: z[0] == 'call' and sg(z[1]).endswith('compress_from_slice'))]
        comp_d = [d for d in ds2 if flow.mentions(dexpr(d), lambda z: z[0] == 'call' and sg(z[1]).endswith('compress_from_slice'))]
        ge = edges_where(a, lambda op, l, r: op == 'Ge' and 'len' in flow.show(l) and tup_base(l) == b2 and 'len' in flow.show(r) and flow.mentions(r, lambda z: z[0] == 'param' and z[1] == 1))
        if len(ds1) == 2 and len(ds2) == 2 and len(none_d) == 1 and len(raw_d) == 1 and len(comp_d) == 1 and ge:
            bs, bd = none_d[0][1], raw_d[0][1]
            tgt = [t_ for (_, t_) in ge]
            # both reassignments happen exactly on the fallback edge, and both on every path through it
            ok = (a.cfg.must_pass(bs, via_edges=ge) and a.cfg.must_pass(bd, via_edges=ge)
                  and all(hn[0] not in a.cfg.reach([t_], cut_edges=a.cfg.out_edges(bs)) or bs == t_ for t_ in tgt)
                  and all(hn[0] not in a.cfg.reach([t_], cut_edges=a.cfg.out_edges(bd)) or bd == t_ for t_ in tgt))
            two_var = ok
    ctx.check(ok, 'R07e', fn, 'same branch', a.loc(hn[0]), 'the scheme recorded in the header and the bytes written are the two components of one (scheme, bytes) pair chosen by the fallback',
              'the header\'s compression scheme and the bytes written can come from different branches of the incompressible fallback (%s vs %s)' % (flow.show(scheme)[:40], flow.show(data)[:40]))
    ok2 = 'len' in flow.show(clen) and tup_base(clen) == b2 and 'len' in flow.show(ulen) and flow.mentions(ulen, lambda z: z == ('param', 1, 'chunk'))
    ctx.check(ok2, 'R07e', fn, 'lengths', a.loc(hn[0]), 'header.compressed_length = len(bytes written), header.uncompressed_length = len(input chunk)')
    # the pair's two assignments: (None, chunk) on the >= edge, (scheme, compressed) otherwise
    if b1[0] == 'local' and not two_var:
        ds = [d for d in a.flow.defs.get(b1[1], []) if d[0] == 'assign']
        vals = [a.flow.rvalue(d[3], 0) for d in ds]
        okv = len(vals) == 2 and all(v[0] == 'agg' and v[1] == 'tuple' for v in vals)
        if okv:
            nonev = [v for v in vals if flow.mentions(v[3][0][1], lambda z: z[0] == 'agg' and z[2].endswith('CompressionScheme::None'))]
            other = [v for v in vals if v not in nonev]
            okv = len(nonev) == 1 and len(other) == 1 and flow.mentions(nonev[0][3][1][1], lambda z: z == ('param', 1, 'chunk')) and flow.mentions(other[0][3][1][1], lambda z: z[0] == 'call' and sg(z[1]).endswith('compress_from_slice'))
        ctx.check(okv, 'R07e', fn, 'fallback pair', '-', 'the fallback yields (None, raw chunk) or (chosen scheme, compressed bytes)')
    ctx.check(a.cfg.must_pass(wr[0], via_blocks=wh), 'R07e', fn, 'header first', a.loc(wr[0]), 'the header is written before the data')
    oks = [e for (_, _, k, e) in a.ret_sites() if k == 'ok']
    ok3 = len(oks) == 1 and oks[0][3][0][1][0] == 'bin' and flow.const_eval(oks[0][3][0][1][2]) == 8 and tup_base(oks[0][3][0][1][3]) == b2
    ctx.check(ok3, 'R07e', fn, 'ret', '-', 'serialize_chunk returns 8 + len(bytes written)')


def returns_validated_headers(F, nm, depth=0):
    """every non-error return of the header reader `nm` is dominated by the success edge of CASChunkHeader::validate, or
    hands on the result of a header reader of which that holds (parse_chunk_header), directly or through `?`"""
    h = an(F.body(nm))
    vs = h.calls('cas_object::cas_chunk_format::CASChunkHeader::validate')
    se = [e for v in vs for e in success_edges(h, v)]
    helpers = [c for c in h.calls(CF + 'parse_chunk_header')] if depth == 0 and not nm.endswith('::parse_chunk_header') else []
    if helpers and not returns_validated_headers(F, CF + 'parse_chunk_header', 1):
        helpers = []
    hse = [e for c in helpers for e in success_edges(h, c)]
    oks = [(b, si, k, e) for (b, si, k, e) in h.ret_sites() if k != 'err']
    if not oks:
        return False
    for (b, si, k, e) in oks:
        if k == 'other' and any(h.err_rooted_at(e, c) for c in helpers):
            continue            # tail call: Ok only if the helper validated
        if se and h.cfg.must_pass(b, via_edges=se) and len(vs) == 1:
            continue
        if k == 'ok' and hse and h.cfg.must_pass(b, via_edges=hse) and any(h.rooted_at(x[1], c) for x in e[3] for c in helpers):
            continue
        return False
    return True


READS = ('tokio::io::util::async_read_ext::AsyncReadExt::read', 'std::io::Read::read', 'futures_util::io::AsyncReadExt::read')


def fill_loops(ctx, rid, floor=1):
    """C07c: `while n < LEN { let r = reader.read(&mut buf).await?; n += r }`"""
    F = ctx.F
    found = 0
    for p, b in sorted(F.bodies.items()):
        if b['crate'] != 'cas_object' or '::tests::' in p or '::test_' in p:
            continue
        a = an(b)
        for c in a.calls(*READS):
            lp = c05.loop_of(a, c)
            if lp is None:
                continue
            # cursor: a local with a definition `cur = cur + <rooted at this read>` inside the loop
            curs = []
            for bb in sorted(lp[1]):
                for si, st in enumerate(a.blocks[bb]['s']):
                    d, r = st.get('d'), st.get('r')
                    if not d or 'p' in d or not r:
                        continue
                    e = a.flow.rvalue(r, 0)
                    if e[0] == 'field' and e[1][0] == 'bin':
                        e = e[1]
                    if e[0] == 'bin' and e[1] in ('Add', 'AddO') and any(a.err_rooted_at(x, c) for x in (e[2], e[3])):
                        other = e[3] if a.err_rooted_at(e[2], c) else e[2]
                        curs.append((d['l'], other, bb, si))
            if not curs:
                continue
            found += 1
            buf = a.arg(c, 1)
            ok = False
            for z in flow.subtrees(buf):
                if z[0] == 'index' and z[2][0] == 'agg' and z[2][2].endswith('RangeFrom'):
                    st_ = dict(z[2][3]).get('start')
                    if st_ is not None and any(flow.eqv(st_, o) or (st_[0] == 'local' and o[0] == 'local' and a.flow.lname(st_[1]) == a.flow.lname(o[1]) and a.flow.lname(o[1])) for (_, o, _, _) in curs):
                        ok = True
            ctx.check(ok, rid, p, 'fill loop', a.loc(c), 'each partial read goes into the unread tail buf[cursor..] of the buffer being filled',
                      'the loop adds the byte count of every read to a cursor but always reads into %s: a second partial read overwrites the first and more bytes are consumed from the stream than are kept' % flow.show(buf)[:50])
    ctx.floor(rid, 'buffer-filling read loops in cas_object', found, floor)
