import sys


def main(argv):
    if not argv:
        print('usage: xl setup | check <ID> [--tier quick|thorough] | dump <fn-suffix> | explain <file> | list <substr>')
        return 2
    cmd = argv[0]
    if cmd == 'dump':
        from . import facts, pp
        F = facts.load(config=_opt(argv, '--config', 'rel'))
        for b in F.find(argv[1]):
            print(pp.body(b, show_cleanup='--cleanup' in argv, brief='--brief' in argv))
            print()
        return 0
    if cmd == 'list':
        from . import facts
        F = facts.load()
        for p, b in sorted(F.bodies.items()):
            if argv[1] in p:
                print(p, '%s:%d' % (b['file'], b['lo']), b.get('vis', ''), 'exported' if b.get('exported') else '')
        return 0
    if cmd == 'setup':
        from . import runner
        return runner.setup()
    if cmd == 'check':
        from . import runner
        return runner.check(argv[1], _opt(argv, '--tier', 'quick'))
    if cmd == 'explain':
        from . import runner
        return runner.explain(argv[1])
    if cmd == 'selftest':
        from . import runner
        return runner.selftest(argv[1:])
    print('unknown command', cmd)
    return 2


def _opt(argv, name, default):
    if name in argv:
        return argv[argv.index(name) + 1]
    return default
