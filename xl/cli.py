import sys


def main(argv):
    if not argv:
        print('usage: xl setup | check <ID> [--tier quick|thorough] | dump <fn-suffix> | explain <file> | list <substr>')
        return 2
    cmd = argv[0]
    if cmd == 'dump':
        from . import facts, pp
        F = facts.load(config=_opt(argv, '--config', 'rel'))
        for b in F.find(argv[1]):
            print(pp.body(b, show_cleanup='--cleanup' in argv, brief='--brief' in argv))
            print()
        return 0
    if cmd == 'list':
        from . import facts
        F = facts.load()
        for p, b in sorted(F.bodies.items()):
            if argv[1] in p:
                print(p, '%s:%d' % (b['file'], b['lo']), b.get('vis', ''), 'exported' if b.get('exported') else '')
        return 0
    if cmd in ('conds', 'calls', 'rets'):
        from . import facts, core, flow
        F = facts.load(config=_opt(argv, '--config', 'rel'))
        for b in F.find(argv[1]):
            a = core.an(b)
            print('==', b['qpath'])
            if cmd == 'conds':
                for blk in sorted(a.cfg.reach0):
                    ce = core.cond_edges(a, blk)
                    if ce:
                        print('  bb%d L%d %s  %s  |  %s   T%s F%s' % (blk, a.line(blk), ce[0], flow.show(ce[1])[:110], flow.show(ce[2])[:110], ce[3], ce[4]))
            elif cmd == 'calls':
                for cb in a.calls():
                    t = a.term(cb)
                    if t.get('ex') and 'tracing' in t.get('mac', ''):
                        continue
                    print('  bb%d L%d %s(%s)' % (cb, a.line(cb), core.strip_generics(t.get('fn', '?')), ', '.join(flow.show(a.arg(cb, i))[:70] for i in range(len(t['args'])))))
            else:
                for (blk, si, k, e) in a.ret_sites():
                    print('  bb%d L%d %s %s' % (blk, a.line(blk, si if si < 10**6 else None), k, flow.show(e)[:200]))
        return 0
    if cmd == 'baseline':
        # (maintainer command) freeze the function decomposition of the tree under /repo as the baseline of xl/inline.py
        import json, os
        from . import facts, inline
        if os.path.exists(inline.BASELINE) and '--force' not in argv:
            print('baseline exists; pass --force to overwrite')
            return 2
        if os.path.exists(inline.BASELINE):
            os.rename(inline.BASELINE, inline.BASELINE + '.old')
        F = facts.load()
        ps = inline.fn_paths(F)
        json.dump(ps, open(inline.BASELINE, 'w'), indent=0)
        print('baseline: %d functions' % len(ps))
        return 0
    if cmd == 'setup':
        from . import runner
        return runner.setup()
    if cmd == 'check':
        from . import runner
        return runner.check(argv[1], _opt(argv, '--tier', 'quick'))
    if cmd == 'checkall':
        # developer aid: evaluate every claimed property's rules on the current tree in one process; print failures only
        import json, os
        from . import runner
        man = json.load(open(os.path.join(runner.VERIF, 'MANIFEST.json')))
        bad = 0
        for chk in man['checks']:
            p = chk['property_id']
            ctx, _ = runner.run_rules(p, _opt(argv, '--config', 'rel'), _opt(argv, '--repo', None))
            fails = [r for r in ctx.results if r['verdict'] == 'fail']
            print('%s: %d results, %d failing' % (p, len(ctx.results), len(fails)))
            for r in fails:
                bad += 1
                print('    %s [%s] %s: %s' % (r['rule'], r['fn'][-60:], r.get('construct'), r['detail'][:200]))
        return 1 if bad else 0
    if cmd == 'explain':
        from . import runner
        return runner.explain(argv[1])
    if cmd == 'selftest':
        from . import runner
        return runner.selftest(argv[1:])
    print('unknown command', cmd)
    return 2


def _opt(argv, name, default):
    if name in argv:
        return argv[argv.index(name) + 1]
    return default
