"""check driver: facts -> rules -> verdict lines + evidence JSON."""
import importlib, json, os, subprocess, sys, time, traceback
from . import facts
from .core import Ctx

VERIF = facts.VERIF
EVID = os.environ.get('XL_EVID_DIR') or os.path.join(VERIF, 'evidence')

ASSUMPTIONS = [
    "trusted base: rustc's MIR construction and type checker (nightly, mir_promoted bodies); the xetlint extractor",
    'futures are polled to completion and no panic unwinds: unwind edges and coroutine-drop edges are excluded from every CFG',
    'dynamic dispatch is over-approximated by the workspace impls of the trait method; aliasing through &mut into helpers is not tracked (depth-1 summaries where a rule says so)',
    'documented semantics of the std/tokio/parking_lot functions named in the rule tables',
    'release semantics: debug_assert! bodies and overflow assertions are absent in the quick configuration (-Cdebug-assertions=off -Coverflow-checks=off)',
]


def setup():
    t0 = time.time()
    r = subprocess.run(['cargo', '+nightly', 'build', '--release', '--offline'], cwd=os.path.join(VERIF, 'xetlint'))
    if r.returncode != 0:
        print('setup: building the extractor failed')
        return 1
    try:
        F = facts.load('rel')
    except Exception as e:
        print('setup: fact extraction failed: %s' % e)
        return 1
    print('setup ok: %d bodies from %d crates in %.1fs' % (F.n_bodies, len(F.crates), time.time() - t0))
    return 0


def load_known():
    p = os.path.join(VERIF, 'known_findings.json')
    if not os.path.exists(p):
        return {}
    d = json.load(open(p))
    return {k['key']: k for k in d.get('known', [])}


def _run_view(prop, config, repo, view):
    F = facts.load(config, repo, view=view)
    ctx = Ctx(F, prop)
    ctx.view = view
    mod = importlib.import_module('xl.rules_%s' % prop.lower())
    try:
        mod.run(ctx)
    except Exception as e:  # a crashing rule is a broken check, never a silent pass
        ctx.fail('ENGINE', '-', 'exception', '-', 'rule engine raised %s: %s' % (type(e).__name__, e), path=traceback.format_exc())
    return ctx, mod


def run_rules(prop, config='rel', repo=None):
    """Evaluate the property's rules on the plain view; if some obligation is not discharged there, evaluate them
    again on the desugared view (Option/Result combinators written out as matches, xl/inline.py).  Both views
    represent the same program and every rule fails closed, so a view on which every obligation is discharged decides
    the property; otherwise the plain view's report stands."""
    ctx, mod = _run_view(prop, config, repo, 'plain')
    if any(r['verdict'] == 'fail' for r in ctx.results):
        ctx2, _ = _run_view(prop, config, repo, 'desugared')
        if not any(r['verdict'] == 'fail' for r in ctx2.results):
            ctx2.info('VIEW', '-', '-', 'decided on the desugared view (%d combinator sites expanded); the plain view left %d obligation(s) open' % (
                getattr(ctx2.F, 'n_desugared', 0), sum(1 for r in ctx.results if r['verdict'] == 'fail')))
            return ctx2, mod
    return ctx, mod


def check(prop, tier='quick'):
    t0 = time.time()
    os.makedirs(os.path.join(EVID, 'violations'), exist_ok=True)
    # remove stale replay files of this property
    for f in os.listdir(os.path.join(EVID, 'violations')):
        if f.startswith(prop + '-'):
            os.remove(os.path.join(EVID, 'violations', f))
    configs = ['rel'] if tier == 'quick' else ['rel', 'dbg']
    known = load_known()
    all_viol = []
    known_hits = []
    ctxs = []
    mod = None
    for cfgname in configs:
        ctx, mod = run_rules(prop, cfgname)
        ctxs.append((cfgname, ctx))
        for r in ctx.results:
            if r['verdict'] != 'fail':
                continue
            if r['key'] in known and known[r['key']]['property'] == prop:
                if r['key'] not in [k['key'] for k in known_hits]:
                    known_hits.append(dict(key=r['key'], what=known[r['key']]['what']))
                continue
            if r['key'] not in [v['key'] for v in all_viol]:
                v = dict(r)
                v['config'] = cfgname
                all_viol.append(v)
    extra = {}
    if tier == 'thorough' and hasattr(mod, 'thorough'):
        extra = mod.thorough(ctxs[0][1]) or {}
    selfval = None
    if tier == 'thorough':
        from . import selfval as sv
        selfval = sv.run_for_property(prop)
    ctx = ctxs[0][1]
    F = ctx.F
    for k in known_hits:
        print('KNOWN-FINDING: property=%s %s — %s' % (prop, k['key'], k['what']))
    n = 0
    for v in all_viol:
        n += 1
        rp = os.path.join(EVID, 'violations', '%s-%d.json' % (prop, n))
        json.dump(dict(property=prop, rule=v['rule'], sentence=ctx.rules.get(v['rule'], ''), function=v['fn'],
                       construct=v.get('construct'), site=v['site'], detail=v['detail'], path=v.get('path'), key=v['key'],
                       config=v['config'], tree_hash=F.tree_hash), open(rp, 'w'), indent=1)
        print('%s: %s [%s] %s: %s' % (v['site'], v['rule'], v['fn'], v.get('construct'), v['detail']))
        print('VIOLATION property=%s replay=%s' % (prop, rp))
    # evidence
    passes = [r for r in ctx.results if r['verdict'] == 'pass']
    fails = [r for r in ctx.results if r['verdict'] == 'fail']
    infos = [r for r in ctx.results if r['verdict'] == 'info']
    distinct = {(r['rule'], r['fn'], r['site']) for r in passes + fails}
    fns = {r['fn'] for r in ctx.results if r['fn'] != '-'}
    samples = []
    seen_rules = set()
    for r in ctx.results:
        if r['rule'] in seen_rules and len(samples) > 40:
            continue
        seen_rules.add(r['rule'])
        samples.append({k: r[k] for k in ('rule', 'fn', 'site', 'verdict', 'detail')})
    samples = samples[:80]
    expl = getattr(mod, 'EXPLANATION', '')
    ev = dict(
        property_id=prop, tier=tier, seed=int(os.environ.get('VERIF_SEED', '0') or 0), level='other',
        coverage=dict(
            explanation=expl,
            rule='one obligation per (rule, function, site) instance evaluated on the MIR of /repo\'s current tree; '
                 'distinct = distinct (rule, function, site) triples with a non-vacuous verdict',
            obligations=len(passes) + len(fails), discharged=len(passes),
            evaluations=len(ctx.results), distinct_nontrivial=len(distinct),
            samples=samples, rules=ctx.rules, floors=ctx.floors,
            functions_analysed=sorted(fns), bodies_in_fact_base=F.n_bodies, crates=sorted(F.crates.keys()),
            configs=configs, tree_hash=F.tree_hash, info=[{k: r[k] for k in ('rule', 'fn', 'site', 'detail')} for r in infos][:40],
            known_findings=known_hits, exhaustive=False,
            checker_cmd='bin/xl check %s --tier %s' % (prop, tier),
            trusted_base=ASSUMPTIONS[:2], **extra),
        assumptions=ASSUMPTIONS + list(ctx.assumptions),
        wall_s=round(time.time() - t0, 2), violations=len(all_viol))
    if selfval is not None:
        ev['coverage']['self_validation'] = selfval
    with open(os.path.join(EVID, '%s.json' % prop), 'w') as fh:
        json.dump(ev, fh, indent=1)
    print('%s %s: %d obligations, %d discharged, %d violations, %d known findings, %d functions, tree %s, %.1fs' % (
        prop, tier, len(passes) + len(fails), len(passes), len(all_viol), len(known_hits), len(fns), F.tree_hash, time.time() - t0))
    if selfval is not None and not selfval.get('ok', True):
        print('SELF-VALIDATION FAILED (the check is broken, not the property): %s' % selfval.get('failures'))
        return 2
    return 1 if all_viol else 0


def explain(path):
    d = json.load(open(path))
    print(json.dumps(d, indent=1))
    ctx, _ = run_rules(d['property'], d.get('config', 'rel'))
    hit = [r for r in ctx.results if r['verdict'] == 'fail' and r['key'] == d['key']]
    if hit:
        print('REPRODUCED on the current tree: %s' % hit[0]['detail'])
        return 1
    print('not reproduced on the current tree (tree hash %s)' % ctx.F.tree_hash)
    return 0


def selftest(argv):
    from . import selfval as sv
    return sv.main(argv)
