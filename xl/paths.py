"""K8 path-effect engine: additive updates to designated counters along the acyclic paths of a region.

Instead of enumerating paths one by one, a set of *balance states* is propagated over the region's DAG (inner loop
back-edges removed; an inner loop that contains a tracked update makes the rule fail as "cannot establish").
A state is a frozenset of (counter, term, sign) -> count entries; identical states merge, so the number of states
stays small even when the number of paths is large, yet every path's state is represented exactly.
"""
from collections import Counter
from . import flow as flowm


def additive_update(a, stmt):
    """If stmt is `P = P (+|-) X` (also through the checked-arithmetic form), return (place_key, sign, X expr)."""
    d = stmt.get('d')
    r = stmt.get('r')
    if not d or not r:
        return None
    e = a.flow.rvalue(r, 0)
    # checked form: (AddWithOverflow(P, X)).0
    if e[0] == 'field' and e[2] == '0' and e[1][0] == 'bin' and e[1][1] in ('AddO', 'SubO'):
        e = ('bin', e[1][1][:-1], e[1][2], e[1][3])
    if e[0] != 'bin' or e[1] not in ('Add', 'Sub'):
        return None
    dk = place_key(a, d)
    lk = expr_place_key(e[2])
    rk = expr_place_key(e[3])
    if lk == dk:
        return dk, (1 if e[1] == 'Add' else -1), e[3]
    if rk == dk and e[1] == 'Add':
        return dk, 1, e[2]
    return None


def place_key(a, p):
    """canonical key for a destination place: ('dedup_metrics', 'total_chunks'), ('cur_idx',), ('self', 'new_data_size');
    the base is resolved through references exactly like a read of the same place would be."""
    if 'p' not in p:
        return (a.flow.lname(p['l']) or '_%d' % p['l'],)
    return expr_place_key(a.flow.place(p, 0))


def expr_place_key(e):
    """the same key computed from an expression (reading the place back)."""
    fs = []
    while e[0] == 'field':
        fs.append(e[2])
        e = e[1]
    if e[0] == 'local':
        return (e[2] or '_%d' % e[1],) + tuple(reversed(fs))
    if e[0] == 'param':
        return (e[2] or '_%d' % e[1],) + tuple(reversed(fs))
    if e[0] == 'upvar':
        return (e[1],) + tuple(reversed(fs))
    if e[0] == 'call' and fs:
        return (flowm.show(e),) + tuple(reversed(fs))
    return None


class Region:
    def __init__(self, a, blocks, entry):
        self.a = a
        self.blocks = set(blocks)
        self.entry = entry
        cfg = a.cfg
        # back edges inside the region (including the region's own latches -> entry)
        self.back = {(b, h) for (b, h) in cfg.back_edges() if b in self.blocks and h in self.blocks}
        self.latches = [b for (b, h) in self.back if h == entry]
        self.inner_back = {(b, h) for (b, h) in self.back if h != entry}
        self.inner_loop_blocks = set()
        for (_, h) in self.inner_back:
            self.inner_loop_blocks |= (cfg.natural_loop(h) & self.blocks)

    def topo(self):
        cfg = self.a.cfg
        indeg = Counter()
        succ = {}
        for b in self.blocks:
            ss = [s for s in cfg.succ[b] if s in self.blocks and (b, s) not in self.back]
            succ[b] = ss
            for s in ss:
                indeg[s] += 1
        order = []
        work = [b for b in self.blocks if indeg[b] == 0]
        while work:
            b = work.pop()
            order.append(b)
            for s in succ[b]:
                indeg[s] -= 1
                if indeg[s] == 0:
                    work.append(s)
        return order, succ

    def propagate(self, effects, branch_facts=None):
        """effects: block -> list of (counter, sign, term_string).  Returns (states_at_latch, problems):
        states_at_latch = set of frozenset(((counter, term, sign), count)) reaching a latch edge; problems = list."""
        order, succ = self.topo()
        problems = []
        for b in self.inner_loop_blocks:
            if effects.get(b):
                problems.append('tracked update inside an inner loop at line %d' % self.a.line(b))
        states = {self.entry: {frozenset()}}
        out = set()
        for b in order:
            cur = states.get(b)
            if not cur:
                continue
            eff = effects.get(b, [])
            if eff:
                new = set()
                for st in cur:
                    c = Counter(dict(st))
                    for (counter, sign, term) in eff:
                        c[(counter, term, sign)] += 1
                    new.add(frozenset(c.items()))
                cur = new
            if b in self.latches:
                out |= cur
            for s in succ[b]:
                states.setdefault(s, set()).update(cur)
        return out, problems


def state_terms(st, counter):
    """Counter of signed terms of one counter in a state: {term: net count}"""
    c = Counter()
    for ((cn, term, sign), n) in st:
        if cn == counter:
            c[term] += sign * n
    return +c if all(v >= 0 for v in c.values()) else c


def collect_effects(a, blocks, track):
    """track(place_key) -> counter name or None.  Returns block -> [(counter, sign, term string, expr, line)]."""
    eff = {}
    for b in blocks:
        for si, s in enumerate(a.blocks[b]['s']):
            u = additive_update(a, s)
            if not u:
                continue
            cn = track(u[0])
            if cn is None:
                continue
            eff.setdefault(b, []).append((cn, u[1], flowm.show(u[2]), u[2], s['ln']))
    return eff


def propagate_from(a, start_blocks, stop_blocks, effects, cut_blocks=(), stop_edges=()):
    """Balance states for every acyclic path from start_blocks to (and including) stop_blocks or across stop_edges.
    Back edges are not followed (each loop body is traversed at most once); blocks in cut_blocks (error exits) are
    not entered.  Returns {stop: set(states)} keyed by stop block or ('edge', a, b)."""
    cfg = a.cfg
    back = set(cfg.back_edges())
    stop_blocks = set(stop_blocks)
    stop_edges = set(stop_edges)
    cut_blocks = set(cut_blocks)
    region = cfg.reach(start_blocks, cut_blocks=cut_blocks, cut_edges=back | stop_edges, stop_blocks=stop_blocks)
    for (x, y) in stop_edges:
        pass
    indeg = Counter()
    succ = {}
    for b in region:
        if b in stop_blocks:
            succ[b] = []
            continue
        ss = [s for s in cfg.succ[b] if s in region and (b, s) not in back and (b, s) not in stop_edges]
        succ[b] = ss
        for s in ss:
            indeg[s] += 1
    order = []
    work = [b for b in region if indeg[b] == 0]
    while work:
        b = work.pop()
        order.append(b)
        for s in succ[b]:
            indeg[s] -= 1
            if indeg[s] == 0:
                work.append(s)
    states = {b: {frozenset()} for b in start_blocks if b in region}
    out = {}
    for b in order:
        cur = states.get(b)
        if not cur:
            continue
        eff = effects.get(b, [])
        if eff:
            new = set()
            for st in cur:
                c = Counter(dict(st))
                for e in eff:
                    c[(e[0], e[2], e[1])] += 1
                new.add(frozenset(c.items()))
            cur = new
        if b in stop_blocks:
            out.setdefault(b, set()).update(cur)
            continue
        for s in cfg.succ[b]:
            if (b, s) in stop_edges:
                out.setdefault(('edge', b, s), set()).update(cur)
        for s in succ[b]:
            states.setdefault(s, set()).update(cur)
    return out
