"""K8 path-effect engine: additive updates to designated counters along the acyclic paths of a region.

Instead of enumerating paths one by one, a set of *balance states* is propagated over the region's DAG (inner loop
back-edges removed; an inner loop that contains a tracked update makes the rule fail as "cannot establish").
A state is a frozenset of (counter, term, sign) -> count entries; identical states merge, so the number of states
stays small even when the number of paths is large, yet every path's state is represented exactly.
"""
from collections import Counter
from . import flow as flowm


def additive_update(a, stmt):
    """If stmt is `P = P (+|-) X` (also through the checked-arithmetic form), return (place_key, sign, X expr)."""
    d = stmt.get('d')
    r = stmt.get('r')
    if not d or not r:
        return None
    e = a.flow.rvalue(r, 0)
    # checked form: (AddWithOverflow(P, X)).0
    if e[0] == 'field' and e[2] == '0' and e[1][0] == 'bin' and e[1][1] in ('AddO', 'SubO'):
        e = ('bin', e[1][1][:-1], e[1][2], e[1][3])
    if e[0] != 'bin' or e[1] not in ('Add', 'Sub'):
        return None
    dk = place_key(a, d)
    lk = expr_place_key(e[2])
    rk = expr_place_key(e[3])
    if lk == dk:
        return dk, (1 if e[1] == 'Add' else -1), e[3]
    if rk == dk and e[1] == 'Add':
        return dk, 1, e[2]
    return None


def place_key(a, p):
    """canonical key for a destination place: ('dedup_metrics', 'total_chunks'), ('cur_idx',), ('self', 'new_data_size');
    the base is resolved through references exactly like a read of the same place would be."""
    if 'p' not in p:
        return (a.flow.lname(p['l']) or '_%d' % p['l'],)
    return expr_place_key(a.flow.place(p, 0))


def expr_place_key(e):
    """the same key computed from an expression (reading the place back)."""
    fs = []
    while e[0] == 'field':
        fs.append(e[2])
        e = e[1]
    if e[0] == 'local':
        return (e[2] or '_%d' % e[1],) + tuple(reversed(fs))
    if e[0] == 'param':
        return (e[2] or '_%d' % e[1],) + tuple(reversed(fs))
    if e[0] == 'upvar':
        return (e[1],) + tuple(reversed(fs))
    if e[0] == 'call' and fs:
        return (flowm.show(e),) + tuple(reversed(fs))
    return None


class Carriers:
    """Decision-carrying variables of a region: a local with several plain assignments inside the region, each of them
    an enum-variant aggregate (`Some(n)`, `None`, ...) or a boolean constant, that is later switched on.  Such a
    variable correlates an earlier branch with a later one (`let took = if .. { Some(n) } else { None }; if let
    Some(n) = took { cursor += n } else { .. }`): without tracking it, balance states would be propagated along
    infeasible paths.  During propagation a state carries a marker (local, block, stmt) of the assignment that
    produced the variable's current value; a switch on the variable lets a state through only to the successors its
    value selects, and a term that reads the variable's payload is rewritten to the payload that was assigned."""

    def __init__(self, a, blocks):
        self.a = a
        blocks = set(blocks)
        self.defs = {}      # block -> [(stmt idx, local, value, payload expr or None)]
        self.locals = set()
        fl = a.flow
        for l, ds in fl.defs.items():
            if len(ds) < 2 or l in fl.partial or not all(d[0] == 'assign' for d in ds):
                continue
            vals = []
            for d in ds:
                r = d[3]
                if r['k'] == 'agg' and r.get('ak') == 'adt' and 'dv' in r:
                    pay = fl.expr(r['ops'][0]) if len(r['ops']) == 1 else None
                    vals.append((d[1], d[2], r['dv'], pay))
                elif r['k'] == 'use' and 'c' in r['a'] and r['a'].get('ty') == 'bool' and str(r['a'].get('v')) in ('0', '1'):
                    vals.append((d[1], d[2], int(str(r['a']['v'])), None))
                else:
                    vals = None
                    break
            if not vals or not any(v[0] in blocks for v in vals):
                continue
            self.locals.add(l)
            for (b, si, v, pay) in vals:
                if b in blocks:
                    self.defs.setdefault(b, []).append((si, l, v, pay))
        for b in self.defs:
            self.defs[b].sort()
        # switches on a carrier: block -> (local, {succ: allowed values or None (= every value not listed)})
        self.switches = {}
        for b in blocks:
            t = a.blocks[b]['t']
            if t['k'] != 'switch':
                continue
            l = self._switched_local(b, t)
            if l is None or l not in self.locals:
                continue
            listed = {}
            for v, tgt in t['ts']:
                listed.setdefault(tgt, set()).add(int(v) if str(v).lstrip('-').isdigit() else v)
            self.switches[b] = (l, listed, t['o'], {int(v) if str(v).lstrip('-').isdigit() else v for v, _ in t['ts']})

    def _switched_local(self, b, t):
        o = t['d']
        pl = o.get('mv') or o.get('cp')
        if pl is None or 'p' in pl:
            return None
        dl = pl['l']
        if dl in self.locals:
            return dl           # boolean carrier switched on directly
        for s in self.a.blocks[b]['s']:
            r = s.get('r')
            if r and s.get('d', {}).get('l') == dl and 'p' not in s['d']:
                if r['k'] == 'discr' and 'p' not in r['p']:
                    return r['p']['l']
                if r['k'] == 'use':
                    q = r['a'].get('mv') or r['a'].get('cp')
                    if q and 'p' not in q and q['l'] in self.locals:
                        return q['l']
        return None

    # -- state handling: markers are entries (('@def', local, (block, stmt, value)), 1) ---------------
    @staticmethod
    def marker(st, l):
        for (k, n) in st:
            if k[0] == '@def' and k[1] == l:
                return k[2]
        return None

    def after_defs(self, b, st):
        ds = self.defs.get(b)
        if not ds:
            return st
        out = {k: n for (k, n) in st}
        for (si, l, v, pay) in ds:
            for k in [k for k in out if k[0] == '@def' and k[1] == l]:
                del out[k]
            out[('@def', l, (b, si, v))] = 1
        return frozenset(out.items())

    def allows(self, b, s, st):
        sw = self.switches.get(b)
        if not sw:
            return True
        l, listed, other, allvals = sw
        m = self.marker(st, l)
        if m is None:
            return True
        v = m[2]
        if s in listed and v in listed[s]:
            return True
        if s == other and v not in allvals:
            return True
        return False

    def payload(self, st, l):
        m = self.marker(st, l)
        if m is None:
            return None
        for (si, l2, v, pay) in self.defs.get(m[0], []):
            if l2 == l and si == m[1]:
                return pay
        return None

    def rewrite(self, st, e):
        """expression with reads of a carrier's payload replaced by what was assigned on this state's path"""
        if not isinstance(e, tuple) or not self.locals:
            return e
        if e[0] == 'local' and e[1] in self.locals:
            p = self.payload(st, e[1])
            return p if p is not None else e
        return tuple(self.rewrite(st, x) if isinstance(x, tuple) else ([self.rewrite(st, y) for y in x] if isinstance(x, list) else x) for x in e)

    @staticmethod
    def strip(st):
        return frozenset((k, n) for (k, n) in st if k[0] != '@def')


def _apply(car, b, cur, eff):
    """states after block b: carrier assignments update the markers, tracked updates are added (terms rewritten
    through the markers when the update carries its expression as 4th element)"""
    new = set()
    for st in cur:
        if car is not None:
            st = car.after_defs(b, st)
        if eff:
            c = Counter(dict(st))
            for e in eff:
                term = e[2]
                if car is not None and len(e) > 3 and e[3] is not None and car.locals:
                    r = car.rewrite(st, e[3])
                    if r is not e[3]:
                        term = flowm.show(r)
                c[(e[0], term, e[1])] += 1
            st = frozenset(c.items())
        new.add(st)
    return new


class Region:
    def __init__(self, a, blocks, entry):
        self.a = a
        self.blocks = set(blocks)
        self.entry = entry
        cfg = a.cfg
        # back edges inside the region (including the region's own latches -> entry)
        self.back = {(b, h) for (b, h) in cfg.back_edges() if b in self.blocks and h in self.blocks}
        self.latches = [b for (b, h) in self.back if h == entry]
        self.inner_back = {(b, h) for (b, h) in self.back if h != entry}
        self.inner_loop_blocks = set()
        for (_, h) in self.inner_back:
            self.inner_loop_blocks |= (cfg.natural_loop(h) & self.blocks)

    def topo(self):
        cfg = self.a.cfg
        indeg = Counter()
        succ = {}
        for b in self.blocks:
            ss = [s for s in cfg.succ[b] if s in self.blocks and (b, s) not in self.back]
            succ[b] = ss
            for s in ss:
                indeg[s] += 1
        order = []
        work = [b for b in self.blocks if indeg[b] == 0]
        while work:
            b = work.pop()
            order.append(b)
            for s in succ[b]:
                indeg[s] -= 1
                if indeg[s] == 0:
                    work.append(s)
        return order, succ

    def propagate(self, effects, branch_facts=None):
        """effects: block -> list of (counter, sign, term_string[, term expr]).  Returns (states_at_latch, problems):
        states_at_latch = set of frozenset(((counter, term, sign), count)) reaching a latch edge; problems = list."""
        order, succ = self.topo()
        problems = []
        for b in self.inner_loop_blocks:
            if effects.get(b):
                problems.append('tracked update inside an inner loop at line %d' % self.a.line(b))
        car = Carriers(self.a, self.blocks)
        states = {self.entry: {frozenset()}}
        out = set()
        for b in order:
            cur = states.get(b)
            if not cur:
                continue
            cur = _apply(car, b, cur, effects.get(b, []))
            if b in self.latches:
                out |= {Carriers.strip(st) for st in cur}
            for s in succ[b]:
                states.setdefault(s, set()).update(st for st in cur if car.allows(b, s, st))
        return out, problems


def state_terms(st, counter):
    """Counter of signed terms of one counter in a state: {term: net count}"""
    c = Counter()
    for ((cn, term, sign), n) in st:
        if cn == counter:
            c[term] += sign * n
    return +c if all(v >= 0 for v in c.values()) else c


def subst_params(e, args):
    """expression of a callee body with its parameters replaced by the caller's argument expressions"""
    if not isinstance(e, tuple):
        return e
    if e[0] == 'param' and 1 <= e[1] <= len(args):
        return args[e[1] - 1]
    return tuple(subst_params(x, args) if isinstance(x, tuple) else ([subst_params(y, args) for y in x] if isinstance(x, list) else x) for x in e)


def method_summary(F, callee):
    """Additive-update summary of a small helper method: [(field key relative to param 1, sign, term expr)] if every
    path through the callee performs exactly the same multiset of additive updates to fields of its first parameter
    (and nothing else is tracked); None if the callee is unknown or its paths differ."""
    from .core import an, strip_generics
    cache = F.__dict__.setdefault('_msum', {})
    if callee in cache:
        return cache[callee]
    norm = F.__dict__.get('_norm')
    if norm is None:
        norm = F.__dict__['_norm'] = {strip_generics(p): p for p in F.bodies}
    q = norm.get(strip_generics(callee))
    res = None
    if q is not None and not F.bodies[q].get('coroutine'):
        ca = an(F.bodies[q])
        first = ca.body['locals'][1].get('n') if len(ca.body['locals']) > 1 else None
        if first:
            eff = collect_effects(ca, ca.cfg.reach0, lambda k: k[1:] if k is not None and len(k) >= 2 and k[0] == first else None)
            if eff and not any(e[3] is None for es in eff.values() for e in es):
                out = propagate_from(ca, [0], list(ca.cfg.returns), {b: [(c, sg_, t, ex) for (c, sg_, t, ex, _) in es] for b, es in eff.items()})
                sts = set()
                for v in out.values():
                    sts |= v
                # calls inside the helper (other than overflow panics) could hide further updates: require none that touch param 1
                if len(sts) == 1:
                    terms = {}
                    for es in eff.values():
                        for (c, sg_, t, ex, _) in es:
                            terms[(c, t, sg_)] = ex
                    res = []
                    for ((c, t, sg_), n) in next(iter(sts)):
                        for _ in range(n):
                            res.append((c, sg_, terms[(c, t, sg_)]))
    cache[callee] = res
    return res


def collect_effects(a, blocks, track, F=None):
    """track(place_key) -> counter name or None.  Returns block -> [(counter, sign, term string, expr, line)].
    With F (the fact base), a call of a helper method whose summary (method_summary) is a fixed set of additive updates
    to fields of its receiver contributes those updates, instantiated with the call's arguments."""
    eff = {}
    for b in blocks:
        for si, s in enumerate(a.blocks[b]['s']):
            u = additive_update(a, s)
            if not u:
                continue
            cn = track(u[0])
            if cn is None:
                continue
            eff.setdefault(b, []).append((cn, u[1], flowm.show(u[2]), u[2], s['ln']))
        t = a.blocks[b]['t']
        if F is not None and t['k'] == 'call' and t['args'] and (t.get('res') or t.get('fn')):
            cal = t.get('res') or t.get('fn')
            if not cal.startswith(('core::', 'alloc::', 'std::')):
                recv = expr_place_key(a.flow.expr(t['args'][0]))
                if recv is not None:
                    sm = method_summary(F, cal)
                    if sm:
                        args = [a.flow.expr(o) for o in t['args']]
                        for (fk, sign, ex) in sm:
                            cn = track(recv + tuple(fk))
                            if cn is None:
                                continue
                            ex2 = subst_params(ex, args)
                            eff.setdefault(b, []).append((cn, sign, flowm.show(ex2), ex2, t['ln']))
    return eff


def propagate_from(a, start_blocks, stop_blocks, effects, cut_blocks=(), stop_edges=()):
    """Balance states for every acyclic path from start_blocks to (and including) stop_blocks or across stop_edges.
    Back edges are not followed (each loop body is traversed at most once); blocks in cut_blocks (error exits) are
    not entered.  Returns {stop: set(states)} keyed by stop block or ('edge', a, b)."""
    cfg = a.cfg
    back = set(cfg.back_edges())
    stop_blocks = set(stop_blocks)
    stop_edges = set(stop_edges)
    cut_blocks = set(cut_blocks)
    region = cfg.reach(start_blocks, cut_blocks=cut_blocks, cut_edges=back | stop_edges, stop_blocks=stop_blocks)
    for (x, y) in stop_edges:
        pass
    indeg = Counter()
    succ = {}
    for b in region:
        if b in stop_blocks:
            succ[b] = []
            continue
        ss = [s for s in cfg.succ[b] if s in region and (b, s) not in back and (b, s) not in stop_edges]
        succ[b] = ss
        for s in ss:
            indeg[s] += 1
    order = []
    work = [b for b in region if indeg[b] == 0]
    while work:
        b = work.pop()
        order.append(b)
        for s in succ[b]:
            indeg[s] -= 1
            if indeg[s] == 0:
                work.append(s)
    car = Carriers(a, region)
    states = {b: {frozenset()} for b in start_blocks if b in region}
    out = {}
    for b in order:
        cur = states.get(b)
        if not cur:
            continue
        cur = _apply(car, b, cur, effects.get(b, []))
        if b in stop_blocks:
            out.setdefault(b, set()).update(Carriers.strip(st) for st in cur)
            continue
        for s in cfg.succ[b]:
            if (b, s) in stop_edges:
                out.setdefault(('edge', b, s), set()).update(Carriers.strip(st) for st in cur if car.allows(b, s, st))
        for s in succ[b]:
            states.setdefault(s, set()).update(st for st in cur if car.allows(b, s, st))
    return out
