"""C08 — xorb validators: acceptance is dominated by every comparison; declared counts never size allocations unsanitised."""
from .core import an, strip_generics as sg, edges_where, bool_edges, success_edges, propagation, cond_edges
from . import flow
from . import rules_c05 as c05

EXPLANATION = (
    'Decides the acceptance half and the parser hygiene: (R08a) CasObject::validate_cas_object: each completed loop iteration passed the equal edges of footer chunk hash vs recomputed hash of this '
    'iteration\'s decoded chunk, start offset + compressed length vs footer boundary, and (when the footer carries them) running unpacked offset vs footer unpacked offset; Ok(Some) is dominated by the two '
    'stream-position equalities and by recomputed root == provided hash and == footer hash; the root is computed from the recomputed chunk hashes; (R08b) the streaming validator\'s Ok is dominated by root == '
    'provided hash, and on the footer branch by cashash, num_chunks, boundary offsets, hash count, per-element hash and per-element unpacked offset equalities; every chunk passed the header parser and the '
    'declared-vs-actual uncompressed length check; (R08d) format errors map to a rejection (Ok(None)) and only format errors; (R08e) counts read from input reach with_capacity/reserve/resize/vec![] only '
    'through prealloc_num_chunks or a header validated against MAXIMUM_CHUNK_SIZE; (R08f/g) footer-index unwraps are backed by the three num_chunks equalities that dominate CasObjectInfoV1::deserialize\'s Ok. '
    'Not decided: that every valid xorb is accepted (value-level), behaviour inside lz4_flex.')

CO = 'cas_object::cas_object_format::'
VAL = CO + 'CasObject::validate_cas_object'
SVAL = 'cas_object::validate_xorb_stream::_validate_cas_object_from_async_read::{closure#0}'
V1 = CO + 'CasObjectInfoV1::'


def run(ctx):
    ctx.rule('R08a', 'seekable validator: per-iteration hash/boundary/unpacked-offset equalities; acceptance dominated by position and root-hash equalities')
    ctx.rule('R08b', 'streaming validator: acceptance dominated by the root-hash equality and, when a footer was parsed, by every footer-vs-computed equality')
    ctx.rule('R08d', 'ok_for_format_error maps exactly FormatError to Ok(None); both public validators route parse results through it')
    ctx.rule('R08e', 'declared counts reach allocation sizes only through prealloc_num_chunks or a validated chunk header')
    ctx.rule('R08g', 'CasObjectInfoV1::deserialize (sync and async): Ok is dominated by num_chunks == count of hashes == count of boundaries; list lengths come from those counts')
    ctx.guarded('R08a', VAL, lambda: r08a(ctx))
    ctx.guarded('R08b', SVAL, lambda: r08b(ctx))
    ctx.guarded('R08d', 'error mapping', lambda: r08d(ctx))
    ctx.guarded('R08e', 'allocation taint', lambda: r08e(ctx))
    ctx.guarded('R08g', V1 + 'deserialize', lambda: r08g(ctx))
    ctx.rule('R08h', 'a chunk decodes (sync and async decoder) only where the number of bytes decoded equals the uncompressed length declared in its header: every Ok of deserialize_chunk_to_writer is dominated by that equality (= C07-R07c "length check")')
    ctx.guarded('R08h', 'chunk decoders', lambda: r08h(ctx))


def eq_edges(a, pl, pr):
    return edges_where(a, lambda op, l, r: op == 'Eq' and pl(l) and pr(r))


def r08a(ctx):
    a = an(ctx.F.body(VAL))
    fn = VAL
    dcs = a.calls('cas_object::cas_chunk_format::deserialize_chunk')
    if not ctx.check(len(dcs) == 1 and c05.loop_of(a, dcs[0]) is not None, 'R08a', fn, 'deserialize_chunk', '-', 'one chunk decode inside the chunk loop'):
        return
    dc = dcs[0]
    lp = c05.loop_of(a, dc)
    foot = lambda name: (lambda z: z[0] == 'index' and z[1][0] == 'field' and z[1][2] == name and flow.mentions(z[1], lambda y: y[0] == 'call' and sg(y[1]).endswith('CasObject::deserialize')))
    e_hash = eq_edges(a, foot('chunk_hashes'), lambda r: r[0] == 'call' and sg(r[1]).endswith('compute_data_hash') and a.rooted_at(r[2][0], dc))
    e_bnd = eq_edges(a, lambda l: l[0] == 'bin' and l[1] in ('Add', 'AddO') and a.rooted_at(l[3], dc), foot('chunk_boundary_offsets'))
    e_unp = eq_edges(a, lambda l: l[0] == 'local', foot('unpacked_chunk_offsets'))
    e_nov = edges_where(a, lambda op, l, r: op == 'Ne' and l[0] == 'field' and l[2] == 'boundaries_version' and flow.const_eval(r) == 1)
    ctx.check(c05.latches_guarded(a, lp, e_hash), 'R08a', fn, 'chunk hash', a.loc(dc), 'every completed iteration passed footer.chunk_hashes[idx] == compute_data_hash(decoded chunk of this iteration)',
              'the chunk loop can continue without the footer\'s chunk hash having been compared with the recomputed hash')
    ctx.check(c05.latches_guarded(a, lp, e_bnd), 'R08a', fn, 'boundary', a.loc(dc), 'every completed iteration passed start_offset + compressed_len == footer.chunk_boundary_offsets[idx]',
              'the chunk loop can continue without the chunk boundary having been compared with the footer')
    ctx.check(bool(e_unp) and bool(e_nov) and c05.latches_guarded(a, lp, list(e_unp) + list(e_nov)), 'R08a', fn, 'unpacked offset', a.loc(dc),
              'every completed iteration passed running unpacked offset == footer.unpacked_chunk_offsets[idx], or the footer version carries no unpacked offsets',
              'the chunk loop can continue without the unpacked offset having been compared although the footer carries unpacked offsets')
    # same index for the three footer lists: all index expressions equal
    idxs = set()
    for b in sorted(a.cfg.reach0):
        ce = cond_edges(a, b)
        if ce:
            for side in (ce[1], ce[2]):
                if side[0] == 'index' and side[1][0] == 'field' and side[1][2] in ('chunk_hashes', 'chunk_boundary_offsets', 'unpacked_chunk_offsets'):
                    idxs.add(flow.show(side[2]))
    ctx.check(len(idxs) == 1, 'R08a', fn, 'same index', '-', 'the three footer lists are indexed with the same loop position (%s)' % sorted(idxs))
    # the loop runs num_chunks times
    nxt = [c for c in a.calls() if c in lp[1] and sg(a.term(c).get('fn', '')).endswith('Iterator::next')]
    okn = False
    for l, ds in a.flow.defs.items():
        for d in ds:
            if d[0] == 'assign':
                e = a.flow.rvalue(d[3], 0)
                if e[0] == 'agg' and 'Range' in e[2] and flow.mentions(e, lambda z: z[0] == 'field' and z[2] == 'num_chunks'):
                    okn = True
    okn = okn and bool(nxt)
    if not okn:
        # `let mut idx = 0; while idx < num_chunks { ..; idx += 1 }`
        from . import loops as L
        okn = L.counting_loop(a, lp, lambda y: flow.mentions(y, lambda z: z[0] == 'field' and z[2] == 'num_chunks'), strict=False) is not None
    ctx.check(okn, 'R08a', fn, 'loop bound', a.loc(lp[0]), 'the loop iterates 0..footer.num_chunks')
    # acceptance
    acc = [(b, si, e) for (b, si, k, e) in a.ret_sites() if k == 'ok' and e[3][0][1][0] == 'agg' and e[3][0][1][2].endswith('Option::Some')]
    if not ctx.check(len(acc) == 1, 'R08a', fn, 'Ok(Some)', '-', 'one accepting return'):
        return
    ab = acc[0][0]
    root = lambda z: z[0] == 'call' and sg(z[1]).endswith('MerkleNode::hash') and flow.mentions(z, lambda y: y[0] == 'call' and sg(y[1]).endswith('finalize'))
    e_h1 = eq_edges(a, root, lambda r: r == ('param', 2, 'hash'))
    e_h2 = eq_edges(a, root, lambda r: r[0] == 'field' and r[2] == 'cashash')
    pos = lambda z: z[0] == 'call' and sg(z[1]).endswith('stream_position')
    e_p1 = eq_edges(a, pos, lambda r: r[0] == 'local')
    e_p2 = eq_edges(a, pos, lambda r: flow.mentions(r, lambda y: y[0] == 'field' and y[2] == 'info_length') and flow.mentions(r, lambda y: y[0] == 'call' and sg(y[1]).endswith('Seek::seek')))
    for nm, ed, bad in (('root == provided hash', e_h1, 'the provided hash'), ('root == footer cashash', e_h2, 'the footer\'s hash'),
                        ('position == cumulative compressed length', e_p1, 'the cumulative compressed length'), ('position == len - info_length - 4', e_p2, 'the footer start derived from the end of the stream')):
        ctx.check(bool(ed) and a.cfg.must_pass(ab, via_edges=ed), 'R08a', fn, nm, a.loc(ab), 'acceptance is dominated by the equal edge of ' + nm,
                  'the validator can accept without having compared the %s with %s' % ('recomputed root hash' if 'root' in nm else 'stream position', bad))
    # the root is built from recomputed hashes
    adds = a.calls('merkledb::merkledb_highlevel_v1::MerkleDBHighLevelMethodsV1::add_file')
    pushes = [p for p in a.calls('alloc::vec::Vec::push') if p in lp[1]]
    ok = len(adds) == 1 and len(pushes) == 1
    if ok:
        el = a.arg(pushes[0], 1)
        h = dict(el[3]).get('hash') if el[0] == 'agg' else None
        ok = h is not None and h[0] == 'call' and sg(h[1]).endswith('compute_data_hash') and a.rooted_at(h[2][0], dc)
        vec = a.root_call(a.arg(pushes[0], 0))
        ok = ok and vec is not None and a.root_call(a.arg(adds[0], 2)) is not None and a.root_call(a.arg(adds[0], 2))[3] == vec[3]
    ctx.check(ok, 'R08a', fn, 'root inputs', a.loc(adds[0]) if adds else '-', 'the root hash is computed over the recomputed chunk hashes (not the footer\'s)')
    ctx.check(c05.latches_guarded(a, lp, [e for p in pushes for e in a.cfg.out_edges(p)]), 'R08a', fn, 'every chunk hashed', a.loc(lp[0]), 'every iteration contributes its chunk to the root computation')


def r08b(ctx):
    a = an(ctx.F.body(SVAL))
    fn = SVAL
    acc = [(b, si, e) for (b, si, k, e) in a.ret_sites() if k == 'ok']
    if not ctx.check(len(acc) == 1, 'R08b', fn, 'Ok', '-', 'one accepting return'):
        return
    ab = acc[0][0]
    root = lambda z: z[0] == 'call' and sg(z[1]).endswith('MerkleNode::hash') and flow.mentions(z, lambda y: y[0] == 'call' and sg(y[1]).endswith('finalize'))
    is_hash = lambda r: r == ('upvar', 'hash') or (r[0] == 'param' and r[2] == 'hash')
    e_root = eq_edges(a, root, is_hash)
    ctx.check(bool(e_root) and a.cfg.must_pass(ab, via_edges=e_root), 'R08b', fn, 'root == provided hash', a.loc(ab), 'acceptance is dominated by recomputed root == provided hash',
              'the streaming validator can accept without comparing the recomputed root with the provided hash')
    # the computed vectors
    pushes = [p for p in a.calls('alloc::vec::Vec::push')]
    hp = [p for p in pushes if a.arg(p, 1)[0] == 'agg' and 'hash' in dict(a.arg(p, 1)[3])]
    bp = [p for p in pushes if p not in hp]
    if not ctx.check(len(hp) == 1 and len(bp) == 1, 'R08b', fn, 'computed vectors', '-', 'one push of (recomputed hash, length) and one push of the running boundary offset'):
        return
    hv = a.root_call(a.arg(hp[0], 0))[3]
    bv = a.root_call(a.arg(bp[0], 0))[3]
    el = a.arg(hp[0], 1)
    decomp = [c for c in a.calls('cas_object::compression_scheme::CompressionScheme::decompress_from_slice')]
    ok = len(decomp) == 1 and flow.mentions(dict(el[3])['hash'], lambda z: z[0] == 'call' and sg(z[1]).endswith('compute_data_hash') and a.rooted_at(z[2][0], decomp[0]))
    ctx.check(ok, 'R08b', fn, 'chunk hash', a.loc(hp[0]), 'the pushed hash is compute_data_hash of the chunk decompressed in this iteration')
    adds = a.calls('merkledb::merkledb_highlevel_v1::MerkleDBHighLevelMethodsV1::add_file')
    ctx.check(len(adds) == 1 and a.root_call(a.arg(adds[0], 2)) is not None and a.root_call(a.arg(adds[0], 2))[3] == hv, 'R08b', fn, 'root inputs', a.loc(adds[0]) if adds else '-', 'the root is computed over the recomputed (hash, length) list')
    # per chunk: header parsed by parse_chunk_header, declared == actual uncompressed length
    ph = a.calls('cas_object::cas_chunk_format::parse_chunk_header')
    lp = c05.loop_of(a, hp[0])
    e_len = eq_edges(a, lambda l: flow.mentions(l, lambda z: z[0] == 'call' and sg(z[1]).endswith('get_uncompressed_length') and ph and a.rooted_at(z[2][0], ph[0])),
                     lambda r: 'len' in flow.show(r) and decomp and flow.mentions(r, lambda z: a.rooted_at(z, decomp[0])))
    ctx.check(len(ph) == 1 and lp is not None and c05.in_iteration_guarded(a, lp, hp[0], e_len), 'R08b', fn, 'declared==actual', a.loc(hp[0]),
              'a chunk contributes only on the equal edge of header.uncompressed_length == decompressed length, with the header from parse_chunk_header',
              'a chunk whose header lies about its uncompressed length can be accepted')
    if ph and decomp:
        ctx.check(flow.mentions(a.arg(decomp[0], 0), lambda z: z[0] == 'call' and sg(z[1]).endswith('get_compression_scheme') and a.rooted_at(z[2][0], ph[0])), 'R08b', fn, 'scheme', a.loc(decomp[0]), 'decompression uses the scheme of the parsed header')
    # footer branch: Some edge of maybe_cas_object
    footer = lambda z: flow.mentions(z, lambda y: y[0] == 'field' and y[2] == 'info')
    vec_is = lambda z, vb: flow.mentions(z, lambda y: y[0] == 'call' and y[3] == vb and sg(y[1]).endswith('Vec::new'))
    checks = [
        ('cashash == provided hash', eq_edges(a, lambda l: l[0] == 'field' and l[2] == 'cashash', is_hash)),
        ('num_chunks == computed count', eq_edges(a, lambda l: l[0] == 'field' and l[2] == 'num_chunks', lambda r: 'len' in flow.show(r) and vec_is(r, hv))),
        ('boundary offsets == computed', eq_edges(a, lambda l: l[0] == 'field' and l[2] == 'chunk_boundary_offsets', lambda r: vec_is(r, bv))),
        ('hash count == computed count', eq_edges(a, lambda l: 'len' in flow.show(l) and flow.mentions(l, lambda z: z[0] == 'field' and z[2] == 'chunk_hashes'), lambda r: 'len' in flow.show(r) and vec_is(r, hv))),
    ]
    # Some edge: switch on discriminant of the Option<CasObject>
    some_t = []
    for b in sorted(a.cfg.reach0):
        t = a.blocks[b]['t']
        if t['k'] == 'switch':
            e = a.flow.expr(t['d'])
            if e[0] == 'discr' and e[2].startswith('core::option::Option<cas_object::cas_object_format::CasObject>') or (e[0] == 'discr' and 'Option<cas_object::cas_object_format::CasObject>' in e[2]):
                some_t += [tgt for v, tgt in t['ts'] if str(v) == '1']
    first = [t for t in some_t if a.cfg.reach([t]) & {ab}]
    # the earliest Some edge that leads to the checks (the `if let Some(cas_object) = &maybe_cas_object`)
    ctx.check(bool(first), 'R08b', fn, 'footer branch', '-', 'found the branch on "a footer was parsed"')
    for nm, ed in checks:
        ok = bool(ed) and bool(first) and all(ab not in a.cfg.reach([t], cut_edges=ed) or not _reaches_check(a, t, ed) for t in first) and any(_reaches_check(a, t, ed) for t in first)
        ctx.check(ok, 'R08b', fn, nm, a.loc(ab), 'with a parsed footer, acceptance is dominated by ' + nm, 'with a parsed footer the validator can accept without ' + nm)
    # per-element comparisons: an explicit loop (zip or indexed) whose every completed iteration passed the equal edge, or
    # `zip(..).any(|(a, b)| a != b)` / `.all(|(a, b)| a == b)` with acceptance behind the matching edge of its result
    ment = lambda e, fld: flow.mentions(e, lambda y: y[0] == 'field' and y[2] == fld)
    e_el = edges_where(a, lambda op, l, r: op == 'Eq' and l[0] in ('field', 'index') and ment(l, 'chunk_hashes') and r[0] == 'field' and r[2] == 'hash')
    e_up = edges_where(a, lambda op, l, r: op == 'Eq' and l[0] in ('field', 'index') and ment(l, 'unpacked_chunk_offsets') and r[0] == 'local')

    def quantifier_form(fld, rhs_pred):
        """acceptance is behind `!zip(footer.fld, computed).any(|(x, y)| x != y..)` (or `.all(.. == ..)`)"""
        for qn, want_op, pol in (('any', 'Ne', False), ('all', 'Eq', True)):
            for c in a.calls('core::iter::traits::iterator::Iterator::' + qn):
                recv, clo = a.arg(c, 0), a.arg(c, 1)
                if not (ment(recv, fld) and 'zip' in flow.show(recv)) or clo[0] != 'agg' or clo[1] != 'closure':
                    continue
                cb_ = ctx.F.bodies.get(clo[2])
                if cb_ is None:
                    continue
                ac = an(cb_)
                rr = [e_ for (_, _, _, e_) in ac.ret_sites()]
                cmp_ = __import__('xl.core', fromlist=['as_comparison']).as_comparison(rr[0]) if len(rr) == 1 else None
                if not cmp_ or cmp_[0] != want_op:
                    continue
                sides = (cmp_[1], cmp_[2])
                if not (any(flow.mentions(z, lambda y: y[0] == 'param') for z in sides) and any(rhs_pred(z) for z in sides)):
                    continue
                te, fe = __import__('xl.core', fromlist=['bool_edges']).bool_edges(a, lambda z: a.rooted_at(z, c))
                ed_ = te if pol else fe
                if ed_ and a.cfg.must_pass(ab, via_edges=ed_, start=c):
                    return ed_
        return None
    for nm, ed, fld, rp in (('per-element footer hash == computed hash', e_el, 'chunk_hashes', lambda z: z[0] == 'field' and z[2] == 'hash'),
                            ('per-element unpacked offset == prefix sum of computed lengths', e_up, 'unpacked_chunk_offsets', lambda z: z[0] in ('local', 'upvar'))):
        okl = False
        if ed:
            lpx = c05.loop_of(a, ed[0][0])
            okl = lpx is not None and c05.latches_guarded(a, lpx, ed)
        site = a.loc(ed[0][0]) if ed else '-'
        if not okl:
            okl = quantifier_form(fld, rp) is not None
        ctx.check(okl, 'R08b', fn, nm, site, 'each compared element passed ' + nm, 'the footer comparison loop can continue past an element without ' + nm)
    # prefix sum accumulates the computed length of the zipped element
    from . import paths
    eff = paths.collect_effects(a, a.cfg.reach0, lambda k: k[0] if len(k) == 1 else None)
    ps = [(e) for es in eff.values() for (c, s, t, e, ln) in es if s == 1 and e[0] == 'field' and e[2] == 'length' or (s == 1 and 'length' in t)]
    ctx.check(len(ps) >= 1, 'R08b', fn, 'prefix sum', '-', 'the prefix sum adds the computed chunk length of the zipped element')


def _reaches_check(a, t, ed):
    srcs = {x for (x, _) in ed}
    return bool(a.cfg.reach([t]) & srcs)


def r08d(ctx):
    F = ctx.F
    v = an(F.one('cas_object::error::Validate<T>>::ok_for_format_error'))
    oks = [(b, si, e) for (b, si, k, e) in v.ret_sites()]
    # switch on the error variant: FormatError -> Ok(None)
    nones = [(b, si) for (b, si, e) in oks if e[0] == 'agg' and e[2].endswith('Result::Ok') and e[3][0][1][0] == 'agg' and e[3][0][1][2].endswith('Option::None')]
    errs = [(b, si) for (b, si, e) in oks if e[0] == 'agg' and e[2].endswith('Result::Err')]
    somes = [(b, si) for (b, si, e) in oks if e[0] == 'agg' and e[2].endswith('Result::Ok') and e[3][0][1][0] == 'agg' and e[3][0][1][2].endswith('Option::Some')]
    # everything that is not a FormatError keeps its outcome: explicit `Ok(v) => Ok(Some(v))`, `Err(e) => Err(e)` arms, or
    # `self.map(Some)` (Ok payload wrapped, Err passed through)
    map_form = [1 for (b, si, e) in oks if e[0] == 'call' and sg(e[1]) == 'core::result::Result::map' and len(e[2]) == 2 and e[2][0][0] == 'param' and e[2][0][1] == 1
                and e[2][1][0] == 'fn' and sg(e[2][1][1]).endswith('Option::Some')]
    ok = len(nones) == 1 and ((len(errs) >= 1 and len(somes) == 1) or (len(map_form) == 1 and not errs and not somes))
    fmt_edges = []
    if ok:
        adt = F.adt('cas_object::error::CasObjectError')
        vi = [i for i, x in enumerate(adt['variants']) if x['n'] == 'FormatError']
        for b in sorted(v.cfg.reach0):
            t = v.blocks[b]['t']
            if t['k'] == 'switch' and t.get('dty', '').startswith('isize'):
                e = v.flow.expr(t['d'])
                if e[0] == 'discr' and 'CasObjectError' in e[2]:
                    fmt_edges += [(b, tgt) for val, tgt in t['ts'] if vi and str(val) == str(vi[0])]
        ok = bool(fmt_edges) and v.cfg.must_pass(nones[0][0], via_edges=fmt_edges) and not any(v.cfg.must_pass(eb, via_edges=fmt_edges) for (eb, _) in errs if eb in v.cfg.reach0 and False)
        # errors other than FormatError stay errors: no Err return lies behind the FormatError edge exclusively ... and Ok(None) is not reachable otherwise
    ctx.check(ok, 'R08d', v.path, 'mapping', '-', 'Ok(None) is returned exactly on the FormatError variant edge; Ok(v) -> Ok(Some(v)); other errors stay errors',
              'ok_for_format_error maps something other than exactly FormatError to a rejection')
    for p, callee in ((VAL, 'CasObject::deserialize'), (VAL, 'deserialize_chunk')):
        a = an(F.body(p))
        cs = [c for c in a.calls() if sg(a.term(c).get('fn', '')).endswith(callee)]
        ofe = a.calls('cas_object::error::Validate::ok_for_format_error')
        ok = bool(cs) and all(any(a.rooted_at(a.arg(o, 0), c) for o in ofe) for c in cs)
        ctx.check(ok, 'R08d', p, callee, a.loc(cs[0]) if cs else '-', 'the result of %s goes through ok_for_format_error (format error => rejection, I/O error => error)' % callee)
    pub = an(F.body('cas_object::validate_xorb_stream::validate_cas_object_from_async_read::{closure#0}'))
    cs = pub.calls('cas_object::validate_xorb_stream::_validate_cas_object_from_async_read')
    ofe = pub.calls('cas_object::error::Validate::ok_for_format_error')
    ctx.check(len(cs) == 1 and len(ofe) == 1 and pub.rooted_at(pub.arg(ofe[0], 0), cs[0]), 'R08d', pub.path, 'stream', '-', 'the streaming validator\'s result goes through ok_for_format_error')


ALLOC = ('alloc::vec::Vec::with_capacity', 'alloc::vec::Vec::reserve', 'alloc::vec::Vec::resize', 'alloc::vec::from_elem', 'alloc::string::String::with_capacity', 'alloc::vec::Vec::reserve_exact')
SOURCES = ('read_u32', 'read_u64', 'read_u8', 'read_u32_async', 'read_u64_async', 'read_u8_async', 'from_le_bytes', 'get_compressed_length', 'get_uncompressed_length')


def r08e(ctx):
    F = ctx.F
    entries = [CO + 'CasObject::deserialize', VAL, 'cas_object::validate_xorb_stream::validate_cas_object_from_async_read']
    reach = set()
    work = []
    for e in entries:
        for b in F.find(e.split('cas_object::')[-1]):
            if b['crate'] == 'cas_object':
                work.append(b['qpath'])
    while work:
        p = work.pop()
        if p in reach:
            continue
        reach.add(p)
        for c in ctx.cg.callees(p):
            q = ctx.cg.norm.get(c)
            if q and q.startswith('cas_object::') and '::tests::' not in q and q not in reach:
                work.append(q)
    n = 0
    adv = 0
    for p in sorted(reach):
        a = an(F.bodies[p])
        for cb in a.calls(*ALLOC):
            t = a.term(cb)
            fn = sg(t.get('fn', ''))
            sz = a.arg(cb, 0) if fn.endswith('with_capacity') or fn.endswith('from_elem') and False else (a.arg(cb, 1) if len(t['args']) > 1 else a.arg(cb, 0))
            if fn.endswith('from_elem'):
                sz = a.arg(cb, 1)
            tainted = flow.mentions(sz, lambda z: z[0] == 'call' and sg(z[1]).split('::')[-1] in SOURCES) or flow.mentions(sz, lambda z: z[0] == 'field' and z[2] in ('num_chunks', 'info_length'))
            if not tainted:
                continue
            n += 1
            san = None
            if flow.mentions(sz, lambda z: z[0] == 'call' and sg(z[1]).endswith('prealloc_num_chunks')):
                san = 'prealloc_num_chunks'
            elif flow.mentions(sz, lambda z: z[0] == 'call' and sg(z[1]).split('::')[-1] in ('get_compressed_length', 'get_uncompressed_length') and
                               flow.mentions(z, lambda y: y[0] == 'call' and (sg(y[1]).endswith('parse_chunk_header') or sg(y[1]).endswith('deserialize_chunk_header')))):
                san = 'length getter of a header returned by parse_chunk_header/deserialize_chunk_header (validated)'
            elif flow.mentions(sz, lambda z: z[0] == 'call' and sg(z[1]).endswith('Ord::min') and any(flow.const_eval(x) is not None for x in z[2])):
                san = 'min with a constant'
            ctx.check(san is not None, 'R08e', p, sg(t['fn']).split('::')[-1], a.loc(cb), 'allocation sized by an input-declared value is sanitised by ' + str(san),
                      'an allocation is sized by a value read from the input (%s) without a bound: a crafted xorb forces an unbounded allocation' % flow.show(sz)[:70])
    ctx.floor('R08e', 'input-sized allocation sites reachable from the validator/parser entry points', n, 6)
    # the sanitisers themselves
    pa = an(F.body(CO + 'prealloc_num_chunks'))
    rs = [e for (_, _, _, e) in pa.ret_sites()]
    isp = lambda z: z[0] == 'param' and z[1] == 1
    ok = len(rs) == 1 and rs[0][0] == 'call' and sg(rs[0][1]).endswith('min') and len(rs[0][2]) == 2 and isp(rs[0][2][0]) and flow.const_eval(rs[0][2][1]) is not None
    cap = flow.const_eval(rs[0][2][1]) if ok else None
    if not ok:
        # `if declared > CAP { CAP } else { declared }`: every returned value is the cap, or the parameter on an edge parameter <= cap
        srcs = [x for (rb, rsi, k, e) in pa.ret_sites() for x in pa.flow.sources(e, (rb, rsi))]
        caps = {flow.const_eval(e) for (_, _, e) in srcs if not isp(e)}
        if len(caps) == 1 and None not in caps and any(isp(e) for (_, _, e) in srcs):
            cap = next(iter(caps))
            le = edges_where(pa, lambda op, l, r: op in ('Le', 'Lt') and isp(l) and flow.const_eval(r) == cap)
            ok = bool(le) and all(sb is not None and pa.cfg.must_pass(sb, via_edges=le) for (sb, _, e) in srcs if isp(e))
    ctx.check(ok, 'R08e', pa.path, 'min', '-', 'prealloc_num_chunks = min(declared, constant %s)' % (cap if ok else '?'))
    for nm in ('cas_object::cas_chunk_format::parse_chunk_header', 'cas_object::cas_chunk_format::deserialize_async::deserialize_chunk_header::{closure#0}'):
        from .rules_c07 import returns_validated_headers
        ctx.check(returns_validated_headers(F, nm), 'R08e', nm, 'validate', '-', 'a header is returned only after CASChunkHeader::validate succeeded on it')
    # advisory: outside the entry points
    ob = an(F.body(V1 + 'deserialize_only_boundaries_section'))
    for cb in ob.calls('alloc::vec::Vec::resize'):
        ctx.info('R08e', ob.path, ob.loc(cb), 'advisory (not reachable from C08\'s entry points): resize by an unsanitised declared count (%s)' % flow.show(ob.arg(cb, 1))[:60])


def r08g(ctx):
    F = ctx.F
    for nm in (V1 + 'deserialize', V1 + 'deserialize_async_v1::{closure#0}'):
        a = an(F.body(nm))
        v0 = edges_where(a, lambda op, l, r: op == 'Eq' and l[0] == 'field' and l[2] == 'version' and flow.const_eval(r) == 0)
        oks = [(b, si) for (b, si, k, e) in a.ret_sites() if k == 'ok' and not (v0 and a.cfg.must_pass(b, via_edges=v0))]
        reads = lambda z: z[0] == 'call' and sg(z[1]).split('::')[-1] in ('read_u32', 'read_u32_async')
        e23 = edges_where(a, lambda op, l, r: op == 'Eq' and reads(l) and reads(r) and l[3] != r[3])
        e12 = edges_where(a, lambda op, l, r: op == 'Eq' and l[0] == 'field' and l[2] == 'num_chunks' and reads(r))
        ok = len(oks) == 1 and bool(e23) and bool(e12) and a.cfg.must_pass(oks[0][0], via_edges=e23) and a.cfg.must_pass(oks[0][0], via_edges=e12)
        ctx.check(ok, 'R08g', nm, 'counts agree', a.loc(oks[0][0]) if oks else '-', 'Ok is dominated by num_chunks == hashes-section count and hashes-section count == boundaries-section count',
                  'a footer whose three declared counts disagree can be accepted: validators then index lists of different lengths (panic or unchecked tail)')
        # each list is filled by a loop bounded by its section count (so list length == that count on the Ok path)
        pushes = a.calls('alloc::vec::Vec::push')
        fields = {}
        for p in pushes:
            v = a.arg(p, 0)
            f = [z for z in flow.subtrees(v) if z[0] == 'field' and z[2] in ('chunk_hashes', 'chunk_boundary_offsets', 'unpacked_chunk_offsets')]
            if f and c05.loop_of(a, p) is not None:
                fields[f[0][2]] = p
        ctx.check(set(fields) == {'chunk_hashes', 'chunk_boundary_offsets', 'unpacked_chunk_offsets'}, 'R08g', nm, 'lists', '-', 'the three lists are each filled inside a counted loop')


def r08h(ctx):
    """C08d: a fast path that returns before the decoded-length check makes the seekable validator accept an object
    whose chunk header was modified."""
    from . import rules_c07 as c07
    F = ctx.F
    for nm in (c07.CF + 'deserialize_chunk_to_writer', c07.CF + 'deserialize_async::deserialize_chunk_to_writer::{closure#0}'):
        a = an(F.body(nm))
        st = c07.steps(a, F)
        ctx.check(bool(st.get('header')) and bool(st.get('decompress')), 'R08h', nm, 'steps', '-', 'the decoder reads one (validated) header and decompresses with the scheme it names')
        ctx.check(bool(st.get('length check')), 'R08h', nm, 'length check', '-', 'every Ok is dominated by decoded length == header.get_uncompressed_length()',
                  'a chunk can be decoded successfully although the number of bytes decoded was not compared with the length declared in its header: a validator then accepts an object whose chunk header was modified (and its two validators can disagree)')
