"""C09 — shard files: full-hash identity after truncated lookup, record-count formula agreement, token tables,
footer definite assignment, replace-aware size accounting (structural clauses; DESIGN.md §5 C09)."""
from .core import an, strip_generics as sg, edges_where, bool_edges, success_edges, propagation, cond_edges
from . import flow, serde, symval, paths, core
from . import rules_c05 as c05

EXPLANATION = (
    'Decides: (R09a) a file record is returned only on the equal edge of its stored 256-bit file hash vs the query; the truncated-prefix index lookups for files and xorbs turn a full '
    'result buffer into an error instead of silently truncating; (R09b) every place that computes how many 48-byte records follow a file header evaluates, on every path, to n*(1+verification)+metadata_ext '
    '(symbolic per-path evaluation of num_info_entry_following, MDBFileInfo::num_bytes, MDBFileInfoView::{from_data_and_header, byte_size}, both streaming section readers, the keyed-shard exporter), and the '
    'record (de)serialisers write/read n entries, n verification entries under the verification flag and one extension under the extension flag; (R09c) writer and reader walk the same (width, field) token '
    'table for the shard header, footer and the six fixed-size record types, and the widths sum to the struct size; (R09d) in every shard writer each footer offset/count field is assigned on every path before '
    'the footer is serialised, and the chunk lookup rows are sorted before written; (R09e) the in-memory shard\'s running size uses the value replaced by an insert, and the recomputed size counts one chunk row '
    'per chunk of every xorb, like the writer; (R09f) the truncated-prefix search keeps the window invariant: the lower bound rises only past keys smaller than the target, the upper bound falls only to keys >= the target, '
    'and the final scan stops early only after a larger key. Not decided: the interpolation arithmetic itself (probe placement, termination/progress).')

SF = 'mdb_shard::shard_format::'
FS = 'mdb_shard::file_structs::'
CS = 'mdb_shard::cas_structs::'
IM = 'mdb_shard::shard_in_memory::MDBInMemoryShard::'


def run(ctx):
    ctx.rule('R09a', 'record identity is decided by the full hash; full collision buffers are errors')
    ctx.rule('R09b', 'every computation of the number of records following a file header equals n*(1+V)+E on every path; (de)serialisers follow the same table')
    ctx.rule('R09c', 'writer/reader token agreement for header, footer and fixed-size records; widths sum to the struct size')
    ctx.rule('R09d', 'footer fields definitely assigned before the footer is written; chunk lookup sorted before written')
    ctx.rule('R09e', 'in-memory size accounting is replace-aware and counts chunk rows per chunk')
    ctx.guarded('R09a', SF + 'MDBShardInfo::get_file_reconstruction_info', lambda: r09a(ctx))
    ctx.guarded('R09b', 'record-count formulas', lambda: r09b(ctx))
    ctx.guarded('R09c', 'token tables', lambda: r09c(ctx))
    ctx.guarded('R09d', 'footer', lambda: r09d(ctx))
    ctx.guarded('R09e', IM + 'add_cas_block', lambda: r09e(ctx))
    ctx.rule('R09f', 'truncated-prefix search: the probe loop moves its lower bound only when the probed key is smaller than the target and its upper bound only when it is >= the target, to the probed position; equal keys before the probe stay inside the window')
    ctx.guarded('R09f', 'mdb_shard::interpolation_search::search_on_sorted_u64s', lambda: r09f(ctx))
    ctx.rule('R09g', 'shard writers advance the byte position they record in the footer (or report to their caller) by exactly what they wrote: the count returned by each write is added, or a loop of uncounted writes is matched by one `+= trips * record size` (keyed-shard exporter, the two section writers of serialize_from, MDBFileInfo::serialize)')
    ctx.guarded('R09g', 'position accounting', lambda: r09g(ctx))
    ctx.rule('R09h', 'a record header is taken for the end-of-section bookend only if its whole 256-bit hash equals the all-ones hash (full-width equality with the constant the bookend constructors write): a stored record with an extreme key is never mistaken for the end of the section')
    ctx.guarded('R09h', 'bookend recognisers', lambda: r09h(ctx))


def r09a(ctx):
    F = ctx.F
    a = an(F.body(SF + 'MDBShardInfo::get_file_reconstruction_info'))
    fn = a.path
    rf = a.calls(SF + 'MDBShardInfo::read_file_info')
    # every value an Ok return can carry: None, or Some(record) built at some site (directly or through a result variable)
    srcs = []
    for (b, si, k, e) in a.ret_sites():
        if k == 'ok':
            for (sb, ssi, se) in a.flow.sources(e[3][0][1], (b, si)):
                srcs.append((sb if sb is not None else b, ssi if sb is not None else si, se))
    somes = [(b, si, e) for (b, si, e) in srcs if e[0] == 'agg' and e[2].endswith('Option::Some')]
    other = [(b, si, e) for (b, si, e) in srcs if not (e[0] == 'agg' and (e[2].endswith('Option::Some') or e[2].endswith('Option::None')))]
    ctx.check(not other, 'R09a', fn, 'returned values', a.loc(*other[0][:2]) if other else '-', 'every Ok value is None or a Some(record) built in this function')
    if ctx.check(len(somes) >= 1 and len(rf) == 1, 'R09a', fn, 'sites', '-', 'one read_file_info and at least one Some(record) result'):
        eq = edges_where(a, lambda op, l, r: op == 'Eq' and l[0] == 'field' and l[2] == 'file_hash' and a.rooted_at(l, rf[0]) and r == ('param', 3, 'file_hash'))
        lp = c05.loop_of(a, rf[0])
        for (b, si, e) in somes:
            ctx.check(lp is not None and c05.in_iteration_guarded(a, lp, b, eq), 'R09a', fn, 'full hash', a.loc(b, si), 'a record becomes the result only on the equal edge of its stored file_hash == the queried hash (same iteration)',
                      'a file record can be returned for a query whose full hash was not compared with the stored one (truncated-prefix collisions return the wrong file)')
            ctx.check(a.rooted_at(e[3][0][1], rf[0]), 'R09a', fn, 'payload', a.loc(b, si), 'the returned record is the one read at the probed index')
    for nm in ('get_file_info_index_by_hash', 'get_cas_info_index_by_hash'):
        g = an(F.body(SF + 'MDBShardInfo::' + nm))
        ss = g.calls('mdb_shard::interpolation_search::search_on_sorted_u64s')
        oks = [(b, si, e) for (b, si, k, e) in g.ret_sites() if k == 'ok']
        lt = edges_where(g, lambda op, l, r: op == 'Lt' and ss and g.rooted_at(l, ss[0]) and 'len' in flow.show(r) or (op == 'Lt' and ss and g.rooted_at(l, ss[0]) and flow.const_eval(r) == 8))
        ok = len(ss) == 1 and len(oks) == 1 and bool(lt) and g.cfg.must_pass(oks[0][0], via_edges=lt) and g.rooted_at(oks[0][2][3][0][1], ss[0])
        ctx.check(ok, 'R09a', g.path, 'collision overflow', g.loc(oks[0][0], oks[0][1]) if oks else '-', 'Ok(n) only on the n < buffer length edge; a full buffer is reported as TruncatedHashCollisionError',
                  '%s can return a silently truncated candidate list' % nm)
        # the probe uses the truncated query hash and this table's offset/count
        if ss:
            ctx.check(flow.mentions(g.arg(ss[0], 3), lambda z: z[0] == 'call' and sg(z[1]).endswith('truncate_hash')) and 'lookup_offset' in flow.show(g.arg(ss[0], 1)) and 'lookup_num_entry' in flow.show(g.arg(ss[0], 2))
                      and flow.show(g.arg(ss[0], 1)).split('.')[-1].split('_')[0] == flow.show(g.arg(ss[0], 2)).split('.')[-1].split('_')[0], 'R09a', g.path, 'probe', g.loc(ss[0]), 'the search runs over this table\'s (offset, count) with the truncated query hash')


def header_pred_for(a, names=('header', 'metadata', 'file_metadata', 'fh')):
    def hp(e):
        # self (a FileDataSequenceHeader), self.metadata / self.header, or a local/call of type FileDataSequenceHeader
        if e[0] == 'param' and e[1] == 1 and ('FileDataSequenceHeader' in a.flow.lty(1) or 'MDBFileInfoView' in a.flow.lty(1)):
            return True
        if e[0] == 'field' and e[2] in ('metadata', 'header'):
            return True
        if e[0] == 'local' and 'FileDataSequenceHeader' in a.flow.lty(e[1]):
            return True
        if e[0] == 'param' and 'FileDataSequenceHeader' in a.flow.lty(e[1]):
            return True
        if e[0] == 'call' and sg(e[1]).endswith('FileDataSequenceHeader::deserialize'):
            return True
        return False
    return hp


def mul48_sites(a):
    """[(block, si, operand X, rvalue)] for statements computing X * 48 (MDB_FILE_INFO_ENTRY_SIZE)"""
    out = []
    for b in sorted(a.cfg.reach0):
        for si, s in enumerate(a.blocks[b]['s']):
            r = s.get('r')
            if r and r['k'] == 'bin' and r['op'] in ('Mul', 'MulO'):
                for x, y in ((r['a'], r['b']), (r['b'], r['a'])):
                    if flow.const_eval(a.flow.expr(y)) == 48 and flow.const_eval(a.flow.expr(x)) is None:
                        out.append((b, si, x))
    return out


def r09b(ctx):
    F = ctx.F
    # 1. the canonical formula
    a = an(F.body(FS + 'FileDataSequenceHeader::num_info_entry_following'))
    sv = symval.Sym(a, header_pred_for(a))
    rets = a.cfg.returns
    tab = {}
    for r in rets:
        tab.update(sv.table(0, r, {'cp': {'l': 0}}))
    ok, why = symval.table_matches(tab, symval.expected_records())
    ctx.check(ok, 'R09b', a.path, 'formula', '-', 'num_info_entry_following == n*(1+V)+E on all %d path classes' % len(tab), 'num_info_entry_following: ' + why)
    # 2. num_bytes = 48 + 48*R
    a = an(F.body(FS + 'MDBFileInfo::num_bytes'))
    sv = symval.Sym(a, header_pred_for(a))
    tab = {}
    for r in a.cfg.returns:
        tab.update(sv.table(0, r, {'cp': {'l': 0}}))
    good = tab and all(v == {1: 48, 'R': 48} for v in tab.values())
    ctx.check(good, 'R09b', a.path, 'formula', '-', 'MDBFileInfo::num_bytes == 48 * (1 + num_info_entry_following(header))', 'MDBFileInfo::num_bytes evaluates to %s' % {k: symval.show_lin(v) for k, v in tab.items()})
    # 3. sites that compute X * 48 with X a record count
    sites = [
        (FS + 'MDBFileInfoView::from_data_and_header', True, 1),
        (FS + 'MDBFileInfoView::byte_size', True, 1),
        ('mdb_shard::streaming_shard::process_shard_file_info_section', False, 1),
        ('mdb_shard::streaming_shard::process_shard_file_info_section_async::{closure#0}', False, 1),
    ]
    for path, with_header, _ in sites:
        a = an(F.body(path))
        sv = symval.Sym(a, header_pred_for(a))
        ms = mul48_sites(a)
        if not ctx.check(len(ms) >= 1, 'R09b', path, 'X*48', '-', 'found the record-count to byte-size conversion'):
            continue
        for (b, si, x) in ms[:1]:
            # start evaluation at entry (or at the loop head when inside a loop so that one record is considered)
            lp = c05.loop_of(a, b)
            start = lp[0] if lp else 0
            # evaluate X just before the multiplication: the target block is b, operand x
            tab = sv.table(start, b, x)
            ok, why = symval.table_matches(tab, symval.expected_records(with_header=with_header))
            ctx.check(ok, 'R09b', path, 'formula', a.loc(b, si), 'the record count converted to bytes equals %sn*(1+V)+E on every path' % ('1+' if with_header else ''),
                      '%s: %s' % (path.split('::')[-1], why))
    # 4. exporter: index += 1 + num_entries + n_extended_bytes/48
    a = an(F.body(SF + 'MDBShardInfo::export_as_keyed_shard_impl'))
    sv = symval.Sym(a, header_pred_for(a))
    done = False
    for b in sorted(a.cfg.reach0):
        for si, s in enumerate(a.blocks[b]['s']):
            u = paths.additive_update(a, s)
            if u and u[0] == ('index',) and u[1] == 1:
                lp = c05.loop_of(a, b)
                r = s['r']
                opnd = r['b'] if r['k'] == 'bin' else None
                tb = b
                if opnd is None and r['k'] == 'use':
                    # checked form: index = move (_t.0) with _t = AddWithOverflow(index, X)
                    pl = r['a'].get('mv') or r['a'].get('cp')
                    for d in a.flow.defs.get(pl['l'], []) if pl else []:
                        if d[0] == 'assign' and d[3]['k'] == 'bin':
                            opnd, tb = d[3]['b'], d[1]
                tab = sv.table(lp[0] if lp else 0, tb, opnd) if opnd else {}
                ok, why = symval.table_matches(tab, symval.expected_records(with_header=True))
                ctx.check(ok, 'R09b', a.path, 'index advance', a.loc(b, si), 'the exporter advances its file entry index by 1+n*(1+V)+E', 'keyed-shard exporter: ' + why)
                done = True
    ctx.check(done, 'R09b', a.path, 'index advance site', '-', 'found the exporter\'s index advance')
    # 5. (de)serialisers: structure of the record group
    for path, kind in ((FS + 'MDBFileInfo::serialize', 'w'), (FS + 'MDBFileInfo::deserialize', 'r')):
        a = an(F.body(path))
        suffix = 'serialize' if kind == 'w' else 'deserialize'
        def rec_calls(ty):
            return [c for c in a.calls(FS + ty + '::' + suffix)] + [c for ch in F.children(a.body) for c in [] ]
        ent = rec_calls('FileDataSequenceEntry')
        ver = rec_calls('FileVerificationEntry')
        ext = rec_calls('FileMetadataExt')
        if kind == 'r' and not ext:
            # the extension is read in a `.then(|| ..)` closure
            for ch in F.children(a.body):
                ac = an(ch)
                if ac.calls(FS + 'FileMetadataExt::deserialize'):
                    ext = ['closure']
        hdr = rec_calls('FileDataSequenceHeader')
        ok = len(hdr) == 1 and len(ent) == 1 and len(ver) == 1 and len(ext) == 1
        if ctx.check(ok, 'R09b', path, 'record calls', '-', 'one header, one entry loop, one verification loop, one extension'):
            vt, vf = bool_edges(a, lambda e: e[0] == 'call' and sg(e[1]).endswith('contains_verification'))
            ok1 = c05.loop_of(a, ent[0]) is not None and c05.loop_of(a, ver[0]) is not None and bool(vt) and a.cfg.must_pass(ver[0], via_edges=vt) and not a.cfg.must_pass(ent[0], via_edges=vt)
            if not ok1 and c05.loop_of(a, ent[0]) is not None and c05.loop_of(a, ver[0]) is not None and bool(vt) and not a.cfg.must_pass(ent[0], via_edges=vt):
                # `let n_verif = if header.contains_verification() { n } else { 0 }; for _ in 0..n_verif`: the loop itself is not
                # under the flag, its trip count is
                lpv = c05.loop_of(a, ver[0])
                for l_, ds_ in a.flow.defs.items():
                    for d_ in ds_:
                        if d_[0] != 'assign':
                            continue
                        e_ = a.flow.rvalue(d_[3], 0)
                        if e_[0] == 'agg' and 'Range' in e_[2] and a.cfg.must_pass(lpv[0], via_blocks=[d_[1]]) and d_[1] not in lpv[1]:
                            end_ = dict(e_[3]).get('end')
                            srcs_ = a.flow.sources(end_) if end_ is not None else []
                            if len(srcs_) >= 2 and all((se[:2] == ('const', 0)) or (sb is not None and a.cfg.must_pass(sb, via_edges=vt) and flow.mentions(se, lambda z: z[0] == 'field' and z[2] == 'num_entries'))
                                                       for (sb, _, se) in srcs_) and any(se[:2] != ('const', 0) for (_, _, se) in srcs_):
                                ok1 = True
            ok1 = ok1 or (c05.loop_of(a, ent[0]) is not None and not a.cfg.must_pass(ent[0], via_edges=vt) and iterations_under(a, ver[0], vt))
            ctx.check(ok1, 'R09b', path, 'verification under flag', a.loc(ver[0]), 'entries are %s unconditionally in a loop; verification entries in a loop under contains_verification()' % ('written' if kind == 'w' else 'read'))
            if kind == 'r':
                # both loops are bounded by num_entries of the header just read
                bounds = []
                for l, ds in a.flow.defs.items():
                    for d in ds:
                        if d[0] == 'assign':
                            e = a.flow.rvalue(d[3], 0)
                            if e[0] == 'agg' and 'Range' in e[2] and flow.mentions(e, lambda z: z[0] == 'field' and z[2] == 'num_entries'):
                                bounds.append(d[1])
                ctx.check(len(bounds) >= 2, 'R09b', path, 'loop bounds', '-', 'both loops run 0..header.num_entries')
    # 6. set_operation copies: entries loop bounded by the header's num_entries, verification under flag, ext under flag (file arms)
    a = an(F.one('mdb_shard::set_operations::set_operation'))
    for ty, flag in (('FileVerificationEntry', 'contains_verification'), ('FileMetadataExt', 'contains_metadata_ext')):
        ds = a.calls(FS + ty + '::deserialize')
        te, fe = bool_edges(a, lambda e: (e[0] == 'call' and sg(e[1]).endswith(flag)) or (e[0] == 'bin' and e[1] == 'BitOr') or e[0] == 'local')
        te2, _ = bool_edges(a, lambda e: flow.mentions(e, lambda z: z[0] == 'call' and sg(z[1]).endswith(flag)))
        for d in ds:
            ctx.check(bool(te2) and (a.cfg.must_pass(d, via_edges=te + te2) or iterations_under(a, d, te + te2)), 'R09b', a.path, ty + ' under flag', a.loc(d), '%s records are copied only under a %s() condition' % (ty, flag))


PAIRS = [
    (SF + 'MDBShardFileHeader', None), (SF + 'MDBShardFileFooter', None),
    (FS + 'FileDataSequenceHeader', None), (FS + 'FileDataSequenceEntry', None), (FS + 'FileVerificationEntry', None), (FS + 'FileMetadataExt', None),
    (CS + 'CASChunkSequenceHeader', None), (CS + 'CASChunkSequenceEntry', None),
]


def raw_tokens(a):
    """tokens incl. fixed-array write_all/read_exact"""
    toks = serde.tokens(a)
    for b in sorted(a.cfg.reach0):
        t = a.blocks[b]['t']
        if t['k'] != 'call':
            continue
        fn = sg(t.get('fn', ''))
        if fn in ('std::io::Write::write_all', 'std::io::Read::read_exact') and len(t['args']) == 2:
            o = t['args'][1]
            pl = o.get('mv') or o.get('cp')
            ty = a.flow.lty(pl['l']) if pl else o.get('ty', '')
            import re
            m = re.match(r'&(mut )?\[u8; (\d+)\]', ty)
            e1 = a.arg(b, 1)
            nbytes = m.group(2) if m else (str(len(e1[1]) // 2) if e1[0] == 'bytes' else None)
            if nbytes is None and e1[0] == 'local' and re.match(r'\[u8; (\d+)\]', a.flow.lty(e1[1])):
                nbytes = re.match(r'\[u8; (\d+)\]', a.flow.lty(e1[1])).group(1)
            if nbytes:
                toks.append(dict(dir='w' if 'write' in fn else 'r', width='raw:%s' % nbytes, rep=None, value=e1, block=b, line=a.line(b)))
    order = {b: i for i, b in enumerate(serde.topo_blocks(a, [bb for (bb, si, k, _) in a.ret_sites() if k == 'err']))}
    toks.sort(key=lambda t: order.get(t['block'], 10 ** 6))
    return toks


def width_bytes(w, fields=None):
    if w.startswith('raw:'):
        return int(w[4:])
    return serde.WIDTH.get(w)


def field_sinks(a, tok):
    """field a reader token's result flows to (aggregate component, partial store, or &mut field argument)"""
    b = tok['block']
    t = a.blocks[b]['t']
    if tok['width'] in ('u32s', 'u64s', 'bytes') or tok['width'].startswith('raw:'):
        e = a.arg(b, 1)
        fs = [z for z in flow.subtrees(e) if z[0] == 'field']
        if fs:
            return fs[0][2]
        if e[0] == 'local':
            return e[2]
        return None
    for bb in sorted(a.cfg.reach0):
        for s in a.blocks[bb]['s']:
            r = s.get('r')
            d = s.get('d')
            if not r:
                continue
            if r['k'] == 'agg' and r['ak'] == 'adt':
                e = a.flow.rvalue(r, 0)
                for n, c in e[3]:
                    if a.rooted_at(c, b) and c[0] in ('call',):
                        return n
            if d and 'p' in d:
                fl = [x.get('n') for x in d['p'] if isinstance(x, dict) and 'f' in x]
                if fl and a.rooted_at(a.flow.rvalue(r, 0), b):
                    return fl[-1]
    return None


def r09c(ctx):
    F = ctx.F
    n = 0
    for ty, _ in PAIRS:
        w = an(F.body(ty + '::serialize'))
        r = an(F.body(ty + '::deserialize'))
        wt = [t for t in raw_tokens(w) if t['dir'] == 'w']
        rt = [t for t in raw_tokens(r) if t['dir'] == 'r']
        # fixed-size records use an outer read_exact/write_all of the whole buffer: drop raw tokens of the full struct size when inner tokens exist
        size = None
        for z in [x for b in sorted(w.cfg.reach0) for s in w.blocks[b]['s'] if s.get('r') for x in flow.subtrees(w.flow.rvalue(s['r'], 0))] + [e for (_, _, _, e) in w.ret_sites() for e in flow.subtrees(e)]:
            if z[0] == 'sizeof' and z[1] == ty:
                size = z[2]
        inner_w = [t for t in wt if not (t['width'] == 'raw:%s' % size and len(wt) > 1)]
        inner_r = [t for t in rt if not (t['width'] == 'raw:%s' % size and len(rt) > 1)]
        wseq = [(t['width'], (serde.writer_field(t['value']) or '').split('.')[-1] if t['value'] is not None and t['value'][0] != 'bytes' else 'tag') for t in inner_w]
        rseq = [(t['width'], field_sinks(r, t)) for t in inner_r]
        # normalise: a constant tag written raw and read into `tag`
        wseq = [(wd, 'tag' if f in ('', None) else f) for wd, f in wseq]
        n += 1
        # records read through a full-size outer buffer may ignore trailing padding fields (`_unused`, `_buffer`)
        outer = any(t['width'] == 'raw:%s' % size for t in rt) or any(sg(r.term(c).get('fn', '')) == 'std::io::Read::read_exact' for c in r.calls())
        same = wseq == rseq or (outer and wseq[:len(rseq)] == rseq and all(f.startswith('_') for _, f in wseq[len(rseq):]) and len(rseq) >= 1)
        ctx.check(same and len(wseq) >= 2, 'R09c', ty, 'tokens', '-', '%s: writer and reader walk the same table (%d tokens: %s)' % (ty.split('::')[-1], len(wseq), ' '.join('%s:%s' % x for x in wseq)[:160]),
                  '%s writer/reader disagree: writer %s, reader %s' % (ty.split('::')[-1], wseq, rseq))
        adt = F.adts.get(ty)
        tot = 0
        okw = True
        for wd, f in wseq:
            wb = width_bytes(wd)
            if wb is None:
                # bulk tokens: size from the field's array type
                fty = [x['ty'] for x in adt['variants'][0]['fields'] if x['n'] == f] if adt else []
                import re
                m = re.match(r'\[(u8|u32|u64); (\d+)\]', fty[0]) if fty else None
                wb = int(m.group(2)) * {'u8': 1, 'u32': 4, 'u64': 8}[m.group(1)] if m else None
            if wb is None:
                okw = False
            else:
                tot += wb
        ctx.check(okw and size is not None and tot == size, 'R09c', ty, 'size', '-', 'token widths sum to size_of::<%s>() = %s' % (ty.split('::')[-1], size), 'token widths sum to %s, struct size %s' % (tot, size))
    ctx.floor('R09c', 'serialize/deserialize pairs', n, 8)


FOOTER_FIELDS = ['file_info_offset', 'cas_info_offset', 'file_lookup_offset', 'file_lookup_num_entry', 'cas_lookup_offset', 'cas_lookup_num_entry', 'chunk_lookup_offset', 'chunk_lookup_num_entry', 'footer_offset']
BYTE_TOTALS = ['stored_bytes_on_disk', 'materialized_bytes', 'stored_bytes']


def r09d(ctx):
    F = ctx.F
    writers = [SF + 'MDBShardInfo::serialize_from', 'mdb_shard::set_operations::set_operation', SF + 'MDBShardInfo::export_as_keyed_shard_impl']
    for wpath in writers:
        a = an(F.one(wpath) if not wpath.startswith(SF) else F.body(wpath))
        fs = a.calls(SF + 'MDBShardFileFooter::serialize')
        if not ctx.check(len(fs) == 1, 'R09d', a.path, 'footer.serialize', '-', 'one footer serialisation'):
            continue
        f = fs[0]
        missing = []
        acc_writer = not a.path.endswith('serialize_from')
        # struct-literal form: the footer that is serialised is one aggregate `MDBShardFileFooter { f: .., ..Default::default() }`
        recv = a.arg(f, 0)
        if recv[0] == 'agg' and recv[2].startswith(SF + 'MDBShardFileFooter') and not any(a.stores_to_field(fld) for fld in FOOTER_FIELDS):
            comps = dict(recv[3])
            need = FOOTER_FIELDS + ([] if acc_writer and a.path.endswith('set_operation') else BYTE_TOTALS)
            # a field taken over from another footer value (`..Default::default()`) reads that value's namesake field
            missing = [fld for fld in need if fld not in comps or (comps[fld][0] == 'field' and comps[fld][2] == fld)]
            ctx.check(not missing, 'R09d', a.path, 'definite assignment', a.loc(f), 'every offset/count (and directly assigned total) footer field is given explicitly in the footer literal that is written',
                      'footer field(s) %s keep their default in the footer literal' % missing)
            accs = {flow.show(comps[fld]) for fld in FOOTER_FIELDS if fld.endswith('_offset') and fld in comps}
            ctx.check(len(accs) == 1, 'R09d', a.path, 'one position accumulator', '-', 'every section offset is taken from the same running position accumulator (%s)' % sorted(accs))
            if acc_writer:
                totals_paired(ctx, a)
            continue
        for fld in FOOTER_FIELDS + ([] if acc_writer and a.path.endswith('set_operation') else BYTE_TOTALS):
            sts = a.stores_to_field(fld)
            blocks = [b for (b, si, s) in sts]
            if not blocks or not a.cfg.must_pass(f, via_blocks=blocks) and not any(b == f for b in blocks):
                # stores are statements: "passing" the block means leaving it; a store in a block dominating f qualifies
                if not blocks or not all_paths_through(a, f, blocks):
                    missing.append(fld)
        if acc_writer:
            totals_paired(ctx, a)
        ctx.check(not missing, 'R09d', a.path, 'definite assignment', a.loc(f), 'every offset/count (and directly assigned total) footer field is assigned on every path before the footer is written',
                  'footer field(s) %s can be left at their default on some path to the footer write' % missing)
        # order: each section offset is the running position variable at that point (same accumulator for all offsets)
        accs = set()
        for fld in FOOTER_FIELDS:
            if fld.endswith('_offset'):
                for (b, si, s) in a.stores_to_field(fld):
                    e = a.flow.rvalue(s['r'], 0)
                    accs.add(flow.show(e))
        ctx.check(len(accs) == 1, 'R09d', a.path, 'one position accumulator', '-', 'every section offset is taken from the same running position accumulator (%s)' % sorted(accs))
    # minimal shard writer builds the footer as one aggregate
    for p, b in F.bodies.items():
        if p.startswith('mdb_shard::streaming_shard::MDBMinimalShard::serialize'):
            am = an(b)
            aggs = [am.flow.rvalue(s['r'], 0) for bb in sorted(am.cfg.reach0) for s in am.blocks[bb]['s'] if s.get('r') and s['r']['k'] == 'agg' and s['r'].get('adt') == SF + 'MDBShardFileFooter']
            if aggs:
                names = [n for n, _ in aggs[0][3]]
                ctx.check(all(f in names for f in FOOTER_FIELDS), 'R09d', p, 'aggregate', '-', 'MDBMinimalShard::serialize builds the footer as one aggregate with every field')
    # chunk rows sorted before written in serialize_from's helper
    c = an(F.body(SF + 'MDBShardInfo::convert_and_save_cas_info'))
    srt = [x for x in c.calls() if sg(c.term(x).get('fn', '')).split('::')[-1].startswith('sort')]
    oks = [(b, si, e) for (b, si, k, e) in c.ret_sites() if k == 'ok']
    ok = len(srt) == 1 and len(oks) == 1 and c.cfg.must_pass(oks[0][0], via_blocks=srt)
    if ok:
        tup = oks[0][2][3][0][1]
        chunk_part = tup[3][1][1]
        ok = flow.mentions(chunk_part, lambda z: c.root_call(z) is not None and c.root_call(c.arg(srt[0], 0)) is not None and c.root_call(z)[3] == c.root_call(c.arg(srt[0], 0))[3])
    ctx.check(ok, 'R09d', c.path, 'chunk rows sorted', c.loc(srt[0]) if srt else '-', 'the chunk lookup rows returned for writing are taken from the sorted combined vector',
              'serialize_from can write an unsorted chunk lookup table')
    # one chunk row per chunk written
    ser = [x for x in c.calls(CS + 'CASChunkSequenceEntry::serialize')]
    pk = [p for p in c.calls('alloc::vec::Vec::push') if flow.mentions(c.arg(p, 1), lambda z: z[0] == 'call' and sg(z[1]).endswith('truncate_hash') and flow.mentions(z, lambda y: y[0] == 'field' and y[2] == 'chunk_hash'))]
    ok = len(ser) == 1 and len(pk) == 1 and c05.loop_of(c, ser[0]) is not None and c05.loop_of(c, ser[0])[0] == c05.loop_of(c, pk[0])[0]
    ctx.check(ok, 'R09d', c.path, 'row per chunk', c.loc(pk[0]) if pk else '-', 'one chunk lookup row is pushed in the same loop iteration that serialises the chunk')


def totals_paired(ctx, a):
    """streaming writers accumulate the byte totals: every copied file entry adds its unpacked_segment_bytes, every copied xorb header adds its two byte counts"""
    eff = paths.collect_effects(a, a.cfg.reach0, lambda k: k[-1] if k[-1] in BYTE_TOTALS or k[0] in BYTE_TOTALS else None)
    adds = [(b, c, e) for b, es in eff.items() for (c, s, t, e, ln) in es if s == 1]
    for w in a.calls(FS + 'FileDataSequenceEntry::serialize'):
        ent = a.arg(w, 0)
        lp = c05.loop_of(a, w)
        ok = lp is not None and any(c == 'materialized_bytes' and b in lp[1] and e[0] == 'field' and e[2] == 'unpacked_segment_bytes' and flow.eqv(e[1], ent) for (b, c, e) in adds)
        ctx.check(ok, 'R09d', a.path, 'materialized_bytes += entry', a.loc(w), 'each file entry copied to the output adds its unpacked_segment_bytes to the materialized total in the same iteration',
                  'a file entry is copied to the output without adding its bytes to the footer\'s materialized_bytes')
    for w in a.calls(CS + 'CASChunkSequenceHeader::serialize'):
        h = a.arg(w, 0)
        if h[0] == 'call' and sg(h[1]).endswith('bookend'):
            continue
        for fld, src in (('stored_bytes_on_disk', 'num_bytes_on_disk'), ('stored_bytes', 'num_bytes_in_cas')):
            ok = any(c == fld and e[0] == 'field' and e[2] == src and flow.eqv(e[1], h) for (b, c, e) in adds)
            ctx.check(ok, 'R09d', a.path, fld + ' += header', a.loc(w), 'each xorb header copied to the output adds its %s to %s' % (src, fld), 'a xorb header is copied without adding %s to %s' % (src, fld))


def all_paths_through(a, target, blocks):
    """every path entry -> target visits one of `blocks` (store blocks count when entered)"""
    return target not in a.cfg.reach([0], cut_blocks=[b for b in blocks if b != 0]) or 0 in blocks


def r09e(ctx):
    F = ctx.F
    for nm, container in (('add_cas_block', 'cas_content'), ('add_file_reconstruction_info', 'file_content')):
        a = an(F.body(IM + nm))
        ins = [i for i in a.calls('alloc::collections::btree::map::BTreeMap::insert') if flow.show(a.arg(i, 0)) == 'self.' + container]
        eff = paths.collect_effects(a, a.cfg.reach0, lambda k: 'size' if k == ('self', 'current_shard_file_size') else None)
        adds = [(b, e) for b, es in eff.items() for (c, s, t, e, ln) in es if s == 1]
        subs = [(b, e) for b, es in eff.items() for (c, s, t, e, ln) in es if s == -1]
        if not ctx.check(len(ins) == 1 and adds, 'R09e', a.path, 'insert+size', '-', 'one keyed insert and running-size additions'):
            continue
        i = ins[0]
        # the replaced value must be used: a Some edge of the insert result leading to a subtraction derived from it
        some = a.some_edges(a.variant_edges(i, 'core::option::Option<'))
        ok = bool(some) and bool(subs) and all(a.cfg.must_pass(b, via_edges=some) for (b, e) in subs) and all(flow.mentions(e, lambda z: a.rooted_at(z, i)) for (b, e) in subs)
        ctx.check(ok, 'R09e', a.path, 'insert', a.loc(i), 'the value replaced by the insert is inspected and its contribution is subtracted from the running size (on the Some edge only)',
                  'the running shard size is incremented while the value replaced by BTreeMap::insert is discarded: re-adding a record counts it twice')
    # recalculate: chunk rows per chunk
    r = an(F.body(IM + 'recalculate_shard_size'))
    bad = [c for c in r.calls('std::collections::hash::map::HashMap::len') if flow.show(r.arg(c, 0)) == 'self.chunk_hash_lookup']
    per = False
    for ch in F.children(r.body):
        ac = an(ch)
        rr = [e for (_, _, _, e) in ac.ret_sites()]
        if len(rr) == 1 and 'len' in flow.show(rr[0]) and 'chunks' in flow.show(rr[0]):
            per = True
    ctx.check(not bad and per, 'R09e', r.path, 'chunk rows', '-', 'recalculate_shard_size counts one chunk lookup row per chunk of every xorb (like the serialiser), not per unique chunk hash',
              'recalculate_shard_size counts chunk lookup rows by unique chunk hash while the serialiser writes one row per chunk')


def r09f(ctx):
    """window invariant of the probe loop: all entries equal to the target stay inside (lo, hi]"""
    a = an(ctx.F.one('mdb_shard::interpolation_search::search_on_sorted_u64s'))
    fn = a.path
    loops = a.cfg.loops()

    def is_target(e):
        return e[0] == 'param' and e[2] == 'key'

    reads = [b for b in a.calls() if sg(a.term(b).get('fn', '')).endswith('read_u64')]

    def is_key_of(rb):
        return lambda e: a.rooted_at(e, rb)

    def compares_key(rb, blks):
        return bool(core.order_refinements(a, blks, is_target, is_key_of(rb)))
    # the probe loop: the largest loop with a seek and a comparison of the target with a key read at its own level
    probe = None
    for h, blks in loops.items():
        own = [rb for rb in reads if rb in blks and c05.loop_of(a, rb)[0] == h and compares_key(rb, blks)]
        if own and any(sg(a.term(b).get('fn', '')) == 'std::io::Seek::seek' for b in blks if a.blocks[b]['t']['k'] == 'call'):
            if probe is None or len(blks) > len(probe[1]):
                probe = (h, blks, own)
    if not ctx.check(probe is not None, 'R09f', fn, 'probe loop', '-', 'found the seek-and-compare probe loop'):
        return
    head, blks, own = probe
    if not ctx.check(len(own) == 1, 'R09f', fn, 'comparison', '-', 'one probed key is read and compared with the target per iteration'):
        return
    rb = own[0]
    st, ref = core.order_states(a, head, blks, is_target, is_key_of(rb))
    seen = set().union(*ref.values()) if ref else set()
    ctx.check(seen == {'L', 'E', 'G'} and all(any(v == {o} for v in st.values()) for o in 'LEG'), 'R09f', fn, 'arms', a.loc(rb),
              'all three outcomes of comparing the target with the probed key are distinguished')

    def assigned_in(name, inblks):
        out = []
        for l, ld in enumerate(a.body['locals']):
            if ld.get('n') == name:
                for d in a.flow.defs.get(l, []):
                    if d[0] == 'assign' and d[1] in inblks:
                        out.append((d[1], d[2], a.flow.rvalue(d[3], 0)))
        return out

    def state(b):
        return st.get(b, set())
    # lower bound: only after target > probed key, to the probed position
    for (b, si, e) in assigned_in('lo', blks):
        ctx.check(state(b) <= {'G'}, 'R09f', fn, 'lo moves', a.loc(b, si), 'the lower bound is raised only where the target is known to be greater than the probed key',
                  'the lower bound of the search window is raised on a path where the probed key is not smaller than the target: entries equal to the target in front of the probe fall out of the window (lookups miss stored records when several share a prefix)')
        ctx.check(e[0] == 'local' and e[2] == 'probe_index', 'R09f', fn, 'lo value', a.loc(b, si), 'the lower bound becomes the probed position')
    for (b, si, e) in assigned_in('hi', blks):
        ctx.check(state(b) <= {'L', 'E'}, 'R09f', fn, 'hi moves', a.loc(b, si), 'the upper bound is lowered only where the target is known to be <= the probed key',
                  'the upper bound of the search window is lowered on a path where the probed key is smaller than the target')
        ctx.check(e[0] == 'local' and e[2] == 'probe_index', 'R09f', fn, 'hi value', a.loc(b, si), 'the upper bound becomes the probed position')
    ctx.floor('R09f', 'window-bound assignments in the probe loop', len(assigned_in('lo', blks)) + len(assigned_in('hi', blks)), 3)
    # where the keys are equal the matching run from the probe up to hi is read out before hi is lowered
    latches = [(b, head) for b in blks if head in a.cfg.succ[b]]
    his_eq = [(b, si) for (b, si, e) in assigned_in('hi', blks) if state(b) == {'E'}]
    wr = [w for w in a.calls() if w in blks and sg(a.term(w).get('fn', '')).endswith('FnMut::call_mut')]
    eq_entry = [q for (p, q), v in ref.items() if v == {'E'}]
    ok = bool(his_eq) and bool(wr) and bool(eq_entry) and all(any(b not in a.cfg.reach(eq_entry, cut_edges=set(a.cfg.out_edges(w)) | set(latches)) for w in wr) for (b, si) in his_eq)
    ctx.check(ok, 'R09f', fn, 'equal arm reads first', '-', 'where the keys are equal a value is recorded before the upper bound moves to the probe')
    # the final sequential scan covers (lo, hi): starts at lo, advances lo by 1 per entry, stops only on target < key
    seq = []
    for h2, b2 in loops.items():
        if h2 in blks or h2 == head:
            continue
        own2 = [r2 for r2 in reads if r2 in b2 and compares_key(r2, b2)]
        if own2:
            seq.append((h2, b2, own2))
    if ctx.check(len(seq) == 1 and len(seq[0][2]) == 1, 'R09f', fn, 'scan loop', '-', 'found the final sequential scan'):
        h2, b2, own2 = seq[0]
        r2 = own2[0]
        st2, ref2 = core.order_states(a, h2, b2, is_target, is_key_of(r2))
        compared = {q for (p, q) in ref2}
        after_cmp = a.cfg.reach(sorted(compared), cut_edges={(x_, h2) for x_ in b2 if h2 in a.cfg.succ[x_]}) & set(b2)
        erronly = a.error_blocks()
        exits = [(p, q) for p in b2 for q in a.cfg.succ[p] if q not in b2 and q not in erronly and not a.blocks[q].get('cl')]

        def edge_state(p, q):
            s_ = set(st2.get(p, set()))
            if (p, q) in ref2:
                s_ &= ref2[(p, q)]
            return s_
        early = [(p, q) for (p, q) in exits if (p in after_cmp or (p, q) in ref2) and not edge_state(p, q) <= {'L'}]
        ctx.check(not early, 'R09f', fn, 'scan exits', a.loc(r2), 'after comparing an entry the sequential scan leaves the loop early only where the target is smaller than the entry\'s key',
                  'the sequential scan can stop early although equal keys may follow (exit at line %s not behind a "target < key" test)' % [a.line(p) for (p, q) in early])
        rec = [w for w in a.calls() if w in b2 and sg(a.term(w).get('fn', '')).endswith('FnMut::call_mut')]
        ok2 = bool(rec) and all(st2.get(w, {'L', 'E', 'G'}) == {'E'} for w in rec)
        ctx.check(ok2, 'R09f', fn, 'scan records', a.loc(r2), 'the scan records a value exactly where the keys are equal')
        # every entry whose key equals the target is recorded: the equal state reaches a latch only through a record
        lat2 = [(x_, h2) for x_ in b2 if h2 in a.cfg.succ[x_]]
        eq_in = [q for (p, q), v in ref2.items() if 'E' in v]
        skip = [x_ for (x_, _) in lat2 if x_ in a.cfg.reach([q for (p, q), v in ref2.items() if v == {'E'}], cut_edges={e_ for w in rec for e_ in a.cfg.out_edges(w)} | set(lat2))]
        ctx.check(bool(eq_in) and not skip, 'R09f', fn, 'scan records all', a.loc(r2), 'an entry with an equal key is always recorded before the scan moves on')


def r09g(ctx):
    """same rule as C10-R10d, for the writers whose accounting is of the decidable forms; serialize_from's three lookup
    tables are written from zipped key/value vectors and accounted as 8*keys.len() + 4*vals.len(), which is right only
    because the two vectors have equal length — a relational fact this rule does not decide (not claimed)."""
    from . import posacct
    posacct.learn_sizes(ctx.F)
    SFMT = 'mdb_shard::shard_format::MDBShardInfo::'
    tot = dict(direct=0, bulk=0)
    for fn, acc, fl in ((SFMT + 'export_as_keyed_shard_impl', 'byte_pos', 12), (SFMT + 'convert_and_save_file_info', 'bytes_written', 2),
                        (SFMT + 'convert_and_save_cas_info', 'bytes_written', 3), ('mdb_shard::file_structs::MDBFileInfo::serialize', 'bytes_written', 4)):
        a = an(ctx.F.body(fn))
        wp = [i for i in range(1, a.body['argc'] + 1) if a.body['locals'][i].get('ty', '').startswith('&mut W')]
        r = posacct.Acct(a, lambda z, wp=wp: z[0] == 'param' and z[1] in wp, acc).run()
        n = r.stats['direct'] + r.stats['bulk']
        tot['direct'] += r.stats['direct']
        tot['bulk'] += r.stats['bulk']
        ctx.check(n >= fl, 'R09g', fn, 'writes', '-', '%d accounted writes' % n, 'cannot establish: found only %d accounted writes through the writer parameter (confirmed by reading: %d)' % (n, fl))
        ctx.check(not r.viol, 'R09g', fn, 'position', a.loc(r.viol[0][0], r.viol[0][1]) if r.viol else '-',
                  '%d writes add their returned count, %d are covered by a matching bulk update of their loop' % (r.stats['direct'], r.stats['bulk']), r.viol[0][2] if r.viol else None)
        for v in r.viol[1:]:
            ctx.check(False, 'R09g', fn, 'position', a.loc(v[0], v[1]), '', v[2])
    ctx.floor('R09g', 'writes whose returned count is added', tot['direct'], 15)
    ctx.floor('R09g', 'uncounted loop writes matched by a bulk update', tot['bulk'], 7)


def iterations_under(a, site, edges, _depth=0):
    """the call at `site` runs only where one of `edges` was taken: it is dominated by them, or it sits in a loop whose
    trip count / iterated sequence is zero / empty on every path that did not take them
    (`for _ in 0..(if flag { n } else { 0 })`, `for v in (if flag { &self.list } else { &[] })`)"""
    from . import loops as L
    if not edges:
        return False
    if a.cfg.must_pass(site, via_edges=edges):
        return True
    lp = c05.loop_of(a, site)
    if lp is None:
        return False
    head, blks = lp

    def empty(e):
        while e[0] in ('cast', 'ref'):
            e = e[1]
        if e[:2] == ('const', 0):
            return True
        if e[0] == 'agg' and e[1] == 'array' and not e[3]:
            return True
        if e[0] in ('bytes', 'str') and not e[1]:
            return True
        return False

    def zero_len_at(sb, si):
        # a promoted `&[]`: the defining statement's type is a reference to a zero-length array
        try:
            st = a.blocks[sb]['s'][si]
            d = st.get('d')
            import re
            ls = [d['l']] if d is not None and 'p' not in d else []
            r = st.get('r') or {}
            o = r.get('a') or {}
            pl = o.get('mv') or o.get('cp')
            if r.get('k') in ('cast', 'use') and pl is not None and 'p' not in pl:
                ls.append(pl['l'])
            return any(re.search(r'; 0\]$', a.flow.lty(l).strip()) is not None for l in ls)
        except (IndexError, TypeError, KeyError):
            return False

    def guarded(e, sb, depth=0, si=None):
        """every value e can take is empty/zero, or was produced where the edges had been taken"""
        if empty(e) or (e[0] == 'item' and sb is not None and si is not None and zero_len_at(sb, si)):
            return True
        if sb is not None and sb not in blks and a.cfg.must_pass(sb, via_edges=edges):
            return True
        if depth >= 3:
            return False
        z = e
        while z[0] == 'call' and sg(z[1]).split('::')[-1] in ('into_iter', 'iter', 'as_slice', 'deref', 'as_ref') and len(z[2]) == 1:
            z = z[2][0]
        if z[0] == 'agg' and 'ops::range::Range' in z[2]:
            d = dict(z[3])
            st, en = d.get('start'), d.get('end')
            if st is not None and st[:2] == ('const', 0) and en is not None:
                return guarded(en, sb, depth + 1)
            return False
        if z is not e:
            return guarded(z, sb, depth + 1)
        if z[0] == 'local':
            srcs = a.flow.sources(z)
            if srcs and not (len(srcs) == 1 and srcs[0][2] == z):
                return all(guarded(se, sb2, depth + 1, si2) for (sb2, si2, se) in srcs)
        return False

    nx = [c for c in a.calls('core::iter::traits::iterator::Iterator::next') if c in blks and L._loop_of(a, c)[0] == head]
    if len(nx) == 1:
        it = a.arg(nx[0], 0)
        srcs = a.flow.sources(it)
        if srcs and all(guarded(se, sb, 0, si_) for (sb, si_, se) in srcs):
            return True
    c = L.counting_loop(a, lp, lambda y: True)
    if c is not None and c.get('bound') is not None and guarded(c['bound'], None):
        return True
    return False


def r09h(ctx):
    """C09d: `file_hash.iter().any(|w| w == !0)` ends the file section at any record with one all-ones word."""
    F = ctx.F
    from .core import as_comparison

    def all_ones(e, named_ok=True):
        # [!0u64; 4] (possibly through .into()/From): every element is the bitwise complement of 0 / u64::MAX
        while e[0] == 'call' and sg(e[1]).split('::')[-1] in ('into', 'from') and len(e[2]) == 1:
            e = e[2][0]
        while e[0] in ('ref', 'cast') or (e[0] == 'call' and sg(e[1]).split('::')[-1] in ('deref', 'as_ref', 'borrow') and len(e[2]) == 1):
            e = e[1] if e[0] != 'call' else e[2][0]
        if e[0] == 'agg' and e[1] in ('repeat', 'array') and e[3]:
            return all((c[0] == 'un' and c[1] == 'Not' and c[2][:2] == ('const', 0)) or (c[0] == 'const' and c[1] == 0xFFFFFFFFFFFFFFFF) for (_, c) in e[3])
        if e[0] == 'item' and named_ok:
            # a named / promoted constant the extractor does not evaluate: accepted as "a compile-time constant" (the
            # structural clause — full-width equality with one constant — holds; that the writer uses the same
            # value is then checked only as far as it names a constant too)
            return True
        if e[0] == 'item':
            # a named constant: its evaluated value (the extractor dumps the bytes)
            c = F.consts.get(e[1].split('#')[0])
            v = ''.join(ch for ch in str((c or {}).get('v', '')).lower() if ch in '0123456789abcdef')
            if c is not None and ('u64; 4' in c.get('ty', '') or 'Hash' in c.get('ty', '')) and len(v) >= 64 and set(v) == {'f'}:
                return True
            if c is not None and str(c.get('v', '')).replace(' ', '').strip('[]').split(',') == ['18446744073709551615'] * 4:
                return True
        return False

    for ty, fld in ((FS + 'FileDataSequenceHeader', 'file_hash'), (CS + 'CASChunkSequenceHeader', 'cas_hash')):
        a = an(F.body(ty + '::is_bookend'))
        rets = [e for (_, _, k, e) in a.ret_sites()]
        ok = False
        if len(rets) == 1:
            c = as_comparison(rets[0])
            if c is not None and c[0] == 'Eq':
                l, r = c[1], c[2]
                for (x, y) in ((l, r), (r, l)):
                    while x[0] in ('ref', 'cast') or (x[0] == 'call' and sg(x[1]).split('::')[-1] in ('deref', 'as_ref') and len(x[2]) == 1):
                        x = x[1] if x[0] != 'call' else x[2][0]
                    if x[0] == 'field' and x[2] == fld and x[1][0] == 'param' and all_ones(y):
                        ok = True
        if not ok and len(rets) == 1:
            # `self.hash.iter().all(|&w| w == !0)`: every word, not some word
            e = rets[0]
            if e[0] == 'call' and sg(e[1]).split('::')[-1] == 'all' and len(e[2]) == 2 and flow.mentions(e[2][0], lambda z: z[0] == 'field' and z[2] == fld) and e[2][1][0] == 'agg' and e[2][1][1] == 'closure':
                cb = F.bodies.get(e[2][1][2])
                if cb is not None:
                    ac = an(cb)
                    cr = [x for (_, _, _, x) in ac.ret_sites()]
                    cc = as_comparison(cr[0]) if len(cr) == 1 else None
                    one = lambda z: (z[0] == 'un' and z[1] == 'Not' and z[2][:2] == ('const', 0)) or (z[0] == 'const' and z[1] == 0xFFFFFFFFFFFFFFFF)
                    if cc is not None and cc[0] == 'Eq' and (one(cc[1]) or one(cc[2])) and flow.mentions(cc[2] if one(cc[1]) else cc[1], lambda z: z[0] == 'param'):
                        ok = True
        ctx.check(ok, 'R09h', ty + '::is_bookend', 'full equality', '-', 'is_bookend is `self.%s == <all-ones hash>` over the whole hash' % fld,
                  'cannot establish: is_bookend compares the whole %s with the all-ones hash (found %s): a record whose key merely contains an all-ones word, or any other partial test, would end the section early' % (fld, flow.show(rets[0])[:80] if rets else '?'))
        # the constructor writes that same constant
        b = an(F.body(ty + '::bookend'))
        okb = any(all_ones(z) for bb in sorted(b.cfg.reach0) for st in b.blocks[bb]['s'] if st.get('r') for z in flow.subtrees(b.flow.rvalue(st['r'], 0))) or \
            any(all_ones(z) for (_, _, _, e) in b.ret_sites() for z in flow.subtrees(e))
        if not okb:
            # filled word by word: `for w in h.iter_mut() { *w = u64::MAX }`
            from . import loops as L
            for bb in sorted(b.cfg.reach0):
                for st in b.blocks[bb]['s']:
                    d_, r_ = st.get('d'), st.get('r')
                    if d_ and d_.get('p') and d_['p'][0] == '*' and r_ and r_['k'] == 'use' and b.flow.expr(r_['a']) in (('const', 0xFFFFFFFFFFFFFFFF, 'u64'),) and c05.loop_of(b, bb) is not None:
                        lp_ = c05.loop_of(b, bb)
                        if L.every_iteration_passes(b, lp_, bb) and any(sg(b.term(c_).get('fn', '')).split('::')[-1] == 'iter_mut' for c_ in b.calls()):
                            okb = True
        ctx.check(okb, 'R09h', ty + '::bookend', 'constant', '-', 'the bookend constructor writes the all-ones hash')
