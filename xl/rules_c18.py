"""C18 — keyed shards: keyed chunk hashes on export, keyed comparison at query time, expiry guards (DESIGN.md §5 C18)."""
from .core import an, strip_generics as sg, edges_where, bool_edges, success_edges
from . import flow
from . import rules_c05 as c05

EXPLANATION = (
    'Decides: (R18a) in the keyed-shard exporter no chunk hash is serialised or put into the chunk lookup table without passing the HMAC with the export key, except on the '
    'default-key edge; xorb headers and file entries are serialised as read; the footer records the export key; the rebuilt chunk table is sorted before it is written; every '
    'optional table is written exactly under its flag and its count is the written length or 0; expiry = now + validity; (R18b) = C05-R05a/c keyed comparison and keyed probe at '
    'query time; (R18c) a shard is loaded only if load_expired or now <= expiry, load_all_valid passes false; an expired shard file is deleted only when expiry + grace <= now; '
    '(R18d) shards enter ShardFileManager::register_shards only from validity-filtered lists or freshly written files. Not decided: that answers equal the original\'s (value-level), '
    'time arithmetic beyond operand roles.')

EXP = 'mdb_shard::shard_format::MDBShardInfo::export_as_keyed_shard_impl'
ENTRY = 'mdb_shard::cas_structs::CASChunkSequenceEntry::'
LOADC = 'mdb_shard::shard_file_handle::MDBShardFile::load_all::{closure#0}'
CLEANC = 'mdb_shard::shard_file_handle::MDBShardFile::clean_expired_shards::{closure#0}'


def run(ctx):
    ctx.rule('R18a', 'exporter: every chunk hash written or indexed passed the HMAC when a key is set; key recorded; tables under their flags; chunk table sorted; expiry from validity')
    ctx.rule('R18b', 'query time: keyed comparison and keyed probe (C05-R05a, R05c)')
    ctx.rule('R18c', 'load guarded by load_expired or now <= expiry; delete guarded by expiry + grace <= now')
    ctx.rule('R18d', 'register_shards is fed only from validity-filtered lists or freshly written shards')
    ctx.guarded('R18a', EXP, lambda: r18a(ctx))
    ctx.guarded('R18b', c05.DIRECT, lambda: r18b(ctx))
    ctx.guarded('R18c', LOADC, lambda: r18c(ctx))
    ctx.guarded('R18d', 'register_shards', lambda: r18d(ctx))
    ctx.guarded('R18d', 'load_from_file', lambda: fresh_unfiltered_loads(ctx))
    ctx.rule('R18e', 'the keyed-shard exporter advances its file entry index by the records it wrote, 1 + n*(1+V) + E (= C09-R09b): the file lookup table of the exported shard points at the records that were kept')
    ctx.guarded('R18e', EXP, lambda: _r18e(ctx))


def r18a(ctx):
    a = an(ctx.F.body(EXP))
    fn = EXP
    ds = a.calls(ENTRY + 'deserialize')
    ss = a.calls(ENTRY + 'serialize')
    if not ctx.check(len(ds) == 1 and len(ss) == 1, 'R18a', fn, 'chunk read/write', '-', 'one chunk entry read and one chunk entry write in the exporter'):
        return
    d, s = ds[0], ss[0]
    lp = c05.loop_of(a, d)
    # the chunk variable
    carg = a.arg(s, 0)
    ctx.check(carg[0] == 'local' and a.rooted_at(a.flow.rvalue(a.flow.defs[carg[1]][0][3], 0), d) if carg[0] == 'local' and a.flow.defs.get(carg[1]) and a.flow.defs[carg[1]][0][0] == 'assign' else False,
              'R18a', fn, 'chunk var', a.loc(s), 'the entry serialised is the entry read in the same iteration (%s)' % flow.show(carg))
    cl = carg[1] if carg[0] == 'local' else None
    # hmac store: chunk.chunk_hash = hmac(chunk.chunk_hash, hmac_key)
    hm = [h for h in a.calls('merklehash::data_hash::DataHash::hmac')
          if a.arg(h, 0)[0] == 'field' and a.arg(h, 0)[2] == 'chunk_hash' and a.arg(h, 0)[1] == carg and a.arg(h, 1)[0] == 'param' and a.arg(h, 1)[1] == 3]
    dflt0 = edges_where(a, lambda op, l, r: op == 'Eq' and l[0] == 'param' and l[1] == 3 and r[0] == 'call' and 'default' in sg(r[1]).lower())
    stores = []
    for (b, si, pl, rv) in a.flow.partial.get(cl, []):
        if [e.get('n') for e in pl['p'] if isinstance(e, dict)] != ['chunk_hash'] or rv is None or not hm:
            continue
        # the stored value is the keyed hash — or, when the choice was made before the store (`x = if keyed { h.hmac(k) }
        # else { h }`), the unchanged hash on the default-key edge only
        srcs = a.flow.sources(a.flow.rvalue(rv, 0), (b, si))
        keyed_src = [x for x in srcs if a.rooted_at(x[2], hm[0])]
        rest = [x for x in srcs if x not in keyed_src]
        if keyed_src and all(x[2] == ('field', carg, 'chunk_hash') and x[0] is not None and dflt0 and a.cfg.must_pass(x[0], via_edges=dflt0) for x in rest):
            stores.append((b, si))
    if not ctx.check(len(hm) == 1 and len(stores) == 1, 'R18a', fn, 'hmac', a.loc(hm[0]) if hm else '-', 'chunk.chunk_hash is replaced by hmac(chunk.chunk_hash, export key) (one site)',
                     'cannot find the replacement of the chunk hash by its keyed form'):
        return
    hb = stores[0][0]
    dflt = dflt0
    pushes = [p for p in a.calls('alloc::vec::Vec::push') if p in lp[1] and flow.mentions(a.arg(p, 1), lambda z: z[0] == 'call' and sg(z[1]).endswith('truncate_hash') and z[2][0][0] == 'field' and z[2][0][2] == 'chunk_hash' and z[2][0][1] == carg)]
    ctx.check(len(pushes) == 1, 'R18a', fn, 'chunk_lookup.push', '-', 'one chunk lookup push keyed by the chunk variable\'s hash')
    head, blks = lp
    latches = [(x, head) for x in blks if head in a.cfg.succ[x]]
    for nm, site in [('serialize', s)] + [('chunk_lookup.push', p) for p in pushes]:
        r = a.cfg.reach(list(a.cfg.succ[d]), cut_edges=set(a.cfg.out_edges(hb)) | set(dflt) | set(latches))
        ctx.check(bool(dflt) and site not in r, 'R18a', fn, nm + '.keyed', a.loc(site), 'every path from the read to this %s passes the HMAC store, except on the default-key edge' % nm,
                  'a chunk hash reaches %s unkeyed although an export key is set' % nm)
    # nothing else rewrites the hash afterwards / before
    other = [(b, si) for (b, si, pl, rv) in a.flow.partial.get(cl, []) if (b, si) != stores[0]]
    ctx.check(not other, 'R18a', fn, 'other stores', '-', 'the chunk entry is not modified anywhere else')
    # xorb headers and file entries are written as read
    for ty in ('mdb_shard::cas_structs::CASChunkSequenceHeader::', 'mdb_shard::file_structs::FileDataSequenceHeader::', 'mdb_shard::file_structs::FileDataSequenceEntry::'):
        for w in a.calls(ty + 'serialize'):
            v = a.arg(w, 0)
            okv = a.root_call(v) is not None and sg(a.root_call(v)[1]) == ty + 'deserialize' and v[0] == 'call'
            if not okv and v[0] == 'local':
                # a variable re-read at the end of each round (`let mut h = read()?; while !h.is_bookend() { ..; h = read()? }`)
                srcs_ = a.flow.sources(v, (w, None))
                okv = bool(srcs_) and all(se[0] == 'call' and sg(se[1]) == ty + 'deserialize' for (_, _, se) in srcs_) and not a.flow.partial.get(v[1])
            ctx.check(okv, 'R18a', fn, ty.split('::')[-2] + '.asread', a.loc(w), '%s is serialised exactly as deserialised (xorb / file hashes kept)' % ty.split('::')[-2])
    # values given to a footer field: by field stores into the footer, or as a component of one footer literal
    # (`MDBShardFileFooter { f: v, ..Default::default() }`); a value chosen by if/else is expanded into its alternatives
    self_store = {}

    def footer_values(fld):
        out = []
        for (b_, si_, st_) in a.stores_to_field(fld):
            v_ = a.flow.rvalue(st_['r'], 0)
            ex_ = [(sb, ssi, se) for (sb, ssi, se) in a.flow.sources(v_, (b_, si_))]
            if len(ex_) >= 2:
                # a result variable (`let mut n = 0; if flag { ..; n = len }; footer.f = n`): its alternatives
                out += [(sb if sb is not None else b_, ssi if sb is not None else si_, se) for (sb, ssi, se) in ex_]
                self_store.setdefault(fld, []).append(b_)
            else:
                out.append((b_, si_, v_))
        if out:
            return out
        for b_ in sorted(a.cfg.reach0):
            for si_, st_ in enumerate(a.blocks[b_]['s']):
                r_ = st_.get('r')
                if r_ and r_['k'] == 'agg' and (r_.get('adt') or '').endswith('MDBShardFileFooter'):
                    comp = dict(a.flow.rvalue(r_, 0)[3]).get(fld)
                    if comp is not None and not (comp[0] == 'field' and comp[2] == fld):
                        for (sb, ssi, se) in a.flow.sources(comp, (b_, si_)):
                            out.append((sb if sb is not None else b_, ssi if sb is not None else si_, se))
        return out
    # footer key
    ks = footer_values('chunk_hash_hmac_key')
    ctx.check(len(ks) == 1 and ks[0][2][0] == 'param' and ks[0][2][1] == 3, 'R18a', fn, 'footer.key', a.loc(ks[0][0], ks[0][1]) if ks else '-', 'the footer records the export key')
    # tables under flags
    wr64 = a.calls('utils::serialization_utils::write_u64')
    for flag, cnt_field in (('include_file_info', 'file_lookup_num_entry'), ('include_cas_lookup_table', 'cas_lookup_num_entry'), ('include_chunk_lookup_table', 'chunk_lookup_num_entry')):
        pidx = [i for i, l in enumerate(a.body['locals']) if l.get('n') == flag and 1 <= i <= a.body['argc']]
        te, fe = bool_edges(a, lambda e: e == ('param', pidx[0], flag)) if pidx else ([], [])
        sts = footer_values(cnt_field)
        okc = len(sts) == 2
        if okc:
            vals = [(s_[2], s_[0]) for s_ in sts]
            lens = [(v, b) for (v, b) in vals if v[0] == 'call' and sg(v[1]).endswith('Vec::len')]
            zeros = [(v, b) for (v, b) in vals if v == ('const', 0, 'u64')]
            okc = len(lens) == 1 and len(zeros) == 1 and a.cfg.must_pass(lens[0][1], via_edges=te) and a.cfg.must_pass(zeros[0][1], via_edges=fe)
            if not okc and len(lens) == 1 and len(zeros) == 1 and a.cfg.must_pass(lens[0][1], via_edges=te) and self_store.get(cnt_field):
                # zero is the initial value of a result variable, overwritten with the length on every path through the flag
                te2 = [(x, y) for (x, y) in te if a.cfg.dominates(zeros[0][1], x) and lens[0][1] in a.cfg.reach([y])]
                okc = bool(te2) and a.cfg.must_pass(lens[0][1], via_edges=te2) and all(stb not in a.cfg.reach([y for (_, y) in te2], cut_blocks=[lens[0][1]]) for stb in self_store[cnt_field])
            if okc:
                vec = lens[0][0][2][0]
                ws = [w for w in wr64 if a.root_call(a.arg(w, 1)) is not None and a.root_call(vec) is not None and a.root_call(a.arg(w, 1))[3] == a.root_call(vec)[3]]
                okc = len(ws) == 1 and a.cfg.must_pass(ws[0], via_edges=te)
        ctx.check(okc, 'R18a', fn, cnt_field, a.loc(sts[0][0], sts[0][1]) if sts else '-', '%s = rows written under %s, 0 otherwise; the table is written only under the flag' % (cnt_field, flag))
    # chunk table sorted before written
    srt = [c for c in a.calls() if sg(a.term(c).get('fn', '')).split('::')[-1].startswith('sort')]
    vb = a.root_call(a.arg(pushes[0], 0)) if pushes else None
    ss_ = [c for c in srt if vb is not None and a.root_call(a.arg(c, 0)) is not None and a.root_call(a.arg(c, 0))[3] == vb[3]]
    ws = [w for w in wr64 if vb is not None and a.root_call(a.arg(w, 1)) is not None and a.root_call(a.arg(w, 1))[3] == vb[3]]
    ctx.check(bool(ss_) and bool(ws) and all(a.cfg.must_pass(w, via_blocks=ss_) for w in ws), 'R18a', fn, 'chunk table sorted', a.loc(ss_[0]) if ss_ else '-', 'the rebuilt (keyed) chunk table is sorted before it is written',
              'the keyed chunk lookup table can be written unsorted')
    # expiry
    es = footer_values('shard_key_expiry')
    ok = len(es) == 1 and flow.mentions(es[0][2], lambda z: z[0] == 'param' and z[1] == 4) and flow.mentions(es[0][2], lambda z: z[0] == 'call' and sg(z[1]).endswith('SystemTime::now'))
    ctx.check(ok, 'R18a', fn, 'expiry', a.loc(es[0][0], es[0][1]) if es else '-', 'shard_key_expiry derives from now + key_valid_for')
    ex = an(ctx.F.body('mdb_shard::shard_file_handle::MDBShardFile::export_with_expiration'))
    es = ex.stores_to_field('shard_key_expiry')
    ok = len(es) == 1 and flow.mentions(ex.flow.rvalue(es[0][2]['r'], 0), lambda z: z[0] == 'param' and z[2] == 'shard_valid_for') and flow.mentions(ex.flow.rvalue(es[0][2]['r'], 0), lambda z: z[0] == 'call' and sg(z[1]).endswith('SystemTime::now'))
    ctx.check(ok, 'R18a', ex.path, 'expiry', ex.loc(es[0][0], es[0][1]) if es else '-', 'export_with_expiration sets shard_key_expiry from now + shard_valid_for')


def r18b(ctx):
    from .rules_c11 import _Alias
    c05.r05a(_Alias(ctx, 'R05a', 'R18b'))
    c05.r05c(_Alias(ctx, 'R05c', 'R18b'))
    # register_shards files a shard under its footer key
    a = an(ctx.F.body('mdb_shard::shard_file_manager::ShardFileManager::register_shards::{closure#0}'))
    is_cbk = lambda z: flow.mentions(z, lambda y: y[0] == 'field' and y[2] == 'collection_by_key')
    is_key = lambda z: flow.mentions(z, lambda y: y[0] == 'field' and y[2] == 'chunk_hash_hmac_key')
    ent = [e for e in a.calls('std::collections::hash::map::HashMap::entry') if is_cbk(a.arg(e, 0))]
    pushes = [p for p in a.calls('alloc::vec::Vec::push') if a.arg(p, 0)[0] == 'field' and a.arg(p, 0)[2] == 'shard_collections']
    if ent:
        # entry().or_insert(len) form
        ok = len(ent) == 1 and is_key(a.arg(ent[0], 1))
        ctx.check(ok, 'R18b', a.path, 'collection key', a.loc(ent[0]) if ent else '-', 'a registered shard is filed under the collection of its footer\'s chunk_hash_hmac_key')
        # the index recorded for a new key is the collection count read in the same iteration as the push that creates it
        ins = [c for c in a.calls('std::collections::hash::map::Entry::or_insert') if ent and a.rooted_at(a.arg(c, 0), ent[0])]
        okf = len(ins) == 1 and len(pushes) == 1
        if okf:
            v = a.arg(ins[0], 1)
            lc = a.root_call(v)
            lp = c05.loop_of(a, pushes[0])
            okf = (v[0] == 'call' and sg(v[1]).endswith('Vec::len') and flow.mentions(v[2][0], lambda z: z[0] == 'field' and z[2] == 'shard_collections')
                   and lp is not None and lc[3] in lp[1] and not (a.cfg.reach_after([pushes[0]], cut_edges=[(x, lp[0]) for x in lp[1] if lp[0] in a.cfg.succ[x]]) & {lc[3]}))
            # the push happens exactly when the recorded index equals that fresh count
            eq = edges_where(a, lambda op, l, r: op == 'Eq' and ((a.rooted_at(l, ins[0]) and flow.eqv(r, v)) or (a.rooted_at(r, ins[0]) and flow.eqv(l, v))))
            okf = okf and bool(eq) and a.cfg.must_pass(pushes[0], via_edges=eq)
    else:
        # explicit form: `match map.get(&key) { Some(i) => i, None => { let i = collections.len(); map.insert(key, i); collections.push(..); i } }`
        gets = [g for g in a.calls('std::collections::hash::map::HashMap::get') if is_cbk(a.arg(g, 0))]
        inss = [i_ for i_ in a.calls('std::collections::hash::map::HashMap::insert') if is_cbk(a.arg(i_, 0))]
        ok = len(gets) == 1 and is_key(a.arg(gets[0], 1)) and len(inss) == 1 and is_key(a.arg(inss[0], 1))
        ctx.check(ok, 'R18b', a.path, 'collection key', a.loc(gets[0]) if gets else '-', 'a registered shard is filed under the collection of its footer\'s chunk_hash_hmac_key')
        okf = ok and len(pushes) == 1
        if okf:
            none_e = a.none_edges(a.variant_edges(gets[0], 'core::option::Option<')) + a.none_edges(a.dest_variant_edges(gets[0]))
            v = a.arg(inss[0], 2)
            lc = a.root_call(v)
            lp = c05.loop_of(a, pushes[0])
            lat = [(x, lp[0]) for x in lp[1] if lp[0] in a.cfg.succ[x]] if lp else []
            okf = (v[0] == 'call' and sg(v[1]).endswith('Vec::len') and flow.mentions(v[2][0], lambda z: z[0] == 'field' and z[2] == 'shard_collections')
                   and lp is not None and lc[3] in lp[1] and not (a.cfg.reach_after([pushes[0]], cut_edges=lat) & {lc[3]})
                   # insert and push happen exactly on the key-absent edge, and together
                   and bool(none_e) and a.cfg.must_pass(inss[0], via_edges=none_e) and a.cfg.must_pass(pushes[0], via_edges=none_e)
                   and c05.in_iteration_guarded(a, lp, pushes[0], a.cfg.out_edges(inss[0])))
        ins = inss
    ctx.check(okf, 'R18b', a.path, 'fresh index', a.loc(ins[0]) if ins else '-',
              'the collection index recorded for an unseen key is shard_collections.len() read in the same loop iteration, and the collection is pushed exactly when the recorded index equals it',
              'the index recorded for a new key can be a stale collection count (read outside the loop that pushes collections): shards of later new keys are filed under another key\'s collection')
    news = a.calls('mdb_shard::shard_file_manager::KeyedShardCollection::new')
    ctx.check(len(news) == 1 and flow.mentions(a.arg(news[0], 0), lambda z: z[0] == 'field' and z[2] == 'chunk_hash_hmac_key'), 'R18b', a.path, 'new collection', a.loc(news[0]) if news else '-', 'a new collection is created with that same key')


def captures(F, closure_body):
    """{captured variable name: expression it was captured from, in the enclosing function}"""
    pb = F.bodies.get(closure_body.get('qparent', ''))
    if pb is None:
        return {}
    pa = an(pb)
    for b in sorted(pa.cfg.reach0):
        for st in pa.blocks[b]['s']:
            r = st.get('r')
            if r and r['k'] == 'agg' and r.get('ak') == 'closure' and r.get('def') == closure_body['qpath']:
                return dict(pa.flow.rvalue(r, 0)[3])
    return {}


def r18c(ctx):
    F = ctx.F
    a = an(F.body(LOADC))
    caps = captures(F, a.body)
    is_now = lambda z: z[0] == 'upvar' and caps.get(z[1], ('x',))[0] == 'call' and sg(caps[z[1]][1]).endswith('current_timestamp')
    is_flag = lambda z: z[0] == 'upvar' and caps.get(z[1], ('x',))[0] == 'param' and caps[z[1]][1] == 2
    ps = a.calls('alloc::vec::Vec::push')
    if ctx.check(len(ps) >= 1, 'R18c', LOADC, 'push', '-', 'the closure pushes loaded shards'):
        te, fe = bool_edges(a, is_flag)
        le = edges_where(a, lambda op, l, r: op == 'Le' and is_now(l) and r[0] == 'field' and r[2] == 'shard_key_expiry')
        for p_ in ps:
            ctx.check(bool(te) and bool(le) and a.cfg.must_pass(p_, via_edges=te + le), 'R18c', LOADC, 'expiry guard', a.loc(p_), 'a shard is kept only on the load_expired edge or the current_time <= shard_key_expiry edge',
                      'an expired shard can be loaded')
            ctx.check(a.arg(p_, 1)[0] == 'param', 'R18c', LOADC, 'push.elem', a.loc(p_), 'the pushed shard is the scanned one')
    lv = an(F.body('mdb_shard::shard_file_handle::MDBShardFile::load_all_valid'))
    cs = lv.calls('mdb_shard::shard_file_handle::MDBShardFile::load_all')
    ctx.check(len(cs) == 1 and lv.arg(cs[0], 1) == ('const', 0, 'bool'), 'R18c', lv.path, 'load_expired=false', lv.loc(cs[0]) if cs else '-', 'load_all_valid asks for non-expired shards only')
    la = an(F.body('mdb_shard::shard_file_handle::MDBShardFile::load_all'))
    ct = [c for c in la.calls('mdb_shard::shard_format::current_timestamp')]
    ctx.check(len(ct) == 1, 'R18c', la.path, 'now', '-', 'the comparison time is the current timestamp')
    c = an(F.body(CLEANC))
    rm = c.calls('std::fs::remove_file')
    if ctx.check(len(rm) == 1, 'R18c', CLEANC, 'remove_file', '-', 'one deletion site'):
        ccaps = captures(F, c.body)
        c_now = lambda z: z[0] == 'upvar' and ccaps.get(z[1], ('x',))[0] == 'call' and sg(ccaps[z[1]][1]).endswith('current_timestamp')
        c_buf = lambda z: z[0] == 'upvar' and ccaps.get(z[1], ('x',))[0] == 'param' and ccaps[z[1]][1] == 2
        le = edges_where(c, lambda op, l, r: op == 'Le' and l[0] == 'call' and sg(l[1]).endswith('saturating_add') and l[2][0][0] == 'field' and l[2][0][2] == 'shard_key_expiry' and c_buf(l[2][1])
                         and c_now(r))
        ctx.check(bool(le) and c.cfg.must_pass(rm[0], via_edges=le), 'R18c', CLEANC, 'grace guard', c.loc(rm[0]), 'a shard file is deleted only on the shard_key_expiry + grace <= current_time edge',
                  'an expired shard can be deleted before its grace period has passed (or an unexpired one deleted)')
        ctx.check(flow.mentions(c.arg(rm[0], 0), lambda z: z[0] == 'field' and z[2] == 'path'), 'R18c', CLEANC, 'remove.arg', c.loc(rm[0]), 'the deleted file is that shard\'s path')


def r18d(ctx):
    sites = [(b, bi) for (b, bi) in ctx.cg.call_sites('mdb_shard::shard_file_manager::ShardFileManager::register_shards') if '::tests::' not in b['qpath'] and not b['crate'].startswith('bin:')]
    ctx.floor('R18d', 'register_shards call sites', len(sites), 5)
    ALLOWED = ('MDBShardFile::load_all_valid', 'MDBShardFile::write_out_from_reader', 'MDBShardFile::export_with_expiration', 'MDBShardFile::load_from_file')
    for (b, bi) in sites:
        a = an(b)
        v = a.arg(bi, 1)
        src = None
        for z in flow.subtrees(v):
            if z[0] == 'call' and any(sg(z[1]).endswith(x) for x in ALLOWED):
                src = sg(z[1]).split('::')[-1]
        if src is None and b['qpath'].endswith('register_shards_by_path::{closure#0}'):
            # the list is folded from load_all_valid(p) in the closure
            ch = [c for c in ctx.F.children(b)]
            for c in ch:
                ac = an(c)
                if ac.calls('mdb_shard::shard_file_handle::MDBShardFile::load_all_valid'):
                    src = 'load_all_valid (in try_fold closure)'
                other = [x for x in ac.calls() if 'MDBShardFile::' in sg(ac.term(x).get('fn', '')) and sg(ac.term(x)['fn']).split('::')[-1] not in ('load_all_valid',)
                         and sg(ac.term(x)['fn']).split('::')[-1].startswith(('load', 'new', 'scan'))]
                ctx.check(not other, 'R18d', c['qpath'], 'by-path loaders', ac.loc(other[0]) if other else '-', 'shards given by path are loaded through load_all_valid only',
                          'a shard given by path is loaded with %s, which does not apply the expiry filter of load_all_valid: an expired keyed shard is registered and answers dedup queries'
                          % (sg(ac.term(other[0])['fn']).split('::')[-1] if other else ''))
        if src is None:
            # a local list filled by push / extend: every filler must come from an allowed source
            base = v
            while base[0] in ('index', 'slice', 'cast') or (base[0] == 'call' and sg(base[1]).split('::')[-1] in ('deref', 'as_slice', 'as_ref') and len(base[2]) == 1):
                base = base[1] if base[0] != 'call' else base[2][0]
            if base[0] == 'call' and sg(base[1]).split('::')[-1] in ('new', 'with_capacity') and 'Vec' in sg(base[1]):
                fills = [c for c in a.calls() if sg(a.term(c).get('fn', '')).split('::')[-1] in ('push', 'extend', 'append', 'extend_from_slice', 'insert')
                         and a.term(c)['args'] and a.root_call(a.arg(c, 0)) is not None and a.root_call(a.arg(c, 0))[3] == base[3]]
                def allowed_value(e, site):
                    if any(z[0] == 'call' and any(sg(z[1]).endswith(x) for x in ALLOWED if x != 'MDBShardFile::load_from_file') for z in flow.subtrees(e)):
                        return True
                    return any(z2[0] == 'call' and any(sg(z2[1]).endswith(x) for x in ALLOWED if x != 'MDBShardFile::load_from_file')
                               for (_, _, se) in a.flow.sources(e, (site, None)) for z2 in flow.subtrees(se))
                if fills and all(allowed_value(a.arg(c, len(a.term(c)['args']) - 1), c) for c in fills):
                    src = 'a local list filled only from validity-filtered loads'
        ctx.check(src is not None, 'R18d', b['qpath'], 'source', a.loc(bi), 'shards registered here come from %s' % src, 'shards are registered from an unfiltered source: %s' % flow.show(v)[:80])
    # load_from_file (used by flush) loads a file just written by this process: fresh, no expiry


def fresh_unfiltered_loads(ctx):
    """MDBShardFile::load_from_file applies no expiry filter: in library code it may only load a file the same function
    has just written (a path returned by write_to_directory, or the destination of a rename it performed)."""
    LOADF = 'mdb_shard::shard_file_handle::MDBShardFile::load_from_file'
    sites = [(b, bi) for (b, bi) in ctx.cg.call_sites(LOADF) if '::tests::' not in b['qpath'] and not b['crate'].startswith('bin:')]
    ctx.floor('R18d', 'load_from_file call sites in library code', len(sites), 1)
    for (b, bi) in sites:
        a = an(b)
        v = a.arg(bi, 0)
        fresh = flow.mentions(v, lambda z: z[0] == 'call' and sg(z[1]).endswith('MDBInMemoryShard::write_to_directory'))
        if not fresh:
            for r in a.calls('std::fs::rename'):
                d = a.arg(r, 1)
                if a.cfg.dominates(r, bi) and flow.access_path(d) is not None and flow.mentions(v, lambda z: flow.access_path(z) == flow.access_path(d) and z[0] == d[0]):
                    fresh = True
        ctx.check(fresh, 'R18d', b['qpath'], 'load_from_file.path', a.loc(bi), 'the unfiltered loader is applied to a shard file this function has just written',
                  'MDBShardFile::load_from_file (no expiry filter) is applied to a pre-existing path (%s): an expired keyed shard can be loaded' % flow.show(v)[:60])


def _r18e(ctx):
    from . import rules_c09 as c09
    from .rules_c11 import _Alias
    c09.r09b(_Alias(ctx, 'R09b', 'R18e'))
