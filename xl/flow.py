"""Def-use "origin" chasing on extracted MIR (DESIGN.md §4, Origins).

`Flow(body).expr(operand)` substitutes single-definition temporaries recursively and returns an expression tree:

  ('param', i, name)                 function parameter i (1-based MIR local), user name
  ('upvar', name)                    captured variable of a closure / coroutine (field of _1)
  ('local', l, name)                 multiply-defined (or undefined) local: a join point; `name` is the user name
  ('field', base, name)              field projection (deref and reference are transparent)
  ('index', base, idx) / ('slice', base)
  ('variant', base, name)            downcast
  ('const', value|None, type) / ('str', s) / ('item', path) / ('fn', path)
  ('call', callee, [args], block)    result of a call (callee = resolved path)
  ('bin', op, a, b) / ('un', op, a) / ('cast', a, ty) / ('discr', a) / ('len', a)
  ('agg', kind, name, [(field, expr)])
  ('top',)                           unknown

Transparent wrappers (Deref, Clone, Into between integers, unwrap/expect, `?` Continue payload, await Ready payload,
iterator adaptors that do not change identity) are looked through, see TRANSPARENT.
"""

MAXDEPTH = 40

# callee suffixes whose result "is" their first argument for provenance purposes
TRANSPARENT = (
    'core::ops::deref::Deref::deref', 'core::ops::deref::DerefMut::deref_mut', 'core::clone::Clone::clone',
    'core::convert::AsRef::as_ref', 'core::convert::AsMut::as_mut', 'core::borrow::Borrow::borrow',
    'core::borrow::BorrowMut::borrow_mut', 'core::convert::Into::into', 'core::convert::From::from',
    'core::option::Option::unwrap', 'core::option::Option::expect', 'core::result::Result::unwrap',
    'core::result::Result::expect', 'core::ops::try_trait::Try::branch', 'core::future::into_future::IntoFuture::into_future',
    'core::pin::Pin::new_unchecked', 'core::pin::Pin::new', 'core::option::Option::as_ref', 'core::option::Option::as_mut',
    'core::iter::traits::collect::IntoIterator::into_iter', 'alloc::vec::Vec::as_slice', 'alloc::vec::Vec::as_mut_slice',
    'alloc::boxed::Box::new', 'alloc::sync::Arc::new', 'alloc::boxed::Box::pin', 'core::convert::TryInto::try_into',
    'core::convert::TryFrom::try_from', 'alloc::borrow::ToOwned::to_owned', 'alloc::slice::to_vec',
    'core::option::Option::cloned', 'core::option::Option::copied', 'core::result::Result::as_ref',
    'core::slice::iter',
    'core::iter::traits::iterator::Iterator::enumerate', 'core::iter::traits::iterator::Iterator::next',
    'core::slice::as_ptr', 'core::clone::impls::clone', 'core::hint::must_use',
    'core::iter::range::next',
    'core::slice::iter::into_iter', 'core::future::future::Future::poll',
    # error_printer: log-and-return-self adaptors
    'error_printer::ErrorPrinter::debug_error', 'error_printer::ErrorPrinter::info_error', 'error_printer::ErrorPrinter::warn_error',
    'error_printer::ErrorPrinter::log_error', 'cas_object::error::Validate::ok_for_format_error',
)


TRANSPARENT_SET = frozenset(TRANSPARENT)
INDEXING = frozenset(['core::ops::index::Index::index', 'core::ops::index::IndexMut::index_mut', 'core::slice::index::index',
                      'core::array::index', 'core::array::index_mut', 'core::slice::get', 'core::slice::get_mut',
                      'core::slice::index::index_mut'])
PAYLOAD_VARIANTS = ('Ready', 'Some', 'Ok', 'Continue')


def strip_generics(p):
    """drop `::<…>` segments (balanced) from a path."""
    if '::<' not in p:
        return p
    out = []
    i = 0
    n = len(p)
    while i < n:
        if p.startswith('::<', i):
            depth = 0
            j = i + 2
            while j < n:
                if p[j] == '<':
                    depth += 1
                elif p[j] == '>':
                    depth -= 1
                    if depth == 0:
                        break
                j += 1
            i = j + 1
            continue
        out.append(p[i])
        i += 1
    return ''.join(out)


class Flow:
    def __init__(self, body):
        self.body = body
        self.blocks = body['blocks']
        self.locals = body['locals']
        self.argc = body['argc']
        self.defs = {}        # local -> list of ('assign', b, i, rvalue) | ('call', b, term) | ('yield', b)
        self.partial = {}     # local -> list of (b, i, place, rvalue)  (field stores into the local itself)
        self.through = {}     # local -> stores through the reference held by the local (`(*l).. = ..`)
        self.mutref = {}      # local -> list of (b,i) where `&mut local...` is taken
        for bi, blk in enumerate(self.blocks):
            if blk.get('cl'):
                continue
            for si, s in enumerate(blk['s']):
                d = s.get('d')
                if d is None:
                    continue
                if 'p' not in d:
                    self.defs.setdefault(d['l'], []).append(('assign', bi, si, s['r']))
                elif d['p'][0] != '*':
                    self.partial.setdefault(d['l'], []).append((bi, si, d, s['r']))
                else:
                    self.through.setdefault(d['l'], []).append((bi, si, d, s['r']))
                r = s['r']
                if r['k'] == 'ref' and r['m'] and not ('p' in r['p'] and r['p']['p'] and r['p']['p'][0] == '*'):
                    # (`&mut (*l).f` re-borrows what l points to; it does not make l itself mutable through a reference)
                    self.mutref.setdefault(r['p']['l'], []).append((bi, si))
            t = blk['t']
            if t['k'] == 'call':
                d = t['d']
                if 'p' not in d:
                    self.defs.setdefault(d['l'], []).append(('call', bi, t))
                else:
                    self.partial.setdefault(d['l'], []).append((bi, TERMI, d, None))
            elif t['k'] == 'yield':
                ra = t['ra']
                if 'p' not in ra:
                    self.defs.setdefault(ra['l'], []).append(('yield', bi))
        self.upvars = {}
        for v in body.get('vdi', []):
            p = v['p']
            if p['l'] == 1:
                fs = [e for e in p['p'] if isinstance(e, dict) and 'f' in e]
                if fs:
                    self.upvars[fs[0]['f']] = v['n']
        self._memo = {}

    def lname(self, l):
        return self.locals[l].get('n')

    def lty(self, l):
        return self.locals[l]['ty']

    # ------------------------------------------------------------------------------------------
    def expr(self, o, depth=0):
        """expression tree of an operand / place dict."""
        if 'cp' in o:
            return self.place(o['cp'], depth)
        if 'mv' in o:
            return self.place(o['mv'], depth)
        if 'l' in o:
            return self.place(o, depth)
        if 'rtc' in o:
            return ('const', None, 'rtc:' + o['rtc'])
        if 'fn' in o:
            return ('fn', o['fn'])
        if 's' in o:
            return ('str', o['s'])
        if 'v' in o:
            return ('const', int(o['v']), o['ty'])
        if 'hex' in o:
            return ('bytes', o['hex'])
        if 'item' in o:
            return ('item', o['item'] + ('#p%d' % o['promoted'] if 'promoted' in o else ''))
        return ('const', None, o.get('ty', '?'))

    def place(self, p, depth=0):
        e = self.local(p['l'], depth)
        for el in p.get('p', []):
            e = self.project(e, el, depth)
        return e

    def project(self, e, el, depth=0):
        if el == '*' or isinstance(el, str):
            return e
        if 'f' in el:
            name = el.get('n', str(el['f']))
            # payload of Ready / Some / Ok / Continue: the value "is" the wrapped computation
            if e[0] == 'variant' and e[2] in PAYLOAD_VARIANTS and el['f'] == 0:
                return e[1]
            # checked arithmetic (overflow-checks=on): `(a +? b).0` is the sum; the overflow flag `.1` feeds an Assert
            if e[0] == 'bin' and e[1] in ('AddO', 'SubO', 'MulO') and el['f'] == 0:
                return ('bin', e[1][:-1], e[2], e[3])
            # projecting a field out of a known aggregate: take the component
            if e[0] == 'agg':
                for fn, fe in e[3]:
                    if fn == name or fn == str(el['f']):
                        return fe
            if e[0] == 'param' and e[1] == 1 and self.body['kind'] != 'Fn' and self.body.get('kind') in ('Closure', 'SyntheticCoroutineBody'):
                return ('upvar', name)
            return ('field', e, name)
        if 'ix' in el:
            return ('index', e, self.local(el['ix'], depth + 1))
        if 'cix' in el:
            return ('index', e, ('const', el['cix'], 'usize'))
        if 'sub' in el:
            return ('slice', e)
        if 'dc' in el:
            if e[0] == 'agg' and e[1] == 'adt' and e[2].endswith('::' + el['dc']):
                return e
            if e[0] == 'local' and e[1] not in self.partial and depth < MAXDEPTH:
                # a join point all of whose assignments build enum variants: reading it *as variant V* can only see an
                # assignment of V (`?` reads an Ok as Continue, an Err as Break); if there is exactly one, it is that one
                ds = self.defs.get(e[1], [])
                def var_of(d):
                    if d[0] == 'assign' and d[3]['k'] == 'agg' and d[3].get('ak') == 'adt' and 'var' in d[3]:
                        return d[3]['var']
                    if d[0] == 'call' and strip_generics(d[2].get('fn', '')).endswith('FromResidual::from_residual'):
                        return '<residual>'     # the failing arm of a `?`: an Err / None, never the success variant
                    return None
                vs = [var_of(d) for d in ds]
                if len(ds) >= 2 and all(v is not None for v in vs):
                    want = {el['dc'], {'Continue': 'Ok', 'Break': 'Err'}.get(el['dc'], el['dc'])}
                    hit = [d for d, v in zip(ds, vs) if v in want]
                    if len(hit) == 1 and hit[0][0] == 'assign' and (el['dc'] in ('Ok', 'Some', 'Continue') or '<residual>' not in vs):
                        return self.rvalue(hit[0][3], depth + 1)
                if len(ds) >= 2 and el['dc'] not in PAYLOAD_VARIANTS and el['dc'] not in ('Err', 'None', 'Break', 'Pending'):
                    # the join holds a wrapper (Ok(..) / Some(..)) whose payload is read as variant V of an inner enum
                    # (`match helper()? { Verdict::Track(x) => .. }` after inlining): look through the transparent wrappers
                    cands = []
                    complete = [True]

                    def expand(v, lvl):
                        while v[0] == 'agg' and v[1] == 'adt' and v[2].split('::')[-1] in PAYLOAD_VARIANTS and len(v[3]) == 1:
                            v = v[3][0][1]
                        if v[0] == 'agg' and v[1] == 'adt':
                            if v[2].endswith('::' + el['dc']):
                                cands.append(v)
                            return
                        if v[0] == 'local' and lvl < 4 and v[1] not in self.partial:
                            ds2 = self.defs.get(v[1], [])
                            if ds2 and all(d2[0] == 'assign' for d2 in ds2):
                                for d2 in ds2:
                                    expand(self.rvalue(d2[3], depth + 1), lvl + 1)
                                return
                        if v[0] == 'call' and strip_generics(v[1]).endswith('FromResidual::from_residual'):
                            return
                        complete[0] = False     # a value of unknown variant

                    for d in ds:
                        if d[0] == 'assign':
                            expand(self.rvalue(d[3], depth + 1), 0)
                        elif not (d[0] == 'call' and strip_generics(d[2].get('fn', '')).endswith('FromResidual::from_residual')):
                            complete[0] = False
                    if len(cands) == 1 and complete[0]:
                        return cands[0]
                if len(ds) >= 2 and all(v is not None for v in vs):
                    pass
                elif len(ds) >= 2 and el['dc'] in ('Ok', 'Some', 'Continue'):
                    # every assignment but one is the failing arm of a `?` (an Err / None): read as the success variant, the
                    # value can only be that one assignment's (a call result returned as the helper's tail expression)
                    rest = [d for d, v in zip(ds, vs) if v != '<residual>']
                    if len(rest) == 1 and len(ds) - 1 == sum(1 for v in vs if v == '<residual>'):
                        d = rest[0]
                        inner = self.call(d[2], d[1], depth + 1) if d[0] == 'call' else (self.rvalue(d[3], depth + 1) if d[0] == 'assign' else None)
                        if inner is not None and inner[0] != 'local':
                            return self.project(inner, el, depth + 1)
            return ('variant', e, el['dc'])
        return ('top',)

    def local(self, l, depth=0):
        if l in self._memo:
            return self._memo[l]
        if depth > MAXDEPTH:
            return ('local', l, self.lname(l))
        ds = self.defs.get(l, [])
        is_param = 1 <= l <= self.argc
        if is_param and not ds:
            r = ('param', l, self.lname(l))
            self._memo[l] = r
            return r
        # user variables that are mutated through &mut or partial stores are join points
        if len(ds) != 1 or is_param or l in self.partial:
            r = ('local', l, self.lname(l))
            self._memo[l] = r
            return r
        self._memo[l] = ('local', l, self.lname(l))  # cycle guard
        d = ds[0]
        if d[0] == 'assign':
            r = self.rvalue(d[3], depth + 1)
            if l in self.mutref and self.lname(l) not in (None, '__awaitee') and r[0] not in ('call',):
                # named variable later mutated through a reference: keep it as a join point
                r = ('local', l, self.lname(l))
        elif d[0] == 'call':
            r = self.call(d[2], d[1], depth + 1)
        else:
            r = ('top',)
        self._memo[l] = r
        return r

    def sources(self, e, site=None, _seen=None, stop=None):
        """[(block, stmt idx, expr)]: the assignments a value may come from.  A join-point local is expanded into the
        rvalues of its plain assignments (recursively); anything else is its own single source at `site`."""
        _seen = _seen if _seen is not None else set()
        if stop is not None and stop(e):
            return [(site[0] if site else None, site[1] if site else None, e)]
        if e[0] == 'field' and e[1][0] == 'local' and e[1][1] not in _seen:
            # a component of a join-point aggregate: the matching component of every aggregate assigned to it
            out = []
            for (b_, si_, se) in self.sources(e[1], site, set(_seen), stop):
                if se[0] == 'agg' and e[2] in dict(se[3]):
                    out += self.sources(dict(se[3])[e[2]], (b_, si_) if b_ is not None else site, set(_seen), stop)
                else:
                    return [(site[0] if site else None, site[1] if site else None, e)]
            if out:
                return out
        if e[0] == 'local' and e[1] not in _seen:
            ds = self.defs.get(e[1], [])
            if ds and all(d[0] in ('assign', 'call') for d in ds) and e[1] not in self.partial:
                _seen.add(e[1])
                out = []
                for d in ds:
                    if d[0] == 'assign':
                        out += self.sources(self.rvalue(d[3], 0), (d[1], d[2]), _seen, stop)
                    else:
                        out += self.sources(self.call(d[2], d[1], 0), (d[1], None), _seen, stop)
                return out
        return [(site[0] if site else None, site[1] if site else None, e)]

    def call(self, t, b, depth):
        cal = t.get('res') or t.get('fn')
        if cal is None:
            return ('call', '<indirect>', [self.expr(a, depth) for a in t['args']], b)
        fn = strip_generics(t.get('fn', cal))
        if 'szty' in t:
            return ('sizeof', t['szty'], t.get('sz'))
        if fn in INDEXING and len(t['args']) == 2:
            return ('index', self.expr(t['args'][0], depth), self.expr(t['args'][1], depth))
        if (fn in TRANSPARENT_SET or strip_generics(cal) in TRANSPARENT_SET) and t['args']:
            # (polling an awaited future "is" the future: the Ready payload is taken by a Downcast)
            return self.expr(t['args'][0], depth)
        return ('call', cal, [self.expr(a, depth) for a in t['args']], b)

    def rvalue(self, r, depth):
        k = r['k']
        if k == 'use':
            return self.expr(r['a'], depth)
        if k in ('ref', 'rawptr'):
            return self.place(r['p'], depth)
        if k == 'cast':
            return self.expr(r['a'], depth)
        if k == 'bin':
            return ('bin', r['op'], self.expr(r['a'], depth), self.expr(r['b'], depth))
        if k == 'un':
            if r['op'] == 'PtrMetadata':
                return ('len', self.expr(r['a'], depth))
            return ('un', r['op'], self.expr(r['a'], depth))
        if k == 'discr':
            p = r['p']
            ty = r.get('pty') or (self.lty(p['l']) if 'p' not in p else '?')
            return ('discr', self.place(p, depth), ty)
        if k == 'agg':
            ak = r['ak']
            names = r.get('fn', [])
            comps = []
            for i, o in enumerate(r['ops']):
                comps.append((names[i] if i < len(names) else str(i), self.expr(o, depth)))
            if ak == 'adt':
                nm = r['adt'] + '::' + r['var']
                # Option::Some(x) / Ok(x) wrappers stay visible as agg
                return ('agg', 'adt', nm, comps)
            return ('agg', ak, r.get('def', ''), comps)
        if k == 'repeat':
            return ('agg', 'repeat', '', [('0', self.expr(r['a'], depth))])
        return ('top',)


TERMI = 10 ** 6


# ---- tree utilities ----------------------------------------------------------------------------
def leaves(e, out=None):
    """set of leaf origins of an expression tree (params, upvars, locals, consts, calls as ('call', callee))."""
    if out is None:
        out = set()
    k = e[0]
    if k in ('param', 'upvar', 'local', 'const', 'str', 'item', 'fn', 'top', 'sizeof', 'bytes'):
        out.add(e if k != 'const' else ('const', e[1]))
    elif k == 'field':
        # a field path is itself a leaf when its root is a leaf place
        ap = access_path(e)
        if ap:
            out.add(('path', ap))
        else:
            leaves(e[1], out)
    elif k in ('index',):
        leaves(e[1], out)
        leaves(e[2], out)
    elif k in ('slice', 'variant', 'un', 'cast', 'discr', 'len'):
        leaves(e[-1] if k in ('un',) else e[1], out)
    elif k == 'bin':
        leaves(e[2], out)
        leaves(e[3], out)
    elif k == 'call':
        out.add(('call', e[1]))
        for a in e[2]:
            leaves(a, out)
    elif k == 'agg':
        for _, c in e[3]:
            leaves(c, out)
    return out


def access_path(e):
    """'self.chunk_hashes' style path when e is a chain of fields/variants/indices over a param/upvar/local."""
    k = e[0]
    if k == 'param':
        return e[2] or ('arg%d' % e[1])
    if k == 'upvar':
        return e[1]
    if k == 'local':
        return e[2] or ('_%d' % e[1])
    if k == 'field':
        b = access_path(e[1])
        return None if b is None else b + '.' + e[2]
    if k == 'variant':
        return access_path(e[1])
    if k in ('index', 'slice'):
        b = access_path(e[1])
        return None if b is None else b + '[]'
    if k == 'call':
        return 'ret(%s)' % short_callee(e[1])
    return None


def short_callee(c):
    import re
    c = re.sub(r'::<[^<>]*(<[^<>]*>)?[^<>]*>', '', c)
    parts = c.split('::')
    return '::'.join(parts[-2:])


def mentions(e, pred):
    """True if any subtree satisfies pred."""
    if pred(e):
        return True
    k = e[0]
    if k in ('field', 'slice', 'variant', 'discr', 'len'):
        return mentions(e[1], pred)
    if k == 'index':
        return mentions(e[1], pred) or mentions(e[2], pred)
    if k == 'cast':
        return mentions(e[1], pred)
    if k == 'un':
        return mentions(e[2], pred)
    if k == 'bin':
        return mentions(e[2], pred) or mentions(e[3], pred)
    if k == 'call':
        return any(mentions(a, pred) for a in e[2])
    if k == 'agg':
        return any(mentions(c, pred) for _, c in e[3])
    return False


def subtrees(e):
    yield e
    k = e[0]
    if k in ('field', 'slice', 'variant', 'discr', 'len', 'cast'):
        yield from subtrees(e[1])
    elif k == 'index':
        yield from subtrees(e[1])
        yield from subtrees(e[2])
    elif k == 'un':
        yield from subtrees(e[2])
    elif k == 'bin':
        yield from subtrees(e[2])
        yield from subtrees(e[3])
    elif k == 'call':
        for a in e[2]:
            yield from subtrees(a)
    elif k == 'agg':
        for _, c in e[3]:
            yield from subtrees(c)


def show(e, depth=0):
    k = e[0]
    if depth > 8:
        return '…'
    if k == 'param':
        return e[2] or 'arg%d' % e[1]
    if k == 'upvar':
        return e[1]
    if k == 'local':
        return e[2] or '_%d' % e[1]
    if k == 'field':
        return '%s.%s' % (show(e[1], depth + 1), e[2])
    if k == 'index':
        return '%s[%s]' % (show(e[1], depth + 1), show(e[2], depth + 1))
    if k == 'slice':
        return '%s[..]' % show(e[1], depth + 1)
    if k == 'variant':
        return '(%s as %s)' % (show(e[1], depth + 1), e[2])
    if k == 'const':
        return str(e[1]) if e[1] is not None else 'const<%s>' % e[2]
    if k == 'str':
        return repr(e[1])
    if k == 'sizeof':
        return 'size_of<%s>' % e[1].split('::')[-1]
    if k == 'bytes':
        return 'bytes:%s…' % e[1][:16]
    if k == 'item':
        return e[1]
    if k == 'fn':
        return 'fn ' + e[1]
    if k == 'call':
        return '%s(%s)' % (short_callee(e[1]), ', '.join(show(a, depth + 1) for a in e[2]))
    if k == 'bin':
        return '(%s %s %s)' % (show(e[2], depth + 1), e[1], show(e[3], depth + 1))
    if k == 'un':
        return '%s(%s)' % (e[1], show(e[2], depth + 1))
    if k == 'cast':
        return show(e[1], depth + 1)
    if k == 'discr':
        return 'discr(%s)' % show(e[1], depth + 1)
    if k == 'len':
        return 'len(%s)' % show(e[1], depth + 1)
    if k == 'agg':
        return '%s{%s}' % (e[2].split('::')[-1] if e[2] else e[1], ', '.join('%s: %s' % (n, show(c, depth + 1)) for n, c in e[3]))
    return '⊤'


def eqv(x, y):
    """structural equality that ignores at which call site (block) a pure call result was produced"""
    if x[0] != y[0]:
        return False
    k = x[0]
    if k == 'call':
        return strip_generics(x[1]) == strip_generics(y[1]) and len(x[2]) == len(y[2]) and all(eqv(p, q) for p, q in zip(x[2], y[2]))
    if k in ('field', 'variant'):
        return x[2] == y[2] and eqv(x[1], y[1])
    if k == 'index':
        return eqv(x[1], y[1]) and eqv(x[2], y[2])
    if k in ('slice', 'len', 'cast'):
        return eqv(x[1], y[1])
    if k == 'discr':
        return eqv(x[1], y[1])
    if k == 'un':
        return x[1] == y[1] and eqv(x[2], y[2])
    if k == 'bin':
        return x[1] == y[1] and eqv(x[2], y[2]) and eqv(x[3], y[3])
    if k == 'agg':
        return x[1] == y[1] and x[2] == y[2] and len(x[3]) == len(y[3]) and all(n1 == n2 and eqv(c1, c2) for (n1, c1), (n2, c2) in zip(x[3], y[3]))
    return x == y


def const_eval(e):
    """integer value of a constant expression (literals, size_of, + - * / << >> & |), or None"""
    k = e[0]
    if k == 'const':
        return e[1] if isinstance(e[1], int) else None
    if k == 'sizeof':
        return e[2]
    if k == 'cast':
        return const_eval(e[1])
    if k == 'bin':
        a, b = const_eval(e[2]), const_eval(e[3])
        if a is None or b is None:
            return None
        op = e[1].rstrip('O') if e[1] in ('AddO', 'SubO', 'MulO') else e[1]
        try:
            return {'Add': a + b, 'Sub': a - b, 'Mul': a * b, 'Div': a // b if b else None, 'Shl': a << b, 'Shr': a >> b,
                    'BitAnd': a & b, 'BitOr': a | b, 'Rem': a % b if b else None}.get(op)
        except Exception:
            return None
    if k == 'field' and e[2] == '0' and e[1][0] == 'bin':
        return const_eval(e[1])
    return None
