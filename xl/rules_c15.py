"""C15 — no xorb or chunk exceeds the limits; no unresolved xorb reference in a file record (structural clauses)."""
from .core import an, strip_generics as sg, edges_where, bool_edges, propagation
from . import flow, paths
from . import rules_c05 as c05
from . import rules_c16 as c16
from . import rules_c04 as c04
from .rules_c11 import _Alias

EXPLANATION = (
    'Decides: (R15a) in FileDeduper::process_chunks the push of a chunk into the pending xorb and the matching size add are reached, within an iteration, only through the not-exceeding '
    'edge of `size + this chunk\'s length (vs) MAX_XORB_BYTES` and of `count + 1 (vs) MAX_XORB_CHUNKS`, or through cut_new_xorb, which resets both; the checked delta is the delta applied; '
    '(R15b) the session aggregator merges a file\'s remainder only on the not-exceeding edges of both summed limits, otherwise one aggregate is cut; (R15c) an empty xorb never reaches the '
    'store; (R15d) file records reach the shard only from DataAggregator::finalize (which patches the xorb hash into every pending segment) and DataAggregator::new is crate-private; '
    '(R15e) the chunk-size constants fit the 3-byte header fields and CASChunkHeader::validate bounds both lengths. Not decided: chunk <= maximum chunk size (C04 arithmetic).')

PC = 'deduplication::file_deduplication::FileDeduper::<DataInterfaceType>::process_chunks::{closure#0}'
CUT = 'deduplication::file_deduplication::FileDeduper::<DataInterfaceType>::cut_new_xorb'
RSC = 'data::file_upload_session::FileUploadSession::register_single_file_clean_completion::{closure#0}'
AGG = 'deduplication::data_aggregator::DataAggregator::'


def run(ctx):
    ctx.rule('R15a', 'process_chunks: check-then-act on both xorb limits with the applied delta; cut_new_xorb resets size and list')
    ctx.rule('R15b', 'session aggregator: merge only under both limits; otherwise cut one aggregate')
    ctx.rule('R15c', 'the put task is spawned only for a non-empty xorb')
    ctx.rule('R15d', 'file records reach the session shard only through DataAggregator::finalize, which patches every pending segment with the xorb hash')
    ctx.rule('R15e', 'chunk size constants fit the wire format; chunk header validation bounds both lengths')
    ctx.guarded('R15a', PC, lambda: r15a(ctx))
    ctx.guarded('R15b', RSC, lambda: r15b(ctx))
    ctx.guarded('R15c', c16.REGC, lambda: r15c(ctx))
    ctx.guarded('R15d', AGG + 'finalize', lambda: r15d(ctx))
    ctx.guarded('R15e', 'constants', lambda: r15e(ctx))
    ctx.rule('R15f', 'no chunk longer than the maximum: the forced cut compares cur_chunk_len + advance with maximum_chunk and the search window ends at maximum_chunk - cur_chunk_len (= C04-R04c), and cur_chunk_len equals the number of bytes buffered at every chunk creation and return (= C04-R04d)')
    ctx.guarded('R15f', c04.NEXT, lambda: c04.r04c(_Alias(ctx, 'R04c', 'R15f')))
    ctx.guarded('R15f', c04.NEXT, lambda: c04.length_tracking(ctx, 'R15f'))


def is_limit(e, name):
    return (e[0] == 'const' and isinstance(e[2], str) and e[2].endswith('constants::' + name)) or (e[0] == 'item' and e[1].endswith(name)) or \
        flow.mentions(e, lambda z: (z[0] == 'const' and isinstance(z[2], str) and z[2].endswith('constants::' + name)))


def within(op):
    return op in ('Le', 'Lt')


def r15a(ctx):
    a = an(ctx.F.body(PC))
    fn = PC
    pushes = [p for p in a.calls('alloc::vec::Vec::push') if flow.show(a.arg(p, 0)) == 'self.new_data']
    if not ctx.check(len(pushes) == 1 and c05.loop_of(a, pushes[0]) is not None, 'R15a', fn, 'new_data.push', '-', 'one push into the pending xorb, inside the accounting loop'):
        return
    P = pushes[0]
    lp = c05.loop_of(a, P)
    pushed = a.arg(P, 1)
    eff = paths.collect_effects(a, lp[1], lambda k: 'size' if k == ('self', 'new_data_size') else None)
    adds = [(b, e, ln) for b, es in eff.items() for (c, s, t, e, ln) in es if s == 1]
    if not ctx.check(len(adds) == 1, 'R15a', fn, 'new_data_size +=', '-', 'one size add in the loop'):
        return
    ub, delta, uln = adds[0]
    ok = delta[0] in ('len', 'call') and flow.mentions(delta, lambda z: z == ('field', pushed, 'data'))
    ctx.check(ok, 'R15a', fn, 'delta=pushed', '%s:%d' % (a.body['file'], uln), 'the size added is the byte length of the chunk that is pushed (%s)' % flow.show(delta))
    # ... on exactly the paths that push it: the pending xorb's byte count is the sum over the chunks it holds
    before = ub == P or c05.in_iteration_guarded(a, lp, P, a.cfg.out_edges(ub))
    after = False
    if not before:
        from . import loops as L
        r_ = a.cfg.reach(list(a.cfg.succ[P]), cut_blocks=[ub])
        exits_ = {y for (x, y) in L._exits(a, lp[1])}
        after = lp[0] not in r_ and not (r_ & exits_)
    ctx.check(before or after, 'R15a', fn, 'size counts every push', '%s:%d' % (a.body['file'], uln), 'every path that pushes a chunk into the pending xorb adds its length to new_data_size',
              'a chunk can be pushed into the pending xorb without its bytes being added to new_data_size (the size add is conditional): the "cut a new xorb first?" test then lets the xorb grow past MAX_XORB_BYTES')
    cuts = a.calls(CUT)
    # a cut may also happen inside an awaited helper of the deduper all of whose successful returns pass cut_new_xorb
    helper_cuts = []
    from .core import strip_generics
    for cb in a.calls():
        t_ = a.term(cb)
        q = ctx.cg.norm.get(strip_generics(t_.get('res') or t_.get('fn') or ''))
        hb = ctx.F.bodies.get((q or '') + '::{closure#0}') or (ctx.F.bodies.get(q) if q else None)
        if hb is None or hb['crate'] != 'deduplication' or q == CUT or hb['qpath'] == PC:
            continue
        if hb.get('coroutine') and a.awaited(cb) is None:
            continue
        ah = an(hb)
        hc = ah.calls(CUT)
        oks = [b_ for (b_, si_, k_, e_) in ah.ret_sites() if k_ != 'err']
        if hc and oks and all(ah.cfg.must_pass(b_, via_blocks=hc) for b_ in oks):
            helper_cuts.append((cb, ah, hc))
    cut_out = [e for c in cuts for e in a.cfg.out_edges(c)] + [e for (cb, _, _) in helper_cuts for e in a.cfg.out_edges(cb)]
    okb = edges_where(a, lambda op, l, r: within(op) and l[0] == 'bin' and l[1] in ('Add', 'AddO') and flow.show(l[2]) == 'self.new_data_size' and flow.eqv(l[3], delta) and is_limit(r, 'MAX_XORB_BYTES'))
    okc = edges_where(a, lambda op, l, r: within(op) and l[0] == 'bin' and l[1] in ('Add', 'AddO') and l[2][0] == 'call' and sg(l[2][1]).endswith('Vec::len') and flow.show(l[2][2][0]) == 'self.new_data'
                      and l[3] == ('const', 1, 'usize') and is_limit(r, 'MAX_XORB_CHUNKS'))
    for nm, edges in (('bytes', okb), ('chunks', okc)):
        for site_nm, site in (('push', P), ('size add', ub)):
            g = c05.in_iteration_guarded(a, lp, site, list(edges) + cut_out)
            ctx.check(bool(edges) and g, 'R15a', fn, '%s limit before %s' % (nm, site_nm), a.loc(site),
                      'the %s is reached only through the not-exceeding edge of the %s check (with this chunk\'s delta) or through cut_new_xorb' % (site_nm, nm),
                      'a chunk can be added to the pending xorb without the %s limit having been checked with the delta that is applied: a xorb can exceed the limit' % nm)
    # (that an exceeding edge cannot bypass the cut is implied by the two guard obligations above: a path that takes the
    # exceeding edge of a check never crosses that check's not-exceeding edge, so it must cross a cut)
    # the cut xorb is registered (uploaded); covered by C16-R16c for error propagation
    for (aa, cs) in [(a, cuts)] + [(ah, hc) for (_, ah, hc) in helper_cuts]:
        for c in cs:
            rn = [r_ for r_ in aa.calls('deduplication::interface::DeduplicationDataInterface::register_new_xorb') if aa.rooted_at(aa.arg(r_, 1), c)]
            ctx.check(len(rn) == 1 and aa.awaited(rn[0]) is not None, 'R15a', aa.path, 'cut -> register', aa.loc(c), 'the xorb cut here is handed to register_new_xorb')
    ctx.floor('R15a', 'cut sites (cut_new_xorb, directly or in an awaited helper) in the accounting loop', len([c for c in cuts if c in lp[1]]) + len([1 for (cb, _, _) in helper_cuts if cb in lp[1]]), 1)
    # cut_new_xorb resets
    c = an(ctx.F.body(CUT))
    clears = [x for x in c.calls('alloc::vec::Vec::clear') if flow.show(c.arg(x, 0)) == 'self.new_data']
    zero = [(b, si) for (b, si, s) in c.stores_to_field('new_data_size') if c.flow.rvalue(s['r'], 0) == ('const', 0, 'usize')]
    fc = [x for x in c.calls('deduplication::raw_xorb_data::RawXorbData::from_chunks') if flow.mentions(c.arg(x, 0), lambda z: z[0] == 'field' and z[2] == 'new_data')]
    rets = c.cfg.returns
    ok = len(clears) == 1 and len(zero) == 1 and len(fc) == 1 and all(c.cfg.must_pass(r, via_blocks=clears) and c.cfg.must_pass(r, via_blocks=[zero[0][0]]) for r in rets) and c.cfg.must_pass(clears[0], via_blocks=fc)
    ctx.check(ok, 'R15a', CUT, 'reset', c.loc(clears[0]) if clears else '-', 'cut_new_xorb builds the xorb from new_data, then clears new_data and zeroes new_data_size on every path',
              'cut_new_xorb does not reset both the chunk list and the byte size on every path')
    rs = [e for (_, _, _, e) in c.ret_sites()]
    ctx.check(len(rs) == 1 and fc and c.rooted_at(rs[0], fc[0]), 'R15a', CUT, 'ret', '-', 'cut_new_xorb returns the xorb built from the pending chunks')


def r15b(ctx):
    a = an(ctx.F.body(RSC))
    fn = RSC
    ms = [m for m in a.calls(AGG + 'merge_in')]
    if not ctx.check(len(ms) == 1, 'R15b', fn, 'merge_in', '-', 'one DataAggregator::merge_in call'):
        return
    m = ms[0]

    def summed(l, meth):
        return l[0] == 'bin' and l[1] in ('Add', 'AddO') and all(x[0] == 'call' and sg(x[1]) == AGG + meth for x in (l[2], l[3]))
    okb = edges_where(a, lambda op, l, r: within(op) and summed(l, 'num_bytes') and is_limit(r, 'MAX_XORB_BYTES'))
    okc = edges_where(a, lambda op, l, r: within(op) and summed(l, 'num_chunks') and is_limit(r, 'MAX_XORB_CHUNKS'))
    ctx.check(bool(okb) and a.cfg.must_pass(m, via_edges=okb), 'R15b', fn, 'bytes limit', a.loc(m), 'merge_in is dominated by the not-exceeding edge of num_bytes(session) + num_bytes(file) vs MAX_XORB_BYTES',
              'the file remainder can be merged into the session aggregate without the byte limit having been checked')
    ctx.check(bool(okc) and a.cfg.must_pass(m, via_edges=okc), 'R15b', fn, 'chunks limit', a.loc(m), 'and of num_chunks(session) + num_chunks(file) vs MAX_XORB_CHUNKS',
              'the file remainder can be merged into the session aggregate without the chunk-count limit having been checked')
    # operands of the sums: the session aggregate (through the guard) and the file_data parameter
    for (b, _, _) in [(x, 0, 0) for x in sorted({e[0] for e in okb + okc})]:
        pass
    # on the exceeding edge one aggregate is cut
    pa = a.calls(c16.PROC)
    ctx.check(len(pa) == 1 and a.awaited(pa[0]) is not None and not a.cfg.reach([pa[0]]) & {m}, 'R15b', fn, 'cut on exceed', a.loc(pa[0]) if pa else '-',
              'on the exceeding edge the larger aggregate is cut as a xorb (process_aggregated_data_as_xorb) and nothing is merged afterwards')
    # merge_in adds other's chunks and bytes
    mi = an(ctx.F.body(AGG + 'merge_in'))
    ap = [x for x in mi.calls('alloc::vec::Vec::append') if flow.show(mi.arg(x, 0)) == 'self.chunks' and flow.show(mi.arg(x, 1)) == 'other.chunks']
    eff = paths.collect_effects(mi, mi.cfg.reach0, lambda k: 'nb' if k == ('self', 'num_bytes') else None)
    ad = [1 for es in eff.values() for (c, s, t, e, ln) in es if s == 1 and t == 'other.num_bytes']
    ctx.check(len(ap) == 1 and len(ad) == 1, 'R15b', AGG + 'merge_in', 'append+bytes', '-', 'merge_in appends other.chunks and adds other.num_bytes (the quantities the caller checked)')


def r15c(ctx):
    a = an(ctx.F.body(c16.REGC))
    fn = c16.REGC
    xt = c16.xorb_task(ctx)
    sp = [s for s in a.calls('tokio::task::join_set::JoinSet::spawn') if xt.spawned_in(a, s)]
    if not ctx.check(len(sp) == 1, 'R15c', fn, 'spawn', '-', 'one spawn of the put task'):
        return
    nz = edges_where(a, lambda op, l, r: op == 'Ne' and l[0] == 'call' and sg(l[1]).endswith('RawXorbData::num_bytes') and l[2][0][0] in ('upvar', 'local', 'param') and r == ('const', 0, 'usize'))
    ctx.check(bool(nz) and a.cfg.must_pass(sp[0], via_edges=nz), 'R15c', fn, 'non-empty', a.loc(sp[0]), 'the put task is spawned only on the xorb.num_bytes() != 0 edge',
              'an empty xorb can be handed to the store')
    nb = an(ctx.F.body('deduplication::raw_xorb_data::RawXorbData::num_bytes'))
    rs = [e for (_, _, _, e) in nb.ret_sites()]
    ok = len(rs) == 1 and flow.mentions(rs[0], lambda z: z[0] == 'field' and z[2] in ('num_bytes_in_cas', 'data', 'metadata'))
    ctx.check(ok, 'R15c', nb.path, 'num_bytes', '-', 'RawXorbData::num_bytes reads the xorb\'s own byte count (%s)' % (flow.show(rs[0]) if rs else '?'))


def r15d(ctx):
    F = ctx.F
    sites = [(b, bi) for (b, bi) in ctx.cg.call_sites('data::shard_interface::SessionShardInterface::add_file_reconstruction_info') if b['crate'] in ('data', 'deduplication')]
    ctx.floor('R15d', 'call sites of SessionShardInterface::add_file_reconstruction_info', len(sites), 1)
    for (b, bi) in sites:
        a = an(b)
        ok = b['qpath'] == c16.PROC + '::{closure#0}'
        v = a.arg(bi, 1)
        rc = a.root_call(v) if ok else None
        # element of the vector returned as .1 by DataAggregator::finalize
        ok = ok and flow.mentions(v, lambda z: z[0] == 'field' and z[2] == '1' and z[1][0] == 'call' and sg(z[1][1]) == AGG + 'finalize') or (ok and v[0] == 'local' and any(
            flow.mentions(a.flow.rvalue(d[3], 0), lambda z: z[0] == 'field' and z[2] == '1' and z[1][0] == 'call' and sg(z[1][1]) == AGG + 'finalize') for d in a.flow.defs.get(v[1], []) if d[0] == 'assign'))
        if not ok:
            # iteration variable of `for fi in new_files`
            its = [c for c in a.calls('core::iter::traits::iterator::Iterator::next')]
            ok = b['qpath'] == c16.PROC + '::{closure#0}' and any(flow.mentions(a.arg(c, 0), lambda z: True) for c in its) and flow.mentions(
                a.flow.local(v[1]) if v[0] == 'local' else v, lambda z: z[0] == 'call' and sg(z[1]) == AGG + 'finalize') or _iter_of_finalize(a, v)
        ctx.check(ok, 'R15d', b['qpath'], 'add_file_reconstruction_info', a.loc(bi), 'file records added to the session shard are the ones returned by DataAggregator::finalize',
                  'a file record reaches the shard from somewhere other than DataAggregator::finalize (%s): its xorb references may be unresolved' % flow.show(v)[:60])
    # finalize patches every pending index with the hash of the xorb it returns
    f = an(F.body(AGG + 'finalize'))
    fc = f.calls('deduplication::raw_xorb_data::RawXorbData::from_chunks')
    hs = [h for h in f.calls('deduplication::raw_xorb_data::RawXorbData::hash') if fc and f.rooted_at(f.arg(h, 0), fc[0])]
    patches = []
    for b in sorted(f.cfg.reach0):
        for si, st in enumerate(f.blocks[b]['s']):
            d = st.get('d')
            if d and 'p' in d and [e.get('n') for e in d['p'] if isinstance(e, dict) and 'f' in e][-1:] == ['cas_hash']:
                patches.append((b, si, f.flow.rvalue(st['r'], 0), f.flow.place(d, 0)))
    ok = len(fc) == 1 and len(hs) == 1 and len(patches) == 1 and f.rooted_at(patches[0][2], hs[0])
    ctx.check(ok, 'R15d', AGG + 'finalize', 'patch', f.loc(patches[0][0], patches[0][1]) if patches else '-', 'finalize stores the hash of the xorb it builds into segment.cas_hash')
    if ok:
        tgt = patches[0][3]
        okt = flow.mentions(tgt, lambda z: z[0] == 'index' and flow.mentions(z[1], lambda y: y[0] == 'field' and y[2] == 'segments'))
        lp = c05.loop_of(f, patches[0][0])
        ctx.check(okt and lp is not None, 'R15d', AGG + 'finalize', 'patch.loop', f.loc(patches[0][0], patches[0][1]), 'the patch runs in the loop over each pending file\'s index list (fi.segments[i])')
        rs = [(b, si, e) for (b, si, _, e) in f.ret_sites()]
        outer = None
        for h, blks in f.cfg.loops().items():
            if patches[0][0] in blks and (outer is None or len(blks) > len(outer[1])):
                outer = (h, blks)
        ok2 = len(rs) == 1 and f.rooted_at(rs[0][2][3][0][1], fc[0]) and outer is not None and f.cfg.must_pass(rs[0][0], via_blocks=[outer[0]])
        ctx.check(ok2, 'R15d', AGG + 'finalize', 'ret', f.loc(rs[0][0], rs[0][1]) if rs else '-', 'the returned xorb is the one whose hash was patched in, and the return follows the patch loop')
    # the index list handed to the aggregator names exactly the entries that still carry the placeholder hash: every
    # index recorded is file_info.len() read *before* the push of the entry it stands for, and that push follows on
    # every path (an index read after the push points one past the entry: the entry keeps the placeholder hash)
    npend = 0
    for p_, b_ in sorted(F.bodies.items()):
        if b_['crate'] != 'deduplication' or '::tests::' in p_:
            continue
        ab = an(b_)
        for P in ab.calls('alloc::vec::Vec::push'):
            if not (ab.arg(P, 0)[0] == 'field' and ab.arg(P, 0)[2] == 'internally_referencing_entries'):
                continue
            npend += 1
            x = ab.arg(P, 1)
            L_ = ab.root_call(x)
            okx = L_ is not None and sg(L_[1]).endswith('Vec::len') and L_[2][0][0] == 'field' and L_[2][0][2] == 'file_info' and x[0] == 'call'
            lpx = c05.loop_of(ab, P)
            lat = [(q, lpx[0]) for q in lpx[1] if lpx[0] in ab.cfg.succ[q]] if lpx else []
            Qs = [q for q in ab.calls('alloc::vec::Vec::push') if ab.arg(q, 0)[0] == 'field' and ab.arg(q, 0)[2] == 'file_info']
            okq = False
            if okx and Qs:
                Lb = L_[3]
                after_L = ab.cfg.reach_after([Lb], cut_edges=lat)
                paired = [q for q in Qs if q in after_L and Lb not in ab.cfg.reach_after([q], cut_edges=lat) and q != Lb]
                # no entry is pushed between the read and the registration of the index, and the entry follows on every path
                rets = set(ab.cfg.returns) | {q for (q, _) in lat}
                cutq = [e_ for q in paired for e_ in ab.cfg.out_edges(q)]
                leak = ab.cfg.reach_after([P], cut_edges=set(cutq) | set(lat)) & (set(ab.cfg.returns) | {q for (q, _) in lat if q not in paired})
                okq = len(paired) == 1 and not leak
            ctx.check(okx and okq, 'R15d', p_, 'pending index', ab.loc(P), 'the index recorded for a placeholder entry is file_info.len() read before that entry is pushed, and the push follows on every path',
                      'an index recorded in internally_referencing_entries is not the position of the entry pushed afterwards (read after the push, or the push can be skipped): the entry keeps the placeholder xorb hash or finalize indexes out of bounds')
    ctx.floor('R15d', 'registrations of placeholder entries (internally_referencing_entries.push)', npend, 2)
    nw = F.body(AGG + 'new')
    ctx.check(not nw.get('exported') and nw.get('vis', '').startswith('in:'), 'R15d', AGG + 'new', 'visibility', '%s:%d' % (nw['file'], nw['lo']), 'DataAggregator::new is crate-private (index lists come only from the deduper): %s' % nw.get('vis'))
    callers = {b['qpath'] for b, _ in ctx.cg.call_sites(AGG + 'new')}
    ctx.check(callers == {'deduplication::file_deduplication::FileDeduper::<DataInterfaceType>::finalize'}, 'R15d', AGG + 'new', 'callers', '-', 'DataAggregator::new is called only by FileDeduper::finalize', 'callers: %s' % sorted(callers))
    fz = an(F.body('deduplication::file_deduplication::FileDeduper::<DataInterfaceType>::finalize'))
    ns = fz.calls(AGG + 'new')
    ctx.check(len(ns) == 1 and flow.show(fz.arg(ns[0], 0)) == 'self.new_data' and flow.show(fz.arg(ns[0], 2)) == 'self.internally_referencing_entries', 'R15d', fz.path, 'new.args', fz.loc(ns[0]) if ns else '-',
              'the aggregator receives the deduper\'s pending chunks together with its list of internally referencing entries')


def _iter_of_finalize(a, v):
    """v is the loop variable of `for fi in <ret(finalize).1>`"""
    if v[0] == 'local':
        for d in a.flow.defs.get(v[1], []):
            if d[0] == 'assign' and flow.mentions(a.flow.rvalue(d[3], 0), lambda z: z[0] == 'call' and sg(z[1]) == AGG + 'finalize'):
                return True
    return flow.mentions(v, lambda z: z[0] == 'call' and sg(z[1]) == AGG + 'finalize')


def r15e(ctx):
    F = ctx.F
    c = F.consts.get('merkledb::constants::MAXIMUM_CHUNK_SIZE')
    ok = c is not None and int(c['v']) < (1 << 24)
    ctx.check(ok, 'R15e', 'merkledb::constants::MAXIMUM_CHUNK_SIZE', 'value', '-', 'MAXIMUM_CHUNK_SIZE = %s < 2^24 (fits the 3-byte length fields)' % (c and c['v']))
    v = an(F.body('cas_object::cas_chunk_format::CASChunkHeader::validate'))
    gt_c = edges_where(v, lambda op, l, r: op == 'Gt' and flow.mentions(l, lambda z: z[0] == 'call' and sg(z[1]).endswith('get_compressed_length')))
    gt_u = edges_where(v, lambda op, l, r: op == 'Gt' and flow.mentions(l, lambda z: z[0] == 'call' and sg(z[1]).endswith('get_uncompressed_length')))
    errs = [b for (b, si, k, e) in v.ret_sites() if k == 'err']
    oks = [b for (b, si, k, e) in v.ret_sites() if k == 'ok']
    m = int(c['v']) if c else -1

    def bounded(getter, bound):
        return lambda op, l, r: op == 'Le' and flow.mentions(l, lambda z: z[0] == 'call' and sg(z[1]).endswith(getter)) and flow.const_eval(r) == bound
    le_c = edges_where(v, bounded('get_compressed_length', 2 * m))
    le_u = edges_where(v, bounded('get_uncompressed_length', m))
    ok = bool(le_c) and bool(le_u) and bool(oks) and all(v.cfg.must_pass(b, via_edges=le_c) and v.cfg.must_pass(b, via_edges=le_u) for b in oks)
    ctx.check(ok, 'R15e', v.path, 'bounds', '-', 'CASChunkHeader::validate returns Ok only on the edges compressed length <= 2*MAXIMUM_CHUNK_SIZE (%d) and uncompressed length <= MAXIMUM_CHUNK_SIZE (%d)' % (2 * m, m),
              'CASChunkHeader::validate can accept a header whose length exceeds the bound (uncompressed <= MAXIMUM_CHUNK_SIZE, compressed <= 2x)')
