"""C14 — reported sizes and dedup metrics are conserved (structural clauses; DESIGN.md §5 C14)."""
from collections import Counter
from .core import an, propagation, strip_generics as sg
from . import flow, paths
from . import rules_c16 as c16

EXPLANATION = (
    'Decides per-path conservation facts: (R14a) along every acyclic non-error path of one iteration of the accounting loop of '
    'FileDeduper::process_chunks the additive updates satisfy I1 Σtotal_chunks = Σcursor, I2 Σtotal = Σdeduped + Σnew (chunks and bytes), '
    'I3 every byte operand is the byte count belonging to its chunk operand, I4 defrag-prevented counters move only on paths that add new data; '
    '(R14b) in finalize_impl the snapshot of the session metrics that is returned is taken after every upload task (the only other writers of '
    'xorb_bytes_uploaded) was joined, shard bytes come from the shard upload, total = shard + xorb; (R14c) every file\'s metrics are merged into '
    'the session\'s and merge_in adds every field to its namesake; (R14d) the pointer size is the accumulated total_bytes. '
    'Not decided: that fse.unpacked_segment_bytes is the true byte count of a matched run (C05), numeric totals.')

PC = 'deduplication::file_deduplication::FileDeduper::<DataInterfaceType>::process_chunks::{closure#0}'
METRICS = 'deduplication::dedup_metrics::DeduplicationMetrics'


def run(ctx):
    ctx.rule('R14a', 'per-path conservation of the dedup counters against the chunk cursor in the accounting loop of process_chunks (I1-I4)')
    ctx.rule('R14b', 'the returned session-metrics snapshot is taken after the join of all xorb upload tasks; shard/total upload bytes have the right provenance')
    ctx.rule('R14c', 'file metrics are merged into the session metrics on every successful path; merge_in adds each field to its namesake')
    ctx.rule('R14d', 'the pointer file size originates from the accumulated total_bytes of the deduper')
    ctx.guarded('R14a', PC, lambda: r14a(ctx))
    ctx.guarded('R14b', c16.FIN, lambda: r14b(ctx))
    ctx.guarded('R14c', 'merge', lambda: r14c(ctx))
    ctx.guarded('R14d', 'pointer', lambda: r14d(ctx))
    ctx.rule('R14e', 'the byte count of a local (same-file) dedup answer is the sum of the lengths of exactly the matched chunks (= C05-R05d): it feeds total_bytes and hence the pointer size')
    from . import rules_c05 as c05
    from .rules_c11 import _Alias
    ctx.guarded('R14e', c05.LOCAL, lambda: c05.r05d(_Alias(ctx, 'R05d', 'R14e')))
    ctx.rule('R14f', 'add_data forwards every byte of its buffer to the chunker exactly once (whole buffer, a gap-free cursor, or data.chunks(n)) (= C03-R03c): otherwise the pointer size and total_bytes differ from the bytes fed in')
    ctx.guarded('R14f', 'data::file_cleaner::SingleFileCleaner::add_data', lambda: __import__('xl.rules_c03', fromlist=['add_data_forwards']).add_data_forwards(_Alias(ctx, 'R03c', 'R14f')))


def r14a(ctx):
    a = an(ctx.F.body(PC))
    fn = PC
    mfields = [f['n'] for f in ctx.F.adt(METRICS)['variants'][0]['fields']]
    # metrics local: a local of type DeduplicationMetrics that is returned
    loops = a.cfg.loops()
    cand = []
    for h, blks in loops.items():
        eff = paths.collect_effects(a, blks, lambda k: k[-1] if len(k) == 2 and k[-1] == 'total_chunks' else None, F=ctx.F)
        if eff:
            cand.append((len(blks), h, blks))
    if not ctx.check(len(cand) >= 1, 'R14a', fn, 'loop', '-', 'found the loop that updates total_chunks'):
        return
    cand.sort()
    _, head, blks = cand[0]
    # cursor: the local compared against len(chunks) in the loop header's exit condition
    from .core import cond_edges
    cursor = None
    for b in sorted(blks):
        ce = cond_edges(a, b)
        if not ce:
            continue
        op, l, r, te, fe = ce
        exits = [e for e in te + fe if e[1] not in blks]
        if exits and op in ('Lt', 'Gt', 'Le', 'Ge', 'Ne'):
            for x, y in ((l, r), (r, l)):
                if x[0] == 'local' and flow.mentions(y, lambda z: z[0] == 'param' and z[2] == 'chunks' or z[0] == 'upvar' and z[1] == 'chunks'):
                    cursor = paths.expr_place_key(x)
    if not ctx.check(cursor is not None, 'R14a', fn, 'cursor', a.loc(head), 'loop cursor identified from the exit comparison against chunks.len(): %s' % (cursor,)):
        return
    owners = set()

    def track(k):
        if k is None:
            return None
        if k == cursor:
            return 'cursor'
        if len(k) == 2 and k[1] in mfields:
            owners.add(k[0])
            return k[1]
        return None
    eff = paths.collect_effects(a, blks, track, F=ctx.F)
    # all tracked metric updates (direct or through a helper method of the metrics type) go to one metrics local
    ctx.check(len(owners) == 1, 'R14a', fn, 'metrics', '-', 'all metric updates in the loop go to one DeduplicationMetrics value: %s' % sorted(owners))
    region = paths.Region(a, blks, head)
    states, problems = region.propagate({b: [(c, s, t, e_) for (c, s, t, e_, _) in es] for b, es in eff.items()})
    for p in problems:
        ctx.fail('R14a', fn, 'inner-loop', '-', 'cannot establish: ' + p)
    ctx.floor('R14a', 'distinct per-iteration effect states of the accounting loop', len(states), 3)
    nupd = sum(len(v) for v in eff.values())
    ctx.floor('R14a', 'tracked additive updates in the accounting loop', nupd, 8)
    # expression lookup for I3
    term_expr = {}
    for es in eff.values():
        for (c, s, t, e, ln) in es:
            term_expr[t] = e
    for st in sorted(states, key=lambda s: sorted(map(str, s))):
        desc = describe(st)
        tc = paths.state_terms(st, 'total_chunks')
        cur = paths.state_terms(st, 'cursor')
        ctx.check(tc == cur, 'R14a', fn, 'I1', a.loc(head), 'I1 Σtotal_chunks == Σcursor on path-state {%s}' % desc,
                  'I1 violated: chunks counted (%s) differ from the cursor advance (%s) on path-state {%s}: chunks are counted twice or skipped' % (dict(tc), dict(cur), desc))
        for tot, ded, new in (('total_chunks', 'deduped_chunks', 'new_chunks'), ('total_bytes', 'deduped_bytes', 'new_bytes')):
            t_ = paths.state_terms(st, tot)
            dn = paths.state_terms(st, ded) + paths.state_terms(st, new)
            ctx.check(t_ == dn, 'R14a', fn, 'I2:' + tot, a.loc(head), 'I2 Σ%s == Σ%s + Σ%s on path-state {%s}' % (tot, ded, new, desc),
                      'I2 violated: %s (%s) != %s + %s (%s) on path-state {%s}' % (tot, dict(t_), ded, new, dict(dn), desc))
        # I3: pairing of byte operands with chunk operands
        okp, why = pairing(tc, paths.state_terms(st, 'total_bytes'), term_expr)
        ctx.check(okp, 'R14a', fn, 'I3', a.loc(head), 'I3 each byte operand belongs to its chunk operand on path-state {%s}' % desc, 'I3 violated: %s on path-state {%s}' % (why, desc))
        # I4
        dp = paths.state_terms(st, 'defrag_prevented_dedup_chunks')
        dpb = paths.state_terms(st, 'defrag_prevented_dedup_bytes')
        if dp or dpb:
            ctx.check(bool(paths.state_terms(st, 'new_chunks')) and bool(paths.state_terms(st, 'new_bytes')), 'R14a', fn, 'I4', a.loc(head),
                      'I4 defrag-prevented counters move only on a path that adds new data, path-state {%s}' % desc)


def describe(st):
    return ', '.join('%s%s=%s×%d' % (c, '+' if s > 0 else '-', t, n) for ((c, t, s), n) in sorted(st, key=str))


def pairing(chunk_terms, byte_terms, term_expr):
    ct = Counter(chunk_terms)
    bt = Counter(byte_terms)
    for t, n in list(bt.items()):
        e = term_expr.get(t)
        if e is None:
            return False, 'unknown byte operand %s' % t
        if e[0] == 'field' and e[2] == 'unpacked_segment_bytes':
            # companion chunk operand: `.0` of the tuple whose `.1` is the entry
            base = e[1]
            if base[0] == 'field' and base[2] == '1':
                comp = flow.show(('field', base[1], '0'))
                if ct[comp] >= n:
                    ct[comp] -= n
                    continue
            return False, 'byte operand %s has no chunk-count operand from the same dedup answer' % t
        if flow.mentions(e, lambda z: z[0] == 'index') and ('len' in flow.show(e)):
            if ct['1'] >= n:
                ct['1'] -= n
                continue
            return False, 'byte operand %s (one chunk\'s length) is not paired with a chunk count of 1' % t
        return False, 'unrecognised byte operand %s' % t
    rest = +ct
    if rest:
        return False, 'chunk operands %s have no byte operand' % dict(rest)
    return True, ''


def r14b(ctx):
    F = ctx.F
    a = an(F.body(c16.FIN))
    fn = c16.FIN
    takes = [t for t in a.calls('core::mem::take') if c16.is_field_of_self(a.arg(t, 0), 'deduplication_metrics')]
    if not ctx.check(len(takes) >= 1, 'R14b', fn, 'take(deduplication_metrics)', '-', 'finalize_impl takes the session metrics'):
        return
    # the edges of finalize_impl that are crossed exactly when every xorb upload task has been joined (inline loop or
    # awaited helper, see rules_c16.drain_site)
    dr, _n = c16.drain_site(ctx, a)
    none_edges = dr.edges if dr is not None else []
    # which take flows to the returned value?
    oks = [(b, si, e) for (b, si, k, e) in a.ret_sites() if k != 'err']
    for tk in takes:
        dl = a.dest(tk)['l']
        name = a.flow.lname(dl)
        returned = any(flow.mentions(e, lambda z: z[0] == 'local' and z[1] == dl or a.rooted_at(z, tk)) for (_, _, e) in oks)
        if not returned:
            ctx.info('R14b', fn, a.loc(tk), 'take of deduplication_metrics into %s does not flow to the return value' % name)
            continue
        ok = bool(none_edges) and a.cfg.must_pass(tk, via_edges=none_edges)
        ctx.check(ok, 'R14b', fn, 'take(deduplication_metrics)', a.loc(tk),
                  'the returned metrics snapshot is dominated by the None-exit of the join loop over the xorb upload tasks',
                  'the metrics snapshot that is returned is taken before the upload tasks (which add xorb_bytes_uploaded) are joined: reported xorb bytes miss every task still running')
    # only the upload task and finalize write xorb_bytes_uploaded
    writers = set()
    for p, b in F.bodies.items():
        if b['crate'] not in ('data', 'deduplication'):
            continue
        ab = an(b)
        if ab.stores_to_field('xorb_bytes_uploaded', 'DeduplicationMetrics'):
            writers.add(p)
    TASK = c16.xorb_task(ctx).path
    exp = {TASK, 'deduplication::dedup_metrics::DeduplicationMetrics::merge_in'}
    ctx.check(writers == exp, 'R14b', '-', 'writers(xorb_bytes_uploaded)', '-', 'xorb_bytes_uploaded is written only by the upload task and merge_in',
              'unexpected writers of xorb_bytes_uploaded: %s' % sorted(writers ^ exp))
    # in the task: += ret(put)
    at = an(F.body(TASK))
    ups = [(b, si, s) for (b, si, s) in at.stores_to_field('xorb_bytes_uploaded')]
    okt = False
    for (b, si, s) in ups:
        u = paths.additive_update(at, s)
        if u and u[1] == 1 and at.root_call(u[2]) and at.root_call(u[2])[1].endswith('UploadClient::put'):
            okt = True
    ctx.check(okt, 'R14b', TASK, 'xorb_bytes_uploaded', at.loc(ups[0][0], ups[0][1]) if ups else '-', 'the task adds exactly the byte count returned by put to xorb_bytes_uploaded')
    # shard bytes / total
    sb = a.stores_to_field('shard_bytes_uploaded')
    if not sb and not a.stores_to_field('total_bytes_uploaded'):
        # struct-update form: `DeduplicationMetrics { shard_bytes_uploaded: s, total_bytes_uploaded: s + snap.xorb_bytes_uploaded, ..snap }`
        aggs = []
        for b_ in sorted(a.cfg.reach0):
            for si_, st_ in enumerate(a.blocks[b_]['s']):
                r_ = st_.get('r')
                if r_ and r_['k'] == 'agg' and r_.get('adt') == METRICS:
                    aggs.append((b_, si_, a.flow.rvalue(r_, 0)))
        if ctx.check(len(aggs) == 1, 'R14b', fn, 'shard_bytes_uploaded', '-', 'one construction of the final metrics value (struct-update form)'):
            b_, si_, e_ = aggs[0]
            c_ = dict(e_[3])
            s_, t_, x_ = c_.get('shard_bytes_uploaded'), c_.get('total_bytes_uploaded'), c_.get('xorb_bytes_uploaded')
            oks_ = s_ is not None and a.root_call(s_) is not None and a.root_call(s_)[1].endswith('upload_and_register_session_shards')
            ctx.check(oks_, 'R14b', fn, 'shard_bytes_uploaded', a.loc(b_, si_), 'shard_bytes_uploaded originates from ret(upload_and_register_session_shards)')
            okt_ = (t_ is not None and t_[0] == 'bin' and t_[1] in ('Add', 'AddO') and x_ is not None and x_[0] == 'field' and x_[2] == 'xorb_bytes_uploaded'
                    and ((flow.eqv(t_[2], s_) and flow.eqv(t_[3], x_)) or (flow.eqv(t_[3], s_) and flow.eqv(t_[2], x_))))
            ctx.check(okt_, 'R14b', fn, 'total_bytes_uploaded', a.loc(b_, si_), 'total_bytes_uploaded = shard_bytes_uploaded + xorb_bytes_uploaded of the same snapshot')
            # every other field is carried over from the snapshot, which is the take that flows to the return
            snap = x_[1] if x_ is not None and x_[0] == 'field' else None
            okc_ = snap is not None and all(v == ('field', snap, k) for k, v in c_.items() if k not in ('shard_bytes_uploaded', 'total_bytes_uploaded'))
            ctx.check(okc_ and any(a.rooted_at(snap, tk) for tk in takes), 'R14b', fn, 'carried fields', a.loc(b_, si_), 'all other fields are those of the snapshot taken from the session metrics')
            ctx.check(bool(none_edges) and a.cfg.must_pass(b_, via_edges=none_edges), 'R14b', fn, 'total_bytes_uploaded.order', a.loc(b_, si_), 'total_bytes_uploaded is computed after all upload tasks were joined')
        return
    ok = len(sb) == 1 and a.root_call(a.flow.rvalue(sb[0][2]['r'], 0)) is not None and a.root_call(a.flow.rvalue(sb[0][2]['r'], 0))[1].endswith('upload_and_register_session_shards')
    ctx.check(ok, 'R14b', fn, 'shard_bytes_uploaded', a.loc(sb[0][0], sb[0][1]) if sb else '-', 'shard_bytes_uploaded originates from ret(upload_and_register_session_shards)')
    tb = a.stores_to_field('total_bytes_uploaded')
    ok = False
    if len(tb) == 1:
        e = a.flow.rvalue(tb[0][2]['r'], 0)
        if e[0] == 'field' and e[2] == '0':
            e = e[1]
        if e[0] == 'bin' and e[1] in ('Add', 'AddO'):
            dk = paths.place_key(a, tb[0][2]['d'])
            sbv = a.root_call(a.flow.rvalue(sb[0][2]['r'], 0)) if len(sb) == 1 else None

            def is_shard(z):
                # the snapshot's own field, or the very value that was stored into it (ret(upload_and_register_session_shards))
                return paths.expr_place_key(z) == dk[:-1] + ('shard_bytes_uploaded',) or (sbv is not None and a.root_call(z) is not None and a.root_call(z)[3] == sbv[3])

            def is_xorb(z):
                return paths.expr_place_key(z) == dk[:-1] + ('xorb_bytes_uploaded',)
            ok = (is_shard(e[2]) and is_xorb(e[3])) or (is_shard(e[3]) and is_xorb(e[2]))
    ctx.check(ok, 'R14b', fn, 'total_bytes_uploaded', a.loc(tb[0][0], tb[0][1]) if tb else '-', 'total_bytes_uploaded = shard_bytes_uploaded + xorb_bytes_uploaded of the same snapshot')
    # the store must come after the snapshot AND after the join (it reads xorb_bytes_uploaded)
    if tb:
        ctx.check(bool(none_edges) and a.cfg.must_pass(tb[0][0], via_edges=none_edges), 'R14b', fn, 'total_bytes_uploaded.order', a.loc(tb[0][0], tb[0][1]),
                  'total_bytes_uploaded is computed after all upload tasks were joined')


def r14c(ctx):
    F = ctx.F
    rc = 'data::file_upload_session::FileUploadSession::register_single_file_clean_completion::{closure#0}'
    a = an(F.body(rc))
    ms = [m for m in a.calls('deduplication::dedup_metrics::DeduplicationMetrics::merge_in')]
    good = [m for m in ms if c16.is_field_of_self(a.arg(m, 0), 'deduplication_metrics') and flow.mentions(a.arg(m, 1), lambda z: z[0] == 'upvar' and z[1] == 'dedup_metrics' or z[0] == 'param' and z[2] == 'dedup_metrics')]
    ctx.check(len(good) == 1, 'R14c', rc, 'merge_in', a.loc(good[0]) if good else '-', 'session metrics merge_in(file metrics) present')
    if good:
        oks = [(b, si) for (b, si, k, e) in a.ret_sites() if k != 'err']
        ctx.check(all(a.cfg.must_pass(b, via_blocks=good) for (b, si) in oks) and bool(oks), 'R14c', rc, 'merge_in.dom', a.loc(good[0]),
                  'every Ok return of register_single_file_clean_completion is dominated by the merge of the file\'s metrics',
                  'a successful path skips merging the file\'s metrics into the session')
    # process_chunks merges block metrics into the deduper's
    ap = an(F.body(PC))
    ms = ap.calls('deduplication::dedup_metrics::DeduplicationMetrics::merge_in')
    oks = [(b, si) for (b, si, k, e) in ap.ret_sites() if k != 'err']
    ctx.check(len(ms) == 1 and all(ap.cfg.must_pass(b, via_blocks=ms) for (b, si) in oks) and not any(ms[0] in l for l in ap.cfg.loops().values()), 'R14c', PC, 'merge_in', ap.loc(ms[0]) if ms else '-',
              'process_chunks merges the block metrics into the file metrics exactly once on every successful path (not in a loop)')
    # merge_in field pairing
    mi = an(F.body('deduplication::dedup_metrics::DeduplicationMetrics::merge_in'))
    mfields = [f['n'] for f in F.adt(METRICS)['variants'][0]['fields']]
    seen = {}
    for b in sorted(mi.cfg.reach0):
        for si, s in enumerate(mi.blocks[b]['s']):
            u = paths.additive_update(mi, s)
            if u and len(u[0]) == 2 and u[0][0] == 'self':
                src = paths.expr_place_key(u[2])
                seen.setdefault(u[0][1], []).append((u[1], src, mi.loc(b, si), b))
    for f in mfields:
        ups = seen.get(f, [])
        ok = len(ups) == 1 and ups[0][0] == 1 and ups[0][1] == ('other', f) and all(mi.cfg.postdominates(ups[0][3], 0) for _ in [0])
        ctx.check(ok, 'R14c', 'deduplication::dedup_metrics::DeduplicationMetrics::merge_in', f, ups[0][2] if ups else '-',
                  'self.%s += other.%s exactly once, unconditionally' % (f, f), 'merge_in does not add other.%s to self.%s exactly once: %s' % (f, f, ups))
    ctx.floor('R14c', 'fields of DeduplicationMetrics', len(mfields), 13)


def r14d(ctx):
    F = ctx.F
    fin = 'data::file_cleaner::SingleFileCleaner::finish::{closure#0}'
    a = an(F.body(fin))
    inits = a.calls('data::pointer_file::PointerFile::init_from_info')
    if not ctx.check(len(inits) == 1, 'R14d', fin, 'init_from_info', '-', 'one PointerFile::init_from_info call'):
        return
    i = inits[0]
    size = a.arg(i, 2)
    rc = a.root_call(size)
    ok = rc is not None and sg(rc[1]).endswith('FileDeduper::finalize') and flow.show(size).endswith('.2.total_bytes')
    ctx.check(ok, 'R14d', fin, 'size', a.loc(i), 'pointer size = ret(FileDeduper::finalize).2.total_bytes (%s)' % flow.show(size), 'pointer size has unexpected provenance: %s' % flow.show(size))
    h = a.arg(i, 1)
    ok = flow.mentions(h, lambda z: z[0] == 'call' and z[1].endswith('hex') and a.root_call(z[2][0]) is not None and sg(a.root_call(z[2][0])[1]).endswith('FileDeduper::finalize') and flow.show(z[2][0]).endswith('.0'))
    ctx.check(ok, 'R14d', fin, 'hash', a.loc(i), 'pointer hash = hex(ret(FileDeduper::finalize).0) (%s)' % flow.show(h), 'pointer hash has unexpected provenance: %s' % flow.show(h))
    # FileDeduper::finalize returns self.deduplication_metrics as component 2
    fz = an(F.body('deduplication::file_deduplication::FileDeduper::<DataInterfaceType>::finalize'))
    rs = [e for (b, si, k, e) in fz.ret_sites()]
    ok = len(rs) == 1 and rs[0][0] == 'agg' and len(rs[0][3]) == 4 and flow.show(rs[0][3][2][1]) == 'self.deduplication_metrics'
    ctx.check(ok, 'R14d', 'deduplication::file_deduplication::FileDeduper::finalize', 'ret.2', '-', 'finalize returns the deduper\'s accumulated metrics as component 2')
