"""K5: primitive I/O token extraction for reader/writer table agreement.

A token is (dir, width, rep, value/field, block):
  dir   'w' | 'r'
  width 'u8' | 'u32' | 'u64' | 'hash' | 'bytes' | 'u32s' | 'u64s' | 'raw:<N>'
  rep   None for a token outside loops, else the loop header block (tokens inside one loop form a repeated group)
  value writer: expression written; reader: the expression the result flows to is resolved by the caller
Tokens are listed in a topological order of the forward CFG (back edges and error exits removed), which for the
serializers of this repository (straight-line code with `?`) is the program order.
"""
from .core import strip_generics as sg
from . import flow

HELPERS = {
    'utils::serialization_utils::write_u8': ('w', 'u8'), 'utils::serialization_utils::write_u32': ('w', 'u32'), 'utils::serialization_utils::write_u64': ('w', 'u64'),
    'utils::serialization_utils::write_hash': ('w', 'hash'), 'utils::serialization_utils::write_bytes': ('w', 'bytes'), 'utils::serialization_utils::write_u32s': ('w', 'u32s'),
    'utils::serialization_utils::write_u64s': ('w', 'u64s'),
    'utils::serialization_utils::read_u8': ('r', 'u8'), 'utils::serialization_utils::read_u32': ('r', 'u32'), 'utils::serialization_utils::read_u64': ('r', 'u64'),
    'utils::serialization_utils::read_hash': ('r', 'hash'), 'utils::serialization_utils::read_bytes': ('r', 'bytes'), 'utils::serialization_utils::read_u32s': ('r', 'u32s'),
    'utils::serialization_utils::read_u64s': ('r', 'u64s'),
    'utils::serialization_utils::read_u8_async': ('r', 'u8'), 'utils::serialization_utils::read_u32_async': ('r', 'u32'), 'utils::serialization_utils::read_u64_async': ('r', 'u64'),
    'utils::serialization_utils::read_hash_async': ('r', 'hash'), 'utils::serialization_utils::read_bytes_async': ('r', 'bytes'), 'utils::serialization_utils::read_u32s_async': ('r', 'u32s'),
    'utils::serialization_utils::read_u64s_async': ('r', 'u64s'),
}
WIDTH = {'u8': 1, 'u32': 4, 'u64': 8, 'hash': 32}


def topo_blocks(a, cut_blocks=()):
    cfg = a.cfg
    back = set(cfg.back_edges())
    cut = set(cut_blocks)
    region = cfg.reach([0], cut_blocks=cut)
    from collections import Counter
    indeg = Counter()
    succ = {}
    for b in region:
        ss = [s for s in cfg.succ[b] if s in region and (b, s) not in back]
        succ[b] = ss
        for s in ss:
            indeg[s] += 1
    order = []
    import heapq
    heap = [b for b in region if indeg[b] == 0]
    heapq.heapify(heap)
    while heap:
        b = heapq.heappop(heap)
        order.append(b)
        for s in succ[b]:
            indeg[s] -= 1
            if indeg[s] == 0:
                heapq.heappush(heap, s)
    return order


def innermost_loop(a, b):
    best = None
    for h, blks in a.cfg.loops().items():
        if b in blks and (best is None or len(blks) < len(best[1])):
            best = (h, blks)
    return best


def tokens(a, extra=None):
    """token list of body `a`. `extra`: {callee suffix: (dir, width)} additional helpers (nested serializers)."""
    errb = [b for (b, si, k, _) in a.ret_sites() if k == 'err']
    out = []
    helpers = dict(HELPERS)
    if extra:
        helpers.update(extra)
    for b in topo_blocks(a, errb):
        t = a.blocks[b]['t']
        if t['k'] != 'call':
            continue
        fn = sg(t.get('fn', ''))
        hit = None
        for k, v in helpers.items():
            if fn == k or fn.endswith('::' + k):
                hit = v
        if hit is None:
            continue
        d, w = hit
        lp = innermost_loop(a, b)
        val = a.arg(b, 1) if d == 'w' and len(t['args']) > 1 else None
        out.append(dict(dir=d, width=w, rep=lp[0] if lp else None, value=val, block=b, line=a.line(b)))
    return out


def reader_fields(a, toks, agg_expr):
    """map reader tokens to the aggregate field their result flows to: {block: field name}"""
    m = {}
    if agg_expr[0] != 'agg':
        return m
    def walk(prefix, e):
        if e[0] == 'agg':
            for n, c in e[3]:
                walk(prefix + [n], c)
        else:
            rc = a.root_call(e)
            if rc is not None:
                m.setdefault(rc[3], '.'.join(prefix))
    walk([], agg_expr)
    return m


def writer_field(e):
    """'range.start' for self.range.start etc."""
    ap = flow.access_path(e)
    if ap and ap.startswith('self.'):
        return ap[5:]
    return ap
