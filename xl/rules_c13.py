"""C13 — chunk-cache accounting: structural counter conservation and evict-before-add (DESIGN.md §5 C13)."""
from .core import an, strip_generics as sg, cond_edges, edges_where
from . import flow, paths, locks
from .cfg import TERM

EXPLANATION = (
    'Decides structural conservation of CacheState.num_items / total_bytes against the tracked-item container: (R13a) in every function that removes an '
    'element from a Vec<VerificationCell<CacheItem>> each removal is matched, on every non-error path, by a total_bytes decrement whose operand is that '
    'element\'s len (directly, via the element read at the same index, via the search key that located it, or through an accumulator subtracted once) and by '
    'a num_items decrement of 1 (or of the number of removals); each insertion by +len and +1; a whole key is dropped only when its list is empty; '
    '(R13b) in put_impl eviction for exactly the added length precedes the byte add inside one live range of the state guard, and files are deleted only after '
    'the guard is released; (R13c) the two counters are written nowhere else. These hold for every history and interleaving because they are per-path facts '
    'inside one lock region. Not decided: the arithmetic of the capacity bound (to_remove), file-system/state agreement under racing deletions.')

D = 'chunk_cache::disk::DiskCache::'
PUT, EVICT, RMI, INIT = D + 'put_impl', D + 'maybe_evict', D + 'remove_item', D + 'initialize_state'
ITEMVEC = 'Vec<chunk_cache::disk::cache_item::VerificationCell<chunk_cache::disk::cache_item::CacheItem>>'
REMOVERS = ('swap_remove', 'remove', 'pop', 'drain', 'clear', 'retain', 'truncate', 'split_off', 'dedup', 'dedup_by_key', 'retain_mut')


def run(ctx):
    ctx.rule('R13a', 'every removal/insertion on a tracked-item vector is paired, on every non-error path, with matching num_items/total_bytes updates; key dropped only when its list is empty')
    ctx.rule('R13b', 'put_impl: maybe_evict(state, len) dominates total_bytes += len inside one live range of the state guard; file deletions happen after the guard is released')
    ctx.rule('R13c', 'num_items / total_bytes are written only in put_impl, maybe_evict, remove_item and the CacheState::new aggregate fed by initialize_state')
    ctx.guarded('R13a', 'chunk_cache::disk', lambda: r13a(ctx))
    ctx.guarded('R13b', PUT, lambda: r13b(ctx))
    ctx.guarded('R13c', 'chunk_cache::disk', lambda: r13c(ctx))
    ctx.rule('R13d', 're-open tracks every admissible file: put admits any item of at most the capacity (maybe_evict makes room for it), so the directory scan may leave a regular cache file untracked only when its length exceeds the capacity')
    ctx.guarded('R13d', 'chunk_cache::disk::try_parse_cache_file', lambda: r13d(ctx))
    ctx.rule('R13e', 'once get has found a tracked item, every path that looks again or reports a miss first drops the item from the state (remove_item): an item whose file has vanished does not stay counted')
    ctx.guarded('R13e', 'chunk_cache::disk::DiskCache::get_impl', lambda: __import__('xl.rules_r5', fromlist=['x']).stale_entries_dropped(ctx, 'R13e'))


def arg_local_ty(a, t, i):
    o = t['args'][i]
    pl = o.get('mv') or o.get('cp')
    if not pl:
        return ''
    return a.flow.lty(pl['l'])


def vec_sites(ctx, methods):
    """call sites of Vec methods on a tracked-item vector in non-test chunk_cache bodies"""
    out = []
    for p, b in ctx.F.bodies.items():
        if b['crate'] != 'chunk_cache' or '::tests::' in p or '::test_utils::' in p or 'concurrency_tests' in p:
            continue
        a = an(b)
        for cb in a.calls():
            t = a.term(cb)
            fn = sg(t.get('fn', ''))
            if not fn.startswith('alloc::vec::Vec::'):
                continue
            m = fn.split('::')[-1]
            if m in methods and t['args'] and ITEMVEC in arg_local_ty(a, t, 0):
                out.append((a, cb, m))
    return out


def same_root(a, x, y):
    rx, ry = a.root_call(x), a.root_call(y)
    if rx is not None and ry is not None:
        return rx[3] == ry[3]
    return flow.access_path(x) is not None and flow.access_path(x) == flow.access_path(y)


def belongs_to_removed(a, term, r_block):
    """is `term` the len of the element removed by the call in r_block? returns the form name or None"""
    if term[0] != 'field' or term[2] != 'len':
        return None
    e = term[1]
    vec = a.arg(r_block, 0)
    idx = a.arg(r_block, 1) if len(a.term(r_block)['args']) > 1 else None
    if a.rooted_at(e, r_block) and e[0] == 'call':
        return 'the removed value itself'
    if e[0] == 'index' and idx is not None and same_root(a, e[1], vec) and e[2] == idx:
        return 'the element read at the same index before removal'
    if idx is not None:
        rc = a.root_call(idx)
        if rc is not None and sg(rc[1]).endswith('chunk_cache::disk::index_of') and same_root(a, rc[2][0], vec) and rc[2][1] == e:
            return 'the search key whose index_of() located the element (equality includes len)'
    return None


def innermost_loop(a, b):
    best = None
    for h, blks in a.cfg.loops().items():
        if b in blks and (best is None or len(blks) < len(best[1])):
            best = (h, blks)
    return best


def r13a(ctx):
    HELPER_SUMMARIES.clear()
    rem = vec_sites(ctx, REMOVERS)
    ctx.floor('R13a', 'element-removal sites on Vec<VerificationCell<CacheItem>>', len(rem), 3)
    for (a, rb, m) in rem:
        fn = a.path
        if m not in ('swap_remove', 'remove'):
            ctx.fail('R13a', fn, m, a.loc(rb), 'removal through Vec::%s has no enumerated accounting form: cannot establish that the counters follow' % m)
            continue
        errb = [b for (b, si, k, _) in a.ret_sites() if k == 'err']
        lp = innermost_loop(a, rb)
        if lp:
            head, blks = lp
            stop_edges = [(x, head) for x in blks if head in a.cfg.succ[x]]
            stops = []
        else:
            stop_edges, stops = [], list(a.cfg.returns)
        eff = paths.collect_effects(a, a.cfg.reach0, lambda k: k[-1] if k[-1] in ('total_bytes', 'num_items') and len(k) == 2 else (('acc:' + k[0]) if len(k) == 1 else None))
        res = paths.propagate_from(a, list(a.cfg.succ[rb]), stops, {b: [(c, s, t) for (c, s, t, _, _) in es] for b, es in eff.items()}, cut_blocks=errb, stop_edges=stop_edges)
        term_expr = {}
        for es in eff.values():
            for (c, s, t, e, ln) in es:
                term_expr[(c, t)] = e
        states = set()
        for v in res.values():
            states |= v
        if not states:
            ctx.fail('R13a', fn, m, a.loc(rb), 'cannot establish: no completed path from the removal to the end of its region')
            continue
        form = None
        bad = None
        accs = set()
        for st in states:
            tb = [(t, s, n) for ((c, t, s), n) in st if c == 'total_bytes']
            ni = [(t, s, n) for ((c, t, s), n) in st if c == 'num_items']
            ac = [(c, t, s, n) for ((c, t, s), n) in st if c.startswith('acc:') and belongs_to_removed(a, term_expr.get((c, t), ('top',)), rb)]
            if len(tb) == 1 and tb[0][1] == -1 and tb[0][2] == 1 and belongs_to_removed(a, term_expr[('total_bytes', tb[0][0])], rb):
                if not (len(ni) == 1 and ni[0] == ('1', -1, 1)):
                    bad = 'num_items is not decremented by exactly 1 on a path that removes an element (%s)' % ni
                    break
                form = belongs_to_removed(a, term_expr[('total_bytes', tb[0][0])], rb)
            elif not tb and len(ac) == 1 and ac[0][2] == 1 and ac[0][3] == 1:
                accs.add(ac[0][0])
                form = 'accumulator ' + ac[0][0][4:] + ' += ' + belongs_to_removed(a, term_expr[(ac[0][0], ac[0][1])], rb)
            else:
                bad = 'a path removes an element without a total_bytes decrement (or accumulator add) of that element\'s len: updates on the path = %s' % paths_desc(st)
                break
        if bad:
            ctx.fail('R13a', fn, m, a.loc(rb), bad)
            continue
        ctx.ok('R13a', fn, a.loc(rb), 'every path from the removal (%s) accounts the removed element: %s; %d path-state(s)' % (m, form, len(states)))
        if accs:
            if len(accs) != 1 or not lp:
                ctx.fail('R13a', fn, m + '.acc', a.loc(rb), 'cannot establish accumulator discipline (%s)' % sorted(accs))
                continue
            acc = list(accs)[0][4:]
            check_accumulator(ctx, a, rb, lp, acc, errb)
    # converse: a direct counter decrement happens only after an element was actually removed (in the same iteration)
    by_fn = {}
    for (a, rb, m) in rem:
        by_fn.setdefault(a.path, (a, []))[1].append(rb)
    ndec = 0
    for fnp in (PUT, EVICT, RMI):
        a = an(ctx.F.body(fnp))
        rbs = by_fn.get(fnp, (a, []))[1]
        eff = paths.collect_effects(a, a.cfg.reach0, lambda k: k[-1] if k[-1] in ('total_bytes', 'num_items') and len(k) == 2 else None)
        for b, es in eff.items():
            for (c, sgn, t, e, ln) in es:
                if sgn != -1:
                    continue
                # accumulator flushes (operand is a local accumulator / the length of the removal list) are checked by check_accumulator
                if e[0] == 'local' or (e[0] == 'call' and sg(e[1]).endswith('Vec::len')):
                    continue
                rc_ = a.root_call(e)
                if rc_ is not None and sg(rc_[1]) in {sg(h) for h in HELPER_SUMMARIES}:
                    continue  # flush of a summarised removal helper (checked by flush_at_callers)
                ndec += 1
                lp = innermost_loop(a, b)
                if lp:
                    head, blks = lp
                    latches = [(x, head) for x in blks if head in a.cfg.succ[x]]
                    cut = set(latches)
                    for r_ in rbs:
                        cut.update(a.cfg.out_edges(r_))
                    dom = bool(rbs) and b not in a.cfg.reach([head], cut_edges=cut)
                else:
                    dom = bool(rbs) and a.cfg.must_pass(b, via_blocks=rbs)
                ctx.check(dom, 'R13a', fnp, 'decrement<-removal:' + c, '%s:%d' % (a.body['file'], ln), '%s is decremented only after an element was actually removed on that path' % c,
                          '%s can be decremented on a path that removed nothing from the tracked list (double accounting of an entry that is already gone)' % c)
    ctx.floor('R13a', 'direct counter decrements examined', ndec, 4)
    # whole-key removal only when the list is empty
    for fnp in (EVICT, RMI):
        a = an(ctx.F.body(fnp))
        krs = [c for c in a.calls('std::collections::hash::map::HashMap::remove') if flow.mentions(a.arg(c, 0), lambda z: z[0] == 'field' and z[2] == 'inner')]
        for kr in krs:
            te = edges_where(a, lambda op, l, r: False)
            true_edges = []
            for b in sorted(a.cfg.reach0):
                t = a.blocks[b]['t']
                if t['k'] == 'switch':
                    e = a.flow.expr(t['d'])
                    if e[0] == 'call' and sg(e[1]).endswith('Vec::is_empty'):
                        true_edges += [(b, s) for s in a.cfg.succ[b] if (b, s) not in [(b, tgt) for v, tgt in t['ts'] if str(v) == '0']]
            ctx.check(bool(true_edges) and a.cfg.must_pass(kr, via_edges=true_edges), 'R13a', fnp, 'key removal', a.loc(kr), 'the key is dropped from the map only on the items.is_empty() edge',
                      'a key (with its remaining items) can be dropped from the map while items are still counted')
    # insertions
    ins = vec_sites(ctx, ('push', 'insert', 'extend', 'append', 'extend_from_slice'))
    ctx.floor('R13a', 'element-insertion sites on Vec<VerificationCell<CacheItem>>', len(ins), 2)
    for (a, pb, m) in ins:
        fn = a.path
        if m != 'push':
            ctx.fail('R13a', fn, m, a.loc(pb), 'insertion through Vec::%s has no enumerated accounting form' % m)
            continue
        el = a.arg(pb, 1)
        item = el[2][0] if el[0] == 'call' and sg(el[1]).split('::')[-1] in ('new_verified', 'new_unverified') else None
        if item is None:
            ctx.fail('R13a', fn, 'push', a.loc(pb), 'cannot establish what is pushed (%s)' % flow.show(el)[:80])
            continue
        want = ('field', item, 'len')
        eff = paths.collect_effects(a, a.cfg.reach0, lambda k: 'bytes' if k[-1] == 'total_bytes' else ('items' if k[-1] == 'num_items' else None))
        ub = [b for b, es in eff.items() for (c, s, t, e, ln) in es if c == 'bytes' and s == 1 and (e == want or (item[0] == 'agg' and e == dict(item[3]).get('len')))]
        ui = [b for b, es in eff.items() for (c, s, t, e, ln) in es if c == 'items' and s == 1 and t == '1']
        lp = innermost_loop(a, pb)
        def paired(us):
            us = [u for u in us if (not lp) or u in lp[1]]
            if not us:
                return False
            # the update dominates the push (within the iteration) ...
            start = lp[0] if lp else 0
            dom = pb not in a.cfg.reach([start], cut_edges=[e for u in us for e in a.cfg.out_edges(u)] + ([(x, lp[0]) for x in lp[1] if lp[0] in a.cfg.succ[x]] if lp else [])) or pb in us
            # ... and every non-error continuation of the update reaches the push
            errb = [b for (b, si, k, _) in a.ret_sites() if k == 'err']
            ends = set(a.cfg.returns) | ({lp[0]} if lp else set())
            leak = False
            for u in us:
                if u == pb:
                    continue
                r = a.cfg.reach_after([u], cut_edges=a.cfg.out_edges(pb), cut_blocks=errb)
                if r & ends:
                    leak = True
            return dom and not leak
        ctx.check(paired(ub), 'R13a', fn, 'push.bytes', a.loc(pb), 'the push of %s is paired with total_bytes += its len on every path' % flow.show(item)[:60],
                  'an item is inserted without adding its len to the byte total (or the add can happen without the insertion)')
        ctx.check(paired(ui), 'R13a', fn, 'push.items', a.loc(pb), 'the push is paired with num_items += 1 on every path',
                  'an item is inserted without num_items += 1 (or vice versa)')
    # initialize_state hands its accumulators to CacheState::new
    a = an(ctx.F.body(INIT))
    for nb in a.calls('chunk_cache::disk::CacheState::new'):
        n1, n2 = a.arg(nb, 1), a.arg(nb, 2)
        ok = (n1 == ('const', 0, 'usize') and n2 == ('const', 0, 'u64')) or (n1[0] == 'local' and n1[2] == 'num_items' and n2[0] == 'local' and n2[2] == 'total_bytes')
        if ok and n1[0] == 'local':
            # the locals are exactly the accumulators updated next to the push
            eff = paths.collect_effects(a, a.cfg.reach0, lambda k: k[0] if len(k) == 1 else None)
            names = {c for es in eff.values() for (c, s, t, e, ln) in es}
            ok = {'num_items', 'total_bytes'} <= names
        ctx.check(ok, 'R13a', INIT, 'CacheState::new', a.loc(nb), 'CacheState::new receives the loop\'s item and byte accumulators (or 0, 0 for a missing directory)')
    cs = an(ctx.F.body('chunk_cache::disk::CacheState::new'))
    rs = [e for (_, _, _, e) in cs.ret_sites()]
    ok = len(rs) == 1 and rs[0][0] == 'agg' and dict(rs[0][3]).get('num_items') == ('param', 2, 'num_items') and dict(rs[0][3]).get('total_bytes') == ('param', 3, 'total_bytes')
    ctx.check(ok, 'R13a', 'chunk_cache::disk::CacheState::new', 'aggregate', '-', 'CacheState::new stores its arguments in the namesake fields')


def paths_desc(st):
    return ', '.join('%s%s=%s' % (c, '+' if s > 0 else '-', t[:50]) for ((c, t, s), n) in sorted(st, key=str)) or 'none'


def check_accumulator(ctx, a, rb, lp, acc, errb):
    """accumulator form (put_impl): acc starts at 0, is subtracted from total_bytes exactly once after the loop, and
    num_items is decremented by the length of the vector that drives the removal loop."""
    fn = a.path
    head, blks = lp
    # acc definitions: one `const 0` outside the loop + adds inside
    l = [i for i, ld in enumerate(a.body['locals']) if ld.get('n') == acc]
    if len(l) > 1:
        # (an inlined helper and its caller may both have a variable of that name: the accumulator is the one updated in the loop)
        l = [i for i in l if any(d[1] in blks for d in a.flow.defs.get(i, []))]
    ok0 = False
    if len(l) == 1:
        ds = a.flow.defs.get(l[0], [])
        inits = [d for d in ds if d[0] == 'assign' and d[1] not in blks]
        ok0 = len(inits) == 1 and a.flow.rvalue(inits[0][3], 0) == ('const', 0, 'u64') and a.cfg.must_pass(head, via_blocks=[inits[0][1]]) or (len(inits) == 1 and inits[0][1] == head)
        others = [d for d in ds if d[1] in blks]
        ok0 = ok0 and all(paths.additive_update(a, a.blocks[d[1]]['s'][d[2]]) for d in others if d[0] == 'assign')
    ctx.check(ok0, 'R13a', fn, 'acc.init', a.loc(head), 'accumulator %s starts at 0 before the removal loop and is only added to inside it' % acc)
    exits = [(x, y) for x in blks for y in a.cfg.succ[x] if y not in blks and y not in errb]
    exit_targets = sorted({y for (_, y) in exits})
    eff = paths.collect_effects(a, a.cfg.reach0, lambda k: k[-1] if k[-1] in ('total_bytes', 'num_items') and len(k) == 2 else None)
    # stop at the guard release (mem::drop of the state guard) or return
    gs = [g for g in locks.guards(a, locks.SYNC_GUARDS) if flow.mentions(a.flow.local(g.local), lambda z: z[0] == 'field' and z[2] == 'state')]
    stops = set(a.cfg.returns)
    for g in gs:
        stops |= set(g.releases)
    res = paths.propagate_from(a, exit_targets, stops, {b: [(c, s, t) for (c, s, t, _, _) in es] for b, es in eff.items()}, cut_blocks=errb)
    term_expr = {(c, t): e for es in eff.values() for (c, s, t, e, ln) in es}
    states = set()
    for v in res.values():
        states |= v
    vec_idx = a.arg(rb, 1)
    rc = a.root_call(vec_idx)
    driver = None
    if rc is not None:
        # peel iterator adaptors down to the collection
        e = rc
        while e[0] == 'call' and sg(e[1]).split('::')[-1] in ('rev', 'into_iter', 'iter', 'enumerate', 'pop', 'drain', 'copied', 'cloned') and e[2]:
            e = e[2][0]
        driver = e
    okb = bool(states)
    why = ''
    for st in states:
        tb = [(t, s, n) for ((c, t, s), n) in st if c == 'total_bytes' and s == -1]
        ni = [(t, s, n) for ((c, t, s), n) in st if c == 'num_items' and s == -1]
        if not (len(tb) == 1 and tb[0][2] == 1 and term_expr[('total_bytes', tb[0][0])][0] == 'local' and term_expr[('total_bytes', tb[0][0])][2] == acc):
            okb, why = False, 'total_bytes is not decremented exactly once by %s after the removal loop (%s)' % (acc, tb)
            break
        cnt = term_expr[('num_items', ni[0][0])] if len(ni) == 1 and ni[0][2] == 1 else None
        if cnt is not None and cnt[0] == 'local' and _counts_removals(a, lp, rb, cnt):
            continue
        if cnt is None or not (cnt[0] == 'call' and sg(cnt[1]).endswith('Vec::len') and driver is not None and cnt[2][0] == driver):
            okb, why = False, 'num_items is not decremented exactly once by the length of the vector that drives the removal loop (%s)' % ni
            break
    if not okb and escapes_by_return(ctx, a, acc, driver, exits and exit_targets, errb):
        return
    ctx.check(okb, 'R13a', fn, 'acc.flush', a.loc(rb), 'after the loop total_bytes -= %s once and num_items -= len(removal index list) once on every path to the guard release' % acc, why)
    # the count must be taken before the index list is consumed and after it is complete: same vector, no pushes in between is implied by `move`


def _counts_removals(a, lp, rb, cnt):
    """cnt is a running counter of the removals of this loop: 0 before the loop, `+= 1` exactly once in every iteration
    that removes (after the removal), nowhere else"""
    head, blks = lp
    ds = a.flow.defs.get(cnt[1], [])
    inits = [d for d in ds if d[0] == 'assign' and d[1] not in blks]
    incs = [d for d in ds if d[1] in blks]
    if len(inits) != 1 or a.flow.rvalue(inits[0][3], 0)[:2] != ('const', 0) or len(incs) != 1 or incs[0][0] != 'assign':
        return False
    u = paths.additive_update(a, a.blocks[incs[0][1]]['s'][incs[0][2]])
    if not u or u[1] != 1 or u[2][:2] != ('const', 1):
        return False
    ib = incs[0][1]
    latches = [(x, head) for x in blks if head in a.cfg.succ[x]]
    # the increment happens only after a removal of the same iteration ...
    if ib != rb and ib in a.cfg.reach([head], cut_edges=set(a.cfg.out_edges(rb)) | set(latches)):
        return False
    # ... and every removal is followed by it before the iteration ends
    if ib != rb:
        r_ = a.cfg.reach_after([rb], cut_edges=set(a.cfg.out_edges(ib)) | set(latches))
        if any(x in r_ and (x, h) not in set(a.cfg.out_edges(ib)) for (x, h) in latches):
            return False
    return True


HELPER_SUMMARIES = {}   # helper qpath -> (index of removed-bytes component, index of removed-count component) in its Ok tuple


def escapes_by_return(ctx, a, acc, driver, exit_targets, errb):
    """depth-1 summary: a same-module helper may hand its two accumulators (bytes removed, items removed) back to the caller,
    which then owes the two decrements (checked at the call site by flush_at_callers)."""
    fn = a.path
    oks = [(b, si, e) for (b, si, k, e) in a.ret_sites() if k == 'ok']
    if len(oks) != 1:
        return False
    tup = oks[0][2][3][0][1]
    if tup[0] != 'agg' or tup[1] != 'tuple':
        return False
    bi = ci = None
    for i, (n, c) in enumerate(tup[3]):
        if c[0] == 'local' and c[2] == acc:
            bi = i
        if c[0] == 'call' and sg(c[1]).endswith('Vec::len') and driver is not None and c[2][0] == driver:
            ci = i
        if c[0] == 'local' and driver is not None:
            # a local holding len(driver)
            for d in a.flow.defs.get(c[1], []):
                if d[0] == 'call' and sg(d[2].get('fn', '')).endswith('Vec::len') and a.arg(d[1], 0) == driver:
                    ci = i
    if bi is None or ci is None:
        return False
    # no counter is touched in the helper itself
    eff = paths.collect_effects(a, a.cfg.reach0, lambda k: k[-1] if k[-1] in ('total_bytes', 'num_items') and len(k) == 2 else None)
    if eff:
        return False
    HELPER_SUMMARIES[fn] = (bi, ci)
    ctx.ok('R13a', fn, a.loc(oks[0][0], oks[0][1]), 'helper summary: returns (.. removed bytes at .%d, removed items at .%d ..) to its caller, which owes the counter updates' % (bi, ci))
    return flush_at_callers(ctx, fn, bi, ci)


def flush_at_callers(ctx, helper, bi, ci):
    sites = [(b, cb) for (b, cb) in ctx.cg.call_sites(helper) if b['crate'] == 'chunk_cache' and '::tests::' not in b['qpath']]
    if not sites:
        ctx.fail('R13a', helper, 'helper callers', '-', 'helper that removes tracked items is never called: cannot establish who updates the counters')
        return True
    for (b, cb) in sites:
        a = an(b)
        errb = [x for (x, si, k, _) in a.ret_sites() if k == 'err']
        eff = paths.collect_effects(a, a.cfg.reach0, lambda k: k[-1] if k[-1] in ('total_bytes', 'num_items') and len(k) == 2 else None)
        gs = [g for g in locks.guards(a, locks.SYNC_GUARDS) if flow.mentions(a.flow.local(g.local), lambda z: z[0] == 'field' and z[2] == 'state')]
        stops = set(a.cfg.returns)
        for g in gs:
            stops |= set(g.releases)
        res = paths.propagate_from(a, list(a.cfg.succ[cb]), stops, {bb: [(c, s, t) for (c, s, t, _, _) in es] for bb, es in eff.items()}, cut_blocks=errb)
        term_expr = {(c, t): e for es in eff.values() for (c, s, t, e, ln) in es}
        states = set()
        for v in res.values():
            states |= v
        ok = bool(states) and bool(gs) and gs[0].holds_at(cb)
        why = 'the helper is not called under the state guard' if not ok else ''
        for st in states:
            tb = [(t, n) for ((c, t, s), n) in st if c == 'total_bytes' and s == -1 and a.rooted_at(term_expr[(c, t)], cb)]
            ni = [(t, n) for ((c, t, s), n) in st if c == 'num_items' and s == -1 and a.rooted_at(term_expr[(c, t)], cb)]
            def comp(e):
                return e[2] if e[0] == 'field' else None
            if not (len(tb) == 1 and tb[0][1] == 1 and comp(term_expr[('total_bytes', tb[0][0])]) == str(bi)):
                ok, why = False, 'after calling the removal helper total_bytes is not decremented exactly once by the bytes it reports as removed (component .%d)' % bi
            if not (len(ni) == 1 and ni[0][1] == 1 and comp(term_expr[('num_items', ni[0][0])]) == str(ci)):
                ok, why = False, 'after calling the removal helper num_items is not decremented exactly once by the count it reports as removed (component .%d)' % ci
        ctx.check(ok, 'R13a', b['qpath'], 'helper flush', a.loc(cb), 'the caller subtracts the helper\'s removed bytes and removed count exactly once each, under the state guard, on every path', why)
    return True


def r13b(ctx):
    a = an(ctx.F.body(PUT))
    fn = PUT
    gs = [g for g in locks.guards(a, locks.SYNC_GUARDS) if flow.mentions(a.flow.local(g.local), lambda z: z[0] == 'field' and z[2] == 'state')]
    if not ctx.check(len(gs) == 1, 'R13b', fn, 'state guard', '-', 'put_impl acquires the state guard exactly once'):
        return
    g = gs[0]
    evs = a.calls(EVICT)
    eff = paths.collect_effects(a, a.cfg.reach0, lambda k: k[-1] if k[-1] == 'total_bytes' and len(k) == 2 else None)
    adds = [(b, e, ln) for b, es in eff.items() for (c, s, t, e, ln) in es if s == 1]
    if not ctx.check(len(evs) == 1 and len(adds) == 1, 'R13b', fn, 'sites', '-', 'one maybe_evict call and one total_bytes add in put_impl'):
        return
    ev, (ab, ae, aln) = evs[0], adds[0]
    ctx.check(a.cfg.must_pass(ab, via_blocks=[ev]) and ab != ev, 'R13b', fn, 'evict<add', '%s:%d' % (a.body['file'], aln), 'maybe_evict dominates the byte add',
              'the new item\'s bytes are added before eviction ran: the total can exceed the capacity after an insertion')
    ctx.check(a.arg(ev, 2) == ae, 'R13b', fn, 'expected_add', a.loc(ev), 'maybe_evict is asked to make room for exactly the length that is added (%s)' % flow.show(ae)[:70],
              'eviction makes room for a different amount than is added')
    ctx.check(g.holds_at(ev) and g.holds_at(ab), 'R13b', fn, 'one guard', a.loc(ev), 'eviction and add are inside one live range of the state guard (no other thread can insert in between)',
              'the state guard is not held continuously from eviction to the add')
    # the evict call receives this guard
    ctx.check(a.root_call(a.arg(ev, 1)) is not None and a.root_call(a.flow.local(g.local)) is not None and a.root_call(a.arg(ev, 1))[3] == a.root_call(a.flow.local(g.local))[3], 'R13b', fn, 'evict.state', a.loc(ev), 'maybe_evict operates on the held guard')
    ok, d = __import__('xl.core', fromlist=['propagation']).propagation(a, ev)
    ctx.check(ok, 'R13b', fn, 'evict?', a.loc(ev), 'maybe_evict errors propagate: ' + d)
    # file deletions only after release
    rms = a.calls('chunk_cache::disk::remove_file') + a.calls('std::fs::remove_file') + a.calls('chunk_cache::disk::check_remove_dir')
    # a deleter handed to an iterator consumer (`paths.into_iter().try_for_each(remove_file)`) deletes at the consumer call
    for cb in a.calls():
        for i_ in range(len(a.term(cb)['args'])):
            v = a.arg(cb, i_)
            if v[0] == 'fn':
                q = ctx.cg.norm.get(sg(v[1]))
                if sg(v[1]).endswith('remove_file') or (q and ctx.cg.reaches(q, lambda c: c.endswith('::remove_file'))):
                    rms.append(cb)
    bad = [r for r in rms if r in g.live]
    ctx.check(bool(rms) and not bad, 'R13b', fn, 'remove_file', a.loc(bad[0]) if bad else '-', '%d file deletions, all after the guard\'s release' % len(rms),
              'a file is deleted while the state guard is (possibly) held')
    # maybe_evict's own removals use the guard it was given; its loop condition compares against capacity+expected_add (not decided numerically)


def r13c(ctx):
    F = ctx.F
    writers = {}
    for p, b in F.bodies.items():
        if b['crate'] != 'chunk_cache':
            continue
        a = an(b)
        for f in ('num_items', 'total_bytes'):
            if a.stores_to_field(f, 'CacheState'):
                writers.setdefault(f, set()).add(p)
    exp = {PUT, EVICT, RMI}
    for f in ('num_items', 'total_bytes'):
        w = writers.get(f, set())
        ctx.check(w == exp, 'R13c', 'chunk_cache::disk', 'writers(%s)' % f, '-', 'CacheState.%s is written only in put_impl, maybe_evict, remove_item' % f,
                  'unexpected writer set of CacheState.%s: %s' % (f, sorted(w ^ exp)))
    # who builds CacheState
    builders = set()
    for p, b in F.bodies.items():
        if b['crate'] != 'chunk_cache':
            continue
        for blk in b['blocks']:
            for s in blk['s']:
                r = s.get('r')
                if r and r['k'] == 'agg' and r.get('adt') == 'chunk_cache::disk::CacheState':
                    builders.add(p)
    ctx.check(builders - {'<chunk_cache::disk::CacheState as core::clone::Clone>::clone'} == {'chunk_cache::disk::CacheState::new'}, 'R13c', 'chunk_cache::disk', 'builders', '-', 'CacheState is only built by CacheState::new (and the derived Clone)', 'CacheState built in %s' % sorted(builders))
    callers = {b['qpath'] for b, _ in ctx.cg.call_sites('chunk_cache::disk::CacheState::new') if '::tests::' not in b['qpath']}
    ctx.check(callers == {INIT}, 'R13c', 'chunk_cache::disk', 'CacheState::new callers', '-', 'CacheState::new is only called by initialize_state', 'CacheState::new called from %s' % sorted(callers))


def r13d(ctx):
    from .core import edges_where
    a = an(ctx.F.body('chunk_cache::disk::try_parse_cache_file'))
    fn = a.path
    is_len = lambda z: z[0] == 'call' and sg(z[1]).endswith('Metadata::len')
    is_cap = lambda z: z[0] == 'param' and z[1] == 2
    le = edges_where(a, lambda op, l, r: op == 'Le' and is_len(l) and is_cap(r))
    somes = []
    for (b, si, k, e) in a.ret_sites():
        if k == 'ok':
            for (sb, ssi, se) in a.flow.sources(e[3][0][1], (b, si)):
                if se[0] == 'agg' and se[2].endswith('Option::Some'):
                    somes.append((sb if sb is not None else b, ssi if sb is not None else si))
    ok = bool(le) and bool(somes) and all(a.cfg.must_pass(b, via_edges=le) for (b, _) in somes)
    ctx.check(ok, 'R13d', fn, 'admissible', a.loc(*somes[0]) if somes else '-', 'a file is tracked on the edge file length <= capacity (only longer files are left untracked)',
              'the scan leaves a file of admissible size (length <= capacity) untracked, or tracks one that is not: after re-open the counters no longer match the files on disk')
    # put has no size rejection of its own (the premise of the rule): no comparison of the item length with the capacity in put_impl
    p = an(ctx.F.body(PUT))
    rej = edges_where(p, lambda op, l, r: op in ('Gt', 'Ge', 'Lt', 'Le') and flow.mentions(l, lambda z: z[0] == 'field' and z[2] == 'len') and flow.mentions(r, lambda z: z[0] == 'field' and z[2] == 'capacity'))
    ctx.check(not rej, 'R13d', PUT, 'premise', '-', 'put_impl admits items of any length up to the capacity (no size rejection): the scan has to track the same set')
