"""C03 — pointer (hash, size) depends only on the bytes and the salt (dependency-slice clauses)."""
from .core import an, strip_generics as sg
from . import flow, paths
from . import rules_c05 as c05
from . import rules_c14 as c14

EXPLANATION = (
    'Decides: (R03a) the file hash is computed by file_node_hash from FileDeduper.chunk_hashes and the salt parameter only; chunk_hashes is written only by the empty construction and by one '
    'extend in process_chunks whose source is the `chunks` parameter (hash, data length per chunk), outside every loop and on every successful path — so it cannot be skipped or repeated depending '
    'on dedup answers, session contents or concurrency; (R03b) every non-empty result of file_node_hash passes with_salt(_, salt), which is a keyed hash with the salt as key; (R03c) the pointer '
    'file is built from hex(that hash) and from the accumulated total_bytes; add_data forwards every sub-slice of its input exactly once. Not decided: partition independence of the chunk list '
    '(C04 value-level), the numeric total (C14).')

FZ = 'deduplication::file_deduplication::FileDeduper::<DataInterfaceType>::finalize'
PC = c14.PC
FNH = 'merkledb::aggregate_hashes::file_node_hash'


def run(ctx):
    ctx.rule('R03a', 'file hash = file_node_hash(self.chunk_hashes, salt); chunk_hashes is extended exactly once per process_chunks from the chunks parameter, unconditionally')
    ctx.rule('R03b', 'file_node_hash salts every non-empty result with the salt parameter (keyed hash)')
    ctx.rule('R03c', 'pointer file built from that hash and the accumulated byte total; add_data forwards each sub-slice once')
    ctx.guarded('R03a', FZ, lambda: r03a(ctx))
    ctx.guarded('R03b', FNH, lambda: r03b(ctx))
    ctx.guarded('R03c', 'pointer', lambda: r03c(ctx))
    ctx.rule('R03d', 'chunk boundaries cannot depend on the call partition for structural reasons: resets on every cut and open-chunk-relative bounds (= C04-R04a, R04c)')
    from . import rules_c04 as c04
    from .rules_c11 import _Alias
    ctx.guarded('R03d', c04.NEXT, lambda: c04.r04(_Alias(_Alias(ctx, 'R04a', 'R03d'), 'R04b', 'R03d')))
    ctx.guarded('R03d', c04.NEXT, lambda: c04.r04c(_Alias(ctx, 'R04c', 'R03d')))
    ctx.guarded('R03d', c04.NEXT, lambda: c04.length_tracking(ctx, 'R03d'))
    ctx.rule('R03e', 'the size written to the pointer counts every matched chunk of a same-file dedup answer with its own length (= C05-R05d): otherwise the size depends on how the bytes were split across calls')
    ctx.guarded('R03e', c05.LOCAL, lambda: c05.r05d(_Alias(ctx, 'R05d', 'R03e')))
    ctx.rule('R03f', 'outside the chunker itself, data is fed with is_final = false and the stream is closed only by Chunker::finish in SingleFileCleaner::finish: a forced cut anywhere else makes the chunk boundaries (hence the hash) depend on how the bytes were split across calls')
    ctx.guarded('R03f', 'Chunker feeders', lambda: r03f(ctx))


def r03a(ctx):
    F = ctx.F
    a = an(F.body(FZ))
    fs = a.calls(FNH)
    if ctx.check(len(fs) == 1, 'R03a', FZ, 'file_node_hash', '-', 'one file_node_hash call in finalize'):
        x, s = a.arg(fs[0], 0), a.arg(fs[0], 1)
        ctx.check(flow.show(x) == 'self.chunk_hashes' and s[0] == 'param' and s[2] == 'file_hash_salt', 'R03a', FZ, 'args', a.loc(fs[0]), 'file_node_hash(self.chunk_hashes, file_hash_salt)',
                  'the file hash depends on something other than the chunk list and the salt: (%s, %s)' % (flow.show(x)[:50], flow.show(s)[:50]))
        rs = [e for (_, _, _, e) in a.ret_sites()]
        ctx.check(len(rs) == 1 and rs[0][0] == 'agg' and a.rooted_at(rs[0][3][0][1], fs[0]), 'R03a', FZ, 'ret.0', '-', 'finalize returns that hash as component 0')
    # writers of chunk_hashes
    writers = {}
    for p, b in F.bodies.items():
        if b['crate'] != 'deduplication' or '::tests::' in p:
            continue
        ab = an(b)
        for cb in ab.calls():
            t = ab.term(cb)
            if not t['args']:
                continue
            o = t['args'][0]
            pl = o.get('mv') or o.get('cp')
            if pl is None:
                continue
            ty = ab.flow.lty(pl['l'])
            if ty.startswith('&mut ') and flow.show(ab.arg(cb, 0)).endswith('self.chunk_hashes') and sg(t.get('fn', '')).split('::')[-1] not in ('reserve', 'reserve_exact', 'shrink_to_fit', 'shrink_to'):
                # (capacity management does not change the contents)
                writers.setdefault(p, []).append((cb, sg(t.get('fn', '')).split('::')[-1]))
        if ab.stores_to_field('chunk_hashes'):
            writers.setdefault(p, []).append((-1, 'store'))
    kinds = [m for (_, m) in writers.get(PC, [])]
    ok = set(writers) == {PC} and kinds in (['extend'], ['push'])
    ctx.check(ok, 'R03a', 'deduplication', 'writers(chunk_hashes)', '-', 'chunk_hashes is mutated only by one Vec::extend (or one push in a loop over the chunks) in process_chunks', 'writers: %s' % {k: [m for _, m in v] for k, v in writers.items()})
    if ok and kinds == ['push']:
        _r03a_push_form(ctx, F, writers)
        ok = False      # (the extend-form obligations below do not apply)
    nw = an(F.body('deduplication::file_deduplication::FileDeduper::<DataInterfaceType>::new'))
    rs = [e for (_, _, _, e) in nw.ret_sites()]
    ch = dict(rs[0][3]).get('chunk_hashes') if rs and rs[0][0] == 'agg' else None
    ctx.check(ch is not None and ch[0] == 'call' and sg(ch[1]).endswith('Vec::new'), 'R03a', nw.path, 'init', '-', 'a new deduper starts with an empty chunk_hashes')
    if ok:
        ap = an(F.body(PC))
        ex = writers[PC][0][0]
        src = ap.arg(ex, 1)
        oks = flow.mentions(src, lambda z: (z[0] == 'upvar' and z[1] == 'chunks') or (z[0] == 'param' and z[2] == 'chunks')) and not flow.mentions(src, lambda z: z[0] == 'local')
        ctx.check(oks, 'R03a', PC, 'extend.src', ap.loc(ex), 'the extension iterates the chunks parameter only (%s)' % flow.show(src)[:70], 'chunk_hashes is extended from something other than the chunks parameter: %s' % flow.show(src)[:80])
        # closure maps c -> (c.hash, c.data.len())
        cl = [z for z in flow.subtrees(src) if z[0] == 'agg' and z[1] == 'closure']
        okc = False
        if cl:
            cb = an(F.body(cl[0][2]))
            rr = [e for (_, _, _, e) in cb.ret_sites()]
            okc = len(rr) == 1 and rr[0][0] == 'agg' and rr[0][1] == 'tuple' and flow.show(rr[0][3][0][1]).endswith('.hash') and 'len(' in flow.show(rr[0][3][1][1]) and '.data' in flow.show(rr[0][3][1][1])
        ctx.check(okc, 'R03a', PC, 'extend.map', ap.loc(ex), 'each chunk contributes (its hash, its data length)')
        ctx.check(c05.loop_of(ap, ex) is None, 'R03a', PC, 'extend.noloop', ap.loc(ex), 'the extension is not inside any loop (cannot repeat)', 'the chunk-hash extension is inside a loop')
        oks_ = [(b, si) for (b, si, k, e) in ap.ret_sites() if k != 'err']
        ctx.check(bool(oks_) and all(ap.cfg.must_pass(b, via_blocks=[ex]) for (b, si) in oks_), 'R03a', PC, 'extend.allpaths', ap.loc(ex), 'every successful return of process_chunks passes the extension (cannot be skipped by a dedup decision)',
                  'a successful path of process_chunks skips recording the chunk hashes: the file hash then depends on what was deduplicated')


def _r03a_push_form(ctx, F, writers):
    """`for c in chunks { self.chunk_hashes.push((c.hash, c.data.len())) }`: the loop runs over the whole chunks parameter,
    every iteration pushes the pair of the element it visits, the loop is left only when the iterator is exhausted, and
    every successful return of process_chunks has passed it."""
    ap = an(F.body(PC))
    P = writers[PC][0][0]
    lp = c05.loop_of(ap, P)
    nest = [h for h, blks in ap.cfg.loops().items() if P in blks]
    if not ctx.check(lp is not None and len(nest) == 1, 'R03a', PC, 'extend.noloop', ap.loc(P), 'the push sits in exactly one loop (one pass over the chunks)', 'the chunk-hash push is not inside exactly one loop'):
        return
    head, blks = lp
    nx = [c for c in ap.calls('core::iter::traits::iterator::Iterator::next') if c in blks and c05.loop_of(ap, c)[0] == head]
    is_chunks = lambda z: (z[0] == 'upvar' and z[1] == 'chunks') or (z[0] == 'param' and z[2] == 'chunks')
    src_ok = False
    it = None
    if len(nx) == 1:
        it = ap.arg(nx[0], 0)
        srcs = [e_ for (_, _, e_) in ap.flow.sources(it)]
        src_ok = bool(srcs) and all(is_chunks(e_) or (e_[0] == 'call' and sg(e_[1]).split('::')[-1] in ('iter', 'into_iter') and len(e_[2]) == 1 and is_chunks(e_[2][0])) for e_ in srcs)
    ctx.check(src_ok, 'R03a', PC, 'extend.src', ap.loc(P), 'the loop iterates the whole chunks parameter', 'chunk_hashes is filled from something other than a pass over the whole chunks parameter')
    v = ap.arg(P, 1)
    okc = (v[0] == 'agg' and v[1] == 'tuple' and len(v[3]) == 2 and it is not None and v[3][0][1] == ('field', it, 'hash')
           and flow.mentions(v[3][1][1], lambda z: z == ('field', it, 'data')) and v[3][1][1][0] in ('len', 'call') and 'len' in flow.show(v[3][1][1]))
    ctx.check(okc, 'R03a', PC, 'extend.map', ap.loc(P), 'each chunk contributes (its hash, its data length)')
    ctx.check(c05.latches_guarded(ap, lp, ap.cfg.out_edges(P)), 'R03a', PC, 'extend.every', ap.loc(P), 'every iteration pushes (no chunk is skipped)', 'an iteration of the recording loop can skip the push')
    errb = ap.error_blocks()
    none = set(ap.none_edges(ap.dest_variant_edges(nx[0]))) if nx else set()
    exits = {(x, y) for x in blks for y in ap.cfg.succ[x] if y not in blks and y not in errb and not ap.blocks[y].get('cl')}
    ctx.check(bool(none) and exits <= none, 'R03a', PC, 'extend.exhaust', ap.loc(P), 'the recording loop is left only when the chunks are exhausted', 'the recording loop can stop before all chunks were recorded')
    oks_ = [(b, si) for (b, si, k, e) in ap.ret_sites() if k != 'err']
    ctx.check(bool(oks_) and bool(none) and all(ap.cfg.must_pass(b, via_edges=none) for (b, si) in oks_), 'R03a', PC, 'extend.allpaths', ap.loc(P), 'every successful return of process_chunks passes the recording loop (cannot be skipped by a dedup decision)',
              'a successful path of process_chunks skips recording the chunk hashes: the file hash then depends on what was deduplicated')


def r03b(ctx):
    F = ctx.F
    a = an(F.body(FNH))
    ws = a.calls('merkledb::aggregate_hashes::with_salt')
    rs = [(b, si, k, e) for (b, si, k, e) in a.ret_sites() if k != 'err']
    empty = __import__('xl.core', fromlist=['bool_edges']).bool_edges(a, lambda e: e[0] == 'call' and sg(e[1]).endswith('is_empty') and flow.mentions(e, lambda z: z[0] == 'param' and z[1] == 1))[0]
    # `match chunks { [] => .. }` / `chunks.len() == 0`
    empty = list(empty) + list(__import__('xl.core', fromlist=['edges_where']).edges_where(a, lambda op, l, r: op == 'Eq' and l[0] in ('len', 'call') and 'len' in flow.show(l) and flow.mentions(l, lambda z: z[0] == 'param' and z[1] == 1)
                                                                                      and not flow.mentions(l, lambda z: z[0] == 'local') and r[:2] == ('const', 0)))
    n = 0
    for (b, si, k, e) in rs:
        if ws and a.rooted_at(e, ws[0]):
            n += 1
            continue
        ctx.check(bool(empty) and a.cfg.must_pass(b, via_edges=empty), 'R03b', FNH, 'unsalted return', a.loc(b, si), 'the only unsalted result is the zero hash on the chunks.is_empty() edge (protocol name of the empty file)',
                  'file_node_hash can return an unsalted hash for a non-empty file')
    ctx.check(len(ws) == 1 and n == 1 and a.arg(ws[0], 1) == ('param', 2, 'salt'), 'R03b', FNH, 'with_salt', a.loc(ws[0]) if ws else '-', 'the non-empty result is with_salt(root, salt) with the salt parameter')
    if ws:
        ctx.check(flow.mentions(a.arg(ws[0], 0), lambda z: z[0] == 'call' and sg(z[1]).endswith('merge_to_file') and flow.mentions(z, lambda y: y == ('param', 1, 'chunks'))), 'R03b', FNH, 'root', a.loc(ws[0]), 'the salted value is the merkle root over the chunks parameter')
    w = an(F.body('merkledb::aggregate_hashes::with_salt'))
    kh = w.calls('blake3::keyed_hash')
    ok = len(kh) == 1 and w.arg(kh[0], 0) == ('param', 2, 'salt') and flow.mentions(w.arg(kh[0], 1), lambda z: z == ('param', 1, 'hash'))
    ctx.check(ok, 'R03b', w.path, 'keyed_hash', w.loc(kh[0]) if kh else '-', 'with_salt = blake3::keyed_hash(key = salt, hash bytes)')
    oks = [e for (_, _, k, e) in w.ret_sites() if k == 'ok']
    ctx.check(len(oks) == 1 and kh and flow.mentions(oks[0], lambda z: w.rooted_at(z, kh[0])), 'R03b', w.path, 'ret', '-', 'with_salt returns that keyed hash')


def r03c(ctx):
    c14.r14d(__import__('xl.rules_c11', fromlist=['_Alias'])._Alias(ctx, 'R14d', 'R03c'))
    add_data_forwards(ctx)


def add_data_forwards(ctx):
    """every byte handed to add_data reaches the chunker exactly once and in order (also used as R14f)"""
    F = ctx.F
    a = an(F.body('data::file_cleaner::SingleFileCleaner::add_data::{closure#0}'))
    fn = a.path
    calls = a.calls('data::file_cleaner::SingleFileCleaner::add_data_impl')
    ctx.floor('R03c', 'add_data_impl call sites in add_data', len(calls), 1)
    is_data = lambda y: y[0] in ('upvar', 'param') and (y[1] == 'data' or (len(y) > 2 and y[2] == 'data'))
    whole = [c for c in calls if is_data(a.arg(c, 1))]
    part = [c for c in calls if a.arg(c, 1)[0] == 'index']
    # blocks of `data.chunks(n)` visited by a loop
    from . import loops as L
    is_chunks = lambda z: z[0] == 'call' and sg(z[1]).split('::')[-1] == 'chunks' and z[2] and is_data(z[2][0])
    blockwise = []
    for c in calls:
        if c in whole or c in part:
            continue
        lp_ = c05.loop_of(a, c)
        wp_ = L.whole_pass(a, lp_, is_chunks) if lp_ else None
        if wp_ is not None and wp_['elem'](a.arg(c, 1)) and L.every_iteration_passes(a, lp_, c):
            blockwise.append(c)
    ok = len(whole) + len(part) + len(blockwise) == len(calls) and len(part) <= 1 and len(blockwise) <= 1 and (part or blockwise or whole)
    partial = sorted({sg(a.term(c)['fn']).split('::')[-1] for c in a.calls() if sg(a.term(c).get('fn', '')).split('::')[-1] in ('chunks_exact', 'rchunks', 'windows', 'split_at', 'split_first', 'split_last', 'take', 'skip', 'step_by')
                      and a.term(c)['args'] and flow.mentions(a.arg(c, 0), is_data)})
    why = ('the blocks come from data.%s(..), which does not cover every byte of the buffer once and in order: part of the input never reaches the chunker (or reaches it twice / out of order)' % partial[0]) if partial and not ok else None
    if ctx.check(ok, 'R03c', fn, 'forms', '-', 'every forward passes the whole buffer, the next block of a cursor over it, or the next block of data.chunks(n)', why):
      if part:
        p = part[0]
        lp = c05.loop_of(a, p)
        sl = a.arg(p, 1)
        rg = dict(sl[2][3]) if sl[2][0] == 'agg' else {}
        st, en = rg.get('start'), rg.get('end')
        okr = lp is not None and st is not None and st[0] == 'local' and en is not None
        # cursor: pos = next_pos after the call, each iteration
        if okr:
            ds = [d for d in a.flow.defs.get(st[1], []) if d[0] == 'assign']
            vals = [a.flow.rvalue(d[3], 0) for d in ds]
            okr = any(v == ('const', 0, 'usize') for v in vals) and any(flow.eqv(v, en) for v in vals if v[0] != 'const') and len(vals) == 2
            # the loop exits when pos >= data.len() and next_pos = min(pos + block, len)
            from .core import as_min
            mn = as_min(a, en)
            okr = okr and mn is not None and any(z[0] in ('len', 'call') and flow.mentions(z, is_data) and not flow.mentions(z, lambda y: y[0] == 'local') for z in mn)
        ctx.check(okr, 'R03c', fn, 'slices', a.loc(p), 'the sliced forward passes data[pos..next_pos], pos starts at 0 and becomes next_pos = min(pos + block, data.len()) each iteration (contiguous, no gap or overlap)')
        for c in calls:
            ctx.check(a.awaited(c) is not None, 'R03c', fn, 'awaited', a.loc(c), 'the forward is awaited in place (order preserved)')


def r03f(ctx):
    """C03c: `next_block(block, last_block_of_this_buffer)` cuts a chunk at the end of every large add_data call."""
    F = ctx.F
    CH = 'deduplication::chunking::Chunker::'
    feeds, fins = 0, 0
    for p, b in sorted(F.bodies.items()):
        if sg(p).startswith(CH) or '::tests::' in p or '::test' in p.split('::')[-1]:
            continue
        a = an(b)
        for c in a.calls(CH + 'next_block') + a.calls(CH + 'next'):
            feeds += 1
            v = a.arg(c, 2)
            ctx.check(_always_false(ctx, p, v), 'R03f', p, 'is_final', a.loc(c), 'the chunker is fed with is_final = false',
                      'the chunker is fed with is_final = %s: wherever that is true before the end of the file a chunk is cut at a position that depends on the caller\'s buffer sizes' % flow.show(v)[:60])
        for c in a.calls(CH + 'finish'):
            fins += 1
            ctx.check(sg(p).startswith('data::file_cleaner::SingleFileCleaner::finish'), 'R03f', p, 'finish', a.loc(c), 'the chunk stream is closed in SingleFileCleaner::finish',
                      'Chunker::finish (forced final cut) is called outside SingleFileCleaner::finish')
    ctx.floor('R03f', 'feeding call sites outside the chunker', feeds, 1)
    ctx.floor('R03f', 'Chunker::finish call sites', fins, 1)


def _always_false(ctx, p, v, depth=0):
    """v is the constant false, or a parameter of the enclosing function that every caller binds to the constant false"""
    if v == ('const', 0, 'bool'):
        return True
    if depth >= 2:
        return False
    F = ctx.F
    shell = p[:-len('::{closure#0}')] if p.endswith('::{closure#0}') else p
    sb = F.bodies.get(shell)
    if sb is None:
        return False
    name = v[1] if v[0] == 'upvar' else (v[2] if v[0] == 'param' and len(v) > 2 else None)
    idx = [i for i, l in enumerate(sb['locals'][:sb['argc'] + 1]) if i >= 1 and l.get('n') == name]
    if name is None or len(idx) != 1:
        return False
    sites = ctx.cg.call_sites(shell)
    if not sites:
        return False
    for (cb, bi) in sites:
        ca = an(cb)
        if not _always_false(ctx, cb['qpath'], ca.arg(bi, idx[0] - 1), depth + 1):
            return False
    return True
