"""C10 — consolidation and table bookkeeping (structural clauses; DESIGN.md §5 C10)."""
from .core import an, strip_generics as sg, success_edges, bool_edges, propagation
from . import flow
from . import rules_c05 as c05, paths

EXPLANATION = (
    'Decides the consolidation clauses of C10: (R10a) in consolidate_shards_in_directory every deleted path comes from the shards_to_remove list, every entry of that '
    'list is added only after the merged shard was written successfully, a shard whose hash is among the finished (returned) shards is never deleted, and every '
    'returned element is a loaded shard or the freshly written one; (R10b) the shard writers name their output by the hash of exactly the bytes they wrote '
    '(rename destination = shard_file_name(hash of the HashedWrite that received the data), source = the temp file opened); (R10c) in set_operation the running '
    'entry index advances by the number of records written on every arm and one lookup row is pushed per record group. '
    'Not decided: the set algebra of the two-way merge (which record wins; that outputs equal the union/difference), which depends on hash value comparisons.')

CONS = 'mdb_shard::session_directory::consolidate_shards_in_directory'
WOUT = 'mdb_shard::shard_file_handle::MDBShardFile::write_out_from_reader'
WDIR = 'mdb_shard::shard_in_memory::MDBInMemoryShard::write_to_directory'
WTMP = 'mdb_shard::shard_in_memory::MDBInMemoryShard::write_to_temp_shard_file'
SFOP = 'mdb_shard::set_operations::shard_file_op'


def run(ctx):
    ctx.rule('R10a', 'consolidate_shards_in_directory: delete only listed inputs, list them only after the merged shard was written, never delete a finished shard, return only loaded or freshly written shards')
    ctx.rule('R10b', 'shard writers rename the temp file they wrote to shard_file_name(hash of the bytes written)')
    ctx.rule('R10c', 'set_operation: the entry index advances by the records written; one lookup row per record group')
    ctx.guarded('R10a', CONS, lambda: r10a(ctx))
    ctx.guarded('R10b', 'writers', lambda: r10b(ctx))
    ctx.guarded('R10c', 'set_operation', lambda: r10c(ctx))
    ctx.rule('R10d', 'set_operation: the output position recorded in the footer advances by exactly the bytes written — each write\'s returned count is added, or a loop of uncounted writes is matched by one `+= trips * record size` that runs exactly when the loop runs')
    ctx.guarded('R10d', 'set_operation', lambda: r10d(ctx))
    ctx.rule('R10e', 'the two-way merge orders and identifies records by their full 256-bit hashes (Ord::cmp on the hashes themselves; same-file test on the full file_hash fields), never by a truncated key')
    ctx.guarded('R10e', 'merge step', lambda: __import__('xl.rules_r5', fromlist=['x']).merge_on_full_hash(ctx, 'R10e'))


def r10a(ctx):
    a = an(ctx.F.body(CONS))
    fn = CONS
    rms = a.calls('std::fs::remove_file')
    ws = a.calls(WOUT)
    if not ctx.check(len(rms) >= 1 and len(ws) == 1, 'R10a', fn, 'sites', '-', 'consolidation has one write_out_from_reader and at least one remove_file'):
        return
    w = ws[0]
    wok = success_edges(a, w)
    ok, d = propagation(a, w)
    ctx.check(ok, 'R10a', fn, 'write?', a.loc(w), 'write_out_from_reader errors propagate: ' + d)
    for rm in rms:
        arg = a.arg(rm, 0)
        vec = a.root_call(arg)
        if vec is not None and sg(vec[1]).split('::')[-1] == 'collect' and len(a.calls(WOUT)) == 1:
            # the removal list is built in one go (`group.iter().map(|s| (s.shard_hash, s.path..)).collect()`): it is
            # complete where it is built, so building it must follow the successful write of the round
            lpo = c05.loop_of(a, w)
            okc = bool(wok) and lpo is not None and c05.in_iteration_guarded(a, lpo, vec[3], wok)
            ctx.check(okc, 'R10a', fn, 'push<write', a.loc(vec[3]), 'the removal list is collected only after the merged shard was written successfully',
                      'the inputs are listed for deletion before (or without) the merged shard having been written: a stop in between loses their records')
            te, fe = bool_edges(a, lambda e: e[0] == 'call' and sg(e[1]).endswith('HashSet::contains') and same_elem(a, e[2][1], arg))
            ctx.check(bool(fe) and a.cfg.must_pass(rm, via_edges=fe), 'R10a', fn, 'contains-guard', a.loc(rm), 'the deletion is dominated by the not-contained edge of finished_shard_hashes.contains(its hash)',
                      'a shard that is also a finished (returned) shard can be deleted')
            ins = [i for i in a.calls('std::collections::hash::set::HashSet::insert') if a.rooted_at(a.arg(i, 1), w)]
            ctx.check(bool(ins) and c05.in_iteration_guarded(a, lpo, rm, [e_ for i in ins for e_ in a.cfg.out_edges(i)]), 'R10a', fn, 'finished.insert', a.loc(ins[0]) if ins else '-',
                      'the merged shard\'s hash enters finished_shard_hashes before its inputs are deleted')
            okp, d = propagation(a, rm)
            ctx.check(okp, 'R10a', fn, 'remove?', a.loc(rm), 'remove_file errors propagate: ' + d)
            continue
        if not (vec is not None and sg(vec[1]).endswith('Vec::new')):
            # direct form: no intermediate list — the deletion loop walks the merged inputs itself.  Then the deletion
            # itself must come after the successful write of this round, after the merged hash entered the finished
            # set, and behind the not-contained guard for the same element.
            lpo = c05.loop_of(a, w)
            direct = arg[0] == 'field' and arg[2] == 'path' and lpo is not None
            okd = direct and bool(wok) and c05.in_iteration_guarded(a, lpo, rm, wok)
            ctx.check(okd, 'R10a', fn, 'remove_file.arg', a.loc(rm), 'the deleted path is the path of an input shard, deleted only after the merged shard was written successfully in this round (%s)' % flow.show(arg)[:60],
                      'cannot establish where the deleted path comes from, or an input shard can be deleted before (or without) the merged shard having been written: %s' % flow.show(arg)[:80])
            if okd:
                te, fe = bool_edges(a, lambda e: e[0] == 'call' and sg(e[1]).endswith('HashSet::contains') and same_elem(a, e[2][1], arg))
                ctx.check(bool(fe) and a.cfg.must_pass(rm, via_edges=fe), 'R10a', fn, 'contains-guard', a.loc(rm), 'the deletion is dominated by the not-contained edge of finished_shard_hashes.contains(its hash)',
                          'a shard that is also a finished (returned) shard can be deleted')
                ins = [i for i in a.calls('std::collections::hash::set::HashSet::insert') if a.rooted_at(a.arg(i, 1), w)]
                ctx.check(bool(ins) and c05.in_iteration_guarded(a, lpo, rm, [e_ for i in ins for e_ in a.cfg.out_edges(i)]), 'R10a', fn, 'finished.insert', a.loc(ins[0]) if ins else '-',
                          'the merged shard\'s hash enters finished_shard_hashes before its inputs are deleted')
                okp, d = propagation(a, rm)
                ctx.check(okp, 'R10a', fn, 'remove?', a.loc(rm), 'remove_file errors propagate: ' + d)
            continue
        vb = vec[3]
        pushes = [p for p in a.calls() if sg(a.term(p).get('fn', '')).split('::')[-1] in ('push', 'extend', 'extend_from_slice', 'append') and a.term(p)['args']
                  and a.root_call(a.arg(p, 0)) is not None and a.root_call(a.arg(p, 0))[3] == vb]
        ctx.check(len(pushes) >= 1, 'R10a', fn, 'shards_to_remove.push', '-', '%d push site(s) fill the removal list' % len(pushes))
        for p in pushes:
            okp = bool(wok) and a.cfg.must_pass(p, via_edges=wok)
            ctx.check(okp, 'R10a', fn, 'push<write', a.loc(p), 'a shard is listed for deletion only after the merged shard was written successfully',
                      'an input shard can be listed for deletion before (or without) the merged shard having been written: a stop in between loses its records')
            el = a.arg(p, 1)
        # guarded by not-contained
        te, fe = bool_edges(a, lambda e: e[0] == 'call' and sg(e[1]).endswith('HashSet::contains') and same_elem(a, e[2][1], arg))
        ctx.check(bool(fe) and a.cfg.must_pass(rm, via_edges=fe), 'R10a', fn, 'contains-guard', a.loc(rm), 'the deletion is dominated by the not-contained edge of finished_shard_hashes.contains(its hash)',
                  'a shard that is also a finished (returned) shard can be deleted')
        # the written shard's hash is in the finished set before any deletion of that round
        ins = [i for i in a.calls('std::collections::hash::set::HashSet::insert') if a.rooted_at(a.arg(i, 1), w)]
        ctx.check(bool(ins) and all(a.cfg.must_pass(p, via_blocks=ins) for p in pushes), 'R10a', fn, 'finished.insert', a.loc(ins[0]) if ins else '-', 'the merged shard\'s hash enters finished_shard_hashes before its inputs are listed')
        okp, d = propagation(a, rm)
        ctx.check(okp, 'R10a', fn, 'remove?', a.loc(rm), 'remove_file errors propagate: ' + d)
    # returned list
    oks = [(b, si, e) for (b, si, k, e) in a.ret_sites() if k == 'ok']
    for (b, si, e) in oks:
        v = e[3][0][1]
        rv = a.root_call(v)
        if not ctx.check(rv is not None and sg(rv[1]).endswith('Vec::with_capacity'), 'R10a', fn, 'ret', a.loc(b, si), 'the returned list is the local finished_shards vector'):
            continue
        fps = [p for p in a.calls('alloc::vec::Vec::push') if a.root_call(a.arg(p, 0)) is not None and a.root_call(a.arg(p, 0))[3] == rv[3]]
        for p in fps:
            el = a.arg(p, 1)
            okk = a.rooted_at(el, w) or flow.mentions(el, lambda z: z[0] == 'call' and sg(z[1]).endswith('MDBShardFile::load_all_valid'))
            ctx.check(okk, 'R10a', fn, 'finished.push', a.loc(p), 'returned element is a loaded shard or the freshly written merged shard (%s)' % flow.show(el)[:50])
        ctx.floor('R10a', 'pushes into the returned shard list', len(fps), 2)


def same_elem(a, x, y):
    """x and y are sibling components (.0 / .1) of the same iteration payload"""
    def base(e):
        while e[0] in ('field',):
            e = e[1]
        return e
    bx, by = base(x), base(y)
    return bx == by or (a.root_call(bx) is not None and a.root_call(by) is not None and a.root_call(bx)[3] == a.root_call(by)[3])


def r10b(ctx):
    F = ctx.F
    # write_out_from_reader
    a = an(F.body(WOUT))
    rn = a.calls('std::fs::rename')
    op = a.calls('std::fs::OpenOptions::open')
    if ctx.check(len(rn) == 1 and len(op) == 1, 'R10b', WOUT, 'sites', '-', 'one open and one rename'):
        src, dst = a.arg(rn[0], 0), a.arg(rn[0], 1)
        ctx.check(src == a.arg(op[0], 1), 'R10b', WOUT, 'rename.src', a.loc(rn[0]), 'rename source is the temp path that was opened for writing')
        hw = [h for h in a.calls('merklehash::data_hash::HashedWrite::new') if a.rooted_at(a.arg(h, 0), op[0])]
        cp = [c for c in a.calls('std::io::copy::copy') + a.calls('std::io::copy') if hw and a.rooted_at(a.arg(c, 1), hw[0])]
        ctx.check(len(hw) == 1 and len(cp) >= 1, 'R10b', WOUT, 'HashedWrite', a.loc(op[0]), 'the data is copied into a HashedWrite wrapping the opened temp file')
        okd = bool(hw) and flow.mentions(dst, lambda z: z[0] == 'call' and sg(z[1]).endswith('utils::shard_file_name') and
                                         flow.mentions(z, lambda y: y[0] == 'call' and sg(y[1]).endswith('HashedWrite::hash') and a.rooted_at(y[2][0], hw[0])))
        ctx.check(okd, 'R10b', WOUT, 'rename.dst', a.loc(rn[0]), 'rename destination = shard_file_name(hash of that HashedWrite)',
                  'the output file is not named by the hash of the bytes written: %s' % flow.show(dst)[:90])
        ctx.check(bool(cp) and a.cfg.must_pass(rn[0], via_blocks=cp), 'R10b', WOUT, 'copy<rename', a.loc(rn[0]), 'the copy completes before the rename')
    # write_to_directory + write_to_temp_shard_file
    a = an(F.body(WDIR))
    rn = a.calls('std::fs::rename')
    wt = a.calls(WTMP)
    if ctx.check(len(rn) == 1 and len(wt) == 1, 'R10b', WDIR, 'sites', '-', 'one write_to_temp_shard_file and one rename'):
        ctx.check(a.arg(rn[0], 0) == a.arg(wt[0], 1), 'R10b', WDIR, 'rename.src', a.loc(rn[0]), 'rename source is the temp path handed to write_to_temp_shard_file')
        dst = a.arg(rn[0], 1)
        ctx.check(flow.mentions(dst, lambda z: z[0] == 'call' and sg(z[1]).endswith('utils::shard_file_name') and a.rooted_at(z[2][0], wt[0])), 'R10b', WDIR, 'rename.dst', a.loc(rn[0]),
                  'rename destination = shard_file_name(hash returned by write_to_temp_shard_file)', 'the shard file is not named by its content hash: %s' % flow.show(dst)[:90])
        se = success_edges(a, wt[0])
        ctx.check(bool(se) and a.cfg.must_pass(rn[0], via_edges=se), 'R10b', WDIR, 'write<rename', a.loc(rn[0]), 'the rename is dominated by the success edge of the write')
    a = an(F.body(WTMP))
    op = a.calls('std::fs::OpenOptions::open')
    hw = [h for h in a.calls('merklehash::data_hash::HashedWrite::new') if op and a.rooted_at(a.arg(h, 0), op[0])]
    ser = a.calls('mdb_shard::shard_format::MDBShardInfo::serialize_from')
    oks = [(b, si, e) for (b, si, k, e) in a.ret_sites() if k == 'ok']
    good = len(op) == 1 and len(hw) == 1 and len(ser) == 1 and len(oks) == 1
    if ctx.check(good, 'R10b', WTMP, 'sites', '-', 'open, HashedWrite::new, serialize_from, one Ok return'):
        ctx.check(a.arg(op[0], 1)[0] == 'param', 'R10b', WTMP, 'open.path', a.loc(op[0]), 'the file opened is the temp path parameter')
        ctx.check(flow.mentions(a.arg(ser[0], 0), lambda z: a.rooted_at(z, hw[0])), 'R10b', WTMP, 'serialize.target', a.loc(ser[0]), 'the shard is serialised into (a BufWriter over) that HashedWrite')
        e = oks[0][2][3][0][1]
        ctx.check(e[0] == 'call' and sg(e[1]).endswith('HashedWrite::hash') and a.rooted_at(e[2][0], hw[0]), 'R10b', WTMP, 'ret', a.loc(oks[0][0], oks[0][1]), 'the returned hash is the hash of that HashedWrite')
        se = success_edges(a, ser[0])
        ctx.check(bool(se) and a.cfg.must_pass(oks[0][0], via_edges=se), 'R10b', WTMP, 'serialize<ret', a.loc(oks[0][0]), 'Ok is dominated by the success edge of serialize_from')
    # shard_file_op: caller names the file, returned hash is the content hash
    a = an(F.body(SFOP))
    op = a.calls('std::fs::OpenOptions::open')
    rn = a.calls('std::fs::rename')
    hw = [h for h in a.calls('merklehash::data_hash::HashedWrite::new') if op and a.rooted_at(a.arg(h, 0), op[0])]
    oks = [(b, si, e) for (b, si, k, e) in a.ret_sites() if k == 'ok']
    if ctx.check(len(op) == 1 and len(rn) == 1 and len(hw) == 1 and len(oks) == 1, 'R10b', SFOP, 'sites', '-', 'open, HashedWrite::new, rename, one Ok'):
        ctx.check(a.arg(rn[0], 0) == a.arg(op[0], 1) and a.arg(rn[0], 1) == ('param', 3, 'out'), 'R10b', SFOP, 'rename', a.loc(rn[0]), 'rename moves the temp file that was written onto the caller\'s `out`')
        tup = oks[0][2][3][0][1]
        h = tup[3][0][1] if tup[0] == 'agg' else ('top',)
        ctx.check(h[0] == 'call' and sg(h[1]).endswith('HashedWrite::hash') and a.rooted_at(h[2][0], hw[0]), 'R10b', SFOP, 'ret.hash', a.loc(oks[0][0], oks[0][1]), 'the returned hash is the hash of the bytes written')
        so = a.calls('mdb_shard::set_operations::set_operation')
        ctx.check(len(so) == 1 and flow.mentions(a.arg(so[0], 2), lambda z: a.rooted_at(z, hw[0])), 'R10b', SFOP, 'target', a.loc(so[0]) if so else '-', 'set_operation writes into (a BufWriter over) that HashedWrite')


def r10c(ctx):
    a = an(ctx.F.one('mdb_shard::set_operations::set_operation'))
    set_operation_bookkeeping(ctx, a, 'R10c')
    section_end_only_at_bookend(ctx, a, 'R10c')


def section_end_only_at_bookend(ctx, a, rule):
    """The record loaders of set_operation (`load_next` closures returning Result<Option<header>>) report the end of a
    section — Ok(None) — only on the is_bookend() edge of a header they have just read from the reader: an input's
    section must not be cut short by anything else (a footer count, a flag), or its remaining records are lost."""
    n = 0
    units = list(ctx.F.children(a.body)) + [ctx.F.inlined_bodies[q] for q in dict.fromkeys(a.body.get('inlined', [])) if q in getattr(ctx.F, 'inlined_bodies', {})]
    for cb in units:
        if 'core::option::Option<' not in cb['locals'][0]['ty'] or 'core::result::Result<' not in cb['locals'][0]['ty']:
            continue
        ac = an(cb)
        des = [c for c in ac.calls() if sg(ac.term(c).get('fn', '')).endswith('::deserialize')]
        if not des:
            continue
        n += 1
        te, fe = bool_edges(ac, lambda e: e[0] == 'call' and sg(e[1]).endswith('is_bookend') and any(ac.rooted_at(e[2][0], d) for d in des))
        for (b, si, k, e) in ac.ret_sites():
            if k != 'ok':
                continue
            for (sb, ssi, se) in ac.flow.sources(e[3][0][1], (b, si)):
                if se[0] == 'agg' and se[2].endswith('Option::None'):
                    site = sb if sb is not None else b
                    ctx.check(bool(te) and ac.cfg.must_pass(site, via_edges=te), rule, cb['qpath'], 'end of section', ac.loc(site, ssi if sb is not None else si),
                              'the loader reports the end of the section only on the is_bookend() edge of a header it has read',
                              'a record loader of set_operation can report the end of a section without having reached the bookend: the remaining records of that input are silently dropped')
    ctx.floor(rule, 'record loaders (load_next closures or helper functions) in set_operation', n, 2)


def _innermost_loop(a, b):
    best = None
    for h, blks in a.cfg.loops().items():
        if b in blks and (best is None or len(blks) < len(best[1])):
            best = (h, blks)
    return best


def set_operation_bookkeeping(ctx, a, rule):
    fn = a.path
    pushes = a.calls('alloc::vec::Vec::push')
    rec_pushes = []   # pushes of (truncated hash, current_index)
    chunk_pushes = []
    for p in pushes:
        el = a.arg(p, 1)
        if el[0] != 'agg' or len(el[3]) != 2:
            continue
        idx = el[3][1][1]
        if idx[0] == 'local' and idx[2] == 'current_index' or (idx[0] == 'local' and paths.expr_place_key(idx) is not None and el[3][0][1][0] == 'call' and sg(el[3][0][1][1]).endswith('truncate_hash') and idx[0] == 'local'):
            rec_pushes.append(p)
        elif idx[0] == 'agg':
            chunk_pushes.append(p)
    ctx.floor(rule, 'record-group lookup pushes in set_operation', len(rec_pushes), 3)
    ctx.floor(rule, 'chunk lookup pushes in set_operation', len(chunk_pushes), 1)
    loops_done = set()
    for p in rec_pushes:
        lp = _innermost_loop(a, p)
        if lp is None:
            ctx.fail(rule, fn, 'push', a.loc(p), 'lookup push outside any loop: cannot establish per-record bookkeeping')
            continue
        head, blks = lp
        if head in loops_done:
            continue
        loops_done.add(head)
        idx_local = a.arg(p, 1)[3][1][1]
        idx_key = paths.expr_place_key(idx_local)
        vec_block = a.root_call(a.arg(p, 0))[3] if a.root_call(a.arg(p, 0)) else None
        eff = {}
        exprs = {}
        for b in blks:
            t = a.blocks[b]['t']
            if t['k'] == 'call':
                fnn = sg(t.get('fn', ''))
                if b in rec_pushes and a.root_call(a.arg(b, 0)) and a.root_call(a.arg(b, 0))[3] == vec_block:
                    h = a.arg(b, 1)[3][0][1]
                    eff.setdefault(b, []).append(('push', 1, flow.show(h)))
                    exprs[('push', flow.show(h))] = (h, b)
                elif fnn.endswith('SequenceHeader::serialize'):
                    h = a.arg(b, 0)
                    eff.setdefault(b, []).append(('hdr', 1, flow.show(h)))
                    exprs[('hdr', flow.show(h))] = (h, b)
            for si, st in enumerate(a.blocks[b]['s']):
                u = paths.additive_update(a, st)
                if u and u[0] == idx_key:
                    eff.setdefault(b, []).append(('idx', u[1], flow.show(u[2])))
                    exprs[('idx', flow.show(u[2]))] = (u[2], b)
        latches = [(x, head) for x in blks if head in a.cfg.succ[x]]
        errb = [b for (b, si, k, _) in a.ret_sites() if k == 'err']
        res = paths.propagate_from(a, [head], [], eff, cut_blocks=errb, stop_edges=latches)
        states = set()
        for v in res.values():
            states |= v
        ok_all = bool(states)
        nrec = 0
        for st in states:
            pu = [(t, n) for ((c, t, s), n) in st if c == 'push']
            hd = [(t, n) for ((c, t, s), n) in st if c == 'hdr']
            ix = [(t, n) for ((c, t, s), n) in st if c == 'idx']
            if not pu and not hd and not ix:
                continue
            why = None
            if not (len(pu) == 1 and len(hd) == 1 and len(ix) == 1 and pu[0][1] == hd[0][1] == ix[0][1] == 1):
                why = 'a path writes %d record header(s), pushes %d lookup row(s) and advances the index %d time(s)' % (sum(n for _, n in hd), sum(n for _, n in pu), sum(n for _, n in ix))
            else:
                H, hb = exprs[('hdr', hd[0][0])]
                ph, pb = exprs[('push', pu[0][0])]
                ie, ib = exprs[('idx', ix[0][0])]
                # pushed hash belongs to the written header
                hash_of = ph[2][0] if ph[0] == 'call' and ph[2] else ph
                base = hash_of[1] if hash_of[0] == 'field' else None
                belongs = base == H or (H[0] == 'call' and sg(H[1]).endswith('SequenceHeader::new') and H[2] and H[2][0] == hash_of)
                if not belongs:
                    why = 'the lookup row\'s hash (%s) is not the hash of the header written (%s)' % (flow.show(hash_of)[:50], flow.show(H)[:50])
                # index advance = 1 + records following H
                good = ie[0] == 'bin' and ie[1] == 'Add' and ((ie[2] == ('const', 1, 'u32') and counts_records_of(ie[3], H)) or (ie[3] == ('const', 1, 'u32') and counts_records_of(ie[2], H)))
                if not good and why is None:
                    why = 'the entry index advances by %s, not by 1 + the number of records following the header written (%s)' % (flow.show(ie)[:80], flow.show(H)[:40])
                # the row is pushed before the index moves on
                if why is None and ib != pb:
                    cut = a.cfg.out_edges(pb)
                    if ib in a.cfg.reach([head], cut_edges=cut + latches):
                        why = 'the index can advance before the lookup row (which records the index) is pushed'
                nrec += 1
            if why:
                ok_all = False
                ctx.fail(rule, fn, 'bookkeeping@%d' % a.line(head), a.loc(head), why + ' [path-state: %s]' % ', '.join('%s=%s' % (c, t[:40]) for ((c, t, s), n) in sorted(st, key=str)))
        if ok_all:
            ctx.ok(rule, fn, a.loc(head), 'loop at line %d: on each of %d path-states one header written <=> one lookup row with that header\'s hash <=> index += 1 + records following it (%d record-writing states)' % (a.line(head), len(states), nrec))
    # chunk rows: one per chunk serialised, inside a loop bounded by the written header's num_entries, index pair = (current_index, j)
    for p in chunk_pushes:
        lp = _innermost_loop(a, p)
        el = a.arg(p, 1)
        okc = lp is not None
        why = 'chunk lookup push outside a loop'
        if okc:
            head, blks = lp
            sers = [b for b in blks if a.blocks[b]['t']['k'] == 'call' and sg(a.blocks[b]['t'].get('fn', '')).endswith('CASChunkSequenceEntry::serialize')]
            okc = len(sers) == 1 and el[3][0][1][0] == 'call' and el[3][0][1][2] and el[3][0][1][2][0][0] == 'field' and el[3][0][1][2][0][1] == a.arg(sers[0], 0)
            why = 'the chunk row\'s hash is not the hash of the chunk serialised in the same iteration'
            if okc:
                pair = el[3][1][1]
                j = pair[3][1][1]
                i0 = pair[3][0][1]
                okc = i0[0] == 'local' and i0[2] == 'current_index'
                why = 'chunk row does not record the xorb\'s entry index'
        ctx.check(okc, rule, fn, 'chunk rows', a.loc(p), 'one chunk lookup row (hash of the chunk written, (xorb index, position)) per chunk serialised', why)
    # the chunk table is sorted before it is written
    sorts = [c for c in a.calls() if 'sort' in sg(a.term(c).get('fn', '')).split('::')[-1]]
    for p in chunk_pushes:
        vb = a.root_call(a.arg(p, 0))
        ss = [c for c in sorts if vb is not None and a.root_call(a.arg(c, 0)) is not None and a.root_call(a.arg(c, 0))[3] == vb[3]]
        w32 = [w for w in a.calls('utils::serialization_utils::write_u32') if True]
        # writes of the chunk table = write_u64 calls whose value comes from iterating this vector
        wr = [w for w in a.calls('utils::serialization_utils::write_u64') if vb is not None and a.root_call(a.arg(w, 1)) is not None and a.root_call(a.arg(w, 1))[3] == vb[3]]
        ctx.check(len(ss) >= 1 and bool(wr) and all(a.cfg.must_pass(w, via_blocks=ss) for w in wr), rule, fn, 'chunk table sorted', a.loc(ss[0]) if ss else '-',
                  'the chunk lookup vector is sorted before its rows are written', 'the chunk lookup table can be written unsorted: interpolation search over it misses entries')


def counts_records_of(e, H):
    """e is `H.num_entries` or `num_info_entry_following(H)` (possibly cast)"""
    if e[0] == 'field' and e[2] == 'num_entries' and e[1] == H:
        return True
    if e[0] == 'call' and sg(e[1]).endswith('num_info_entry_following') and e[2] and e[2][0] == H:
        return True
    return False


def r10d(ctx):
    """C10c: `out_offset += size_of::<FileVerificationEntry>()` once for a loop that writes one entry per segment."""
    from . import posacct
    posacct.learn_sizes(ctx.F)
    a = an(ctx.F.body('mdb_shard::set_operations::set_operation'))
    fn = a.path
    r = posacct.Acct(a, lambda z: z[0] == 'param' and z[2] == 'out', 'out_offset').run()
    ctx.floor('R10d', 'writes whose returned count is added to the position', r.stats['direct'], 8)
    ctx.floor('R10d', 'uncounted writes in loops matched by a bulk position update', r.stats['bulk'], 6)
    ctx.floor('R10d', 'position updates', r.stats['adds'], 12)
    ctx.check(not r.viol, 'R10d', fn, 'position', a.loc(r.viol[0][0], r.viol[0][1]) if r.viol else '-',
              'all %d writes are accounted for: %d add their returned count, %d are covered by a matching bulk update of their loop, %d (the footer) come after the last use of the position'
              % (r.stats['direct'] + r.stats['bulk'] + r.stats['final'], r.stats['direct'], r.stats['bulk'], r.stats['final']), r.viol[0][2] if r.viol else None)
    for v in r.viol[1:]:
        ctx.check(False, 'R10d', fn, 'position', a.loc(v[0], v[1]), '', v[2])
