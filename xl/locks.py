"""K7 guard regions: live ranges of lock guards on extracted MIR."""
from . import cfg as cfgm

SYNC_GUARDS = ('lock_api::rwlock::RwLockWriteGuard<', 'lock_api::rwlock::RwLockReadGuard<', 'lock_api::mutex::MutexGuard<',
               'std::sync::poison::mutex::MutexGuard<', 'std::sync::poison::rwlock::RwLockReadGuard<',
               'std::sync::poison::rwlock::RwLockWriteGuard<', 'lock_api::rwlock::RwLockUpgradableReadGuard<')
ASYNC_GUARDS = ('tokio::sync::mutex::MutexGuard<', 'tokio::sync::rwlock::read_guard::RwLockReadGuard<',
                'tokio::sync::rwlock::write_guard::RwLockWriteGuard<', 'tokio::sync::mutex::OwnedMutexGuard<',
                'tokio::sync::semaphore::OwnedSemaphorePermit', 'tokio::sync::semaphore::SemaphorePermit<')


class Guard:
    """One lock guard value, possibly handed from local to local by plain moves (`_12 = move _3`).
    `live` over-approximates where the guard may still be held (used for "no guard across a yield");
    `holds_at` under-approximates (used for "X happens under the lock")."""

    def __init__(self, a, chain, acq_block, acq_si):
        self.a = a
        self.chain = chain
        self.local = chain[0]
        self.acq = (acq_block, acq_si)
        self.ty = a.flow.lty(chain[0])
        cfg = a.cfg
        sure, maybe = [], []
        for l in chain:
            moves = []   # blocks after which `l` no longer owns the guard
            drops = []
            for b, blk in enumerate(a.blocks):
                if blk.get('cl') or b not in cfg.reach0:
                    continue
                for si, st in enumerate(blk['s']):
                    r = st.get('r')
                    if r and r['k'] == 'use' and 'mv' in r['a'] and r['a']['mv']['l'] == l and 'p' not in r['a']['mv']:
                        moves.append((b, 'stmt'))
                t = blk['t']
                if t['k'] == 'drop' and t['p']['l'] == l and 'p' not in t['p']:
                    drops.append(b)
                elif t['k'] == 'call':
                    for o in t['args']:
                        if 'mv' in o and o['mv']['l'] == l and 'p' not in o['mv']:
                            moves.append((b, 'call'))
            # a move into a call consumes the guard (mem::drop, or handing it to someone else): a release
            for (b, k) in moves:
                if k == 'call':
                    sure.append(b)
            stmt_moves = [b for (b, k) in moves if k == 'stmt']
            after_move = cfg.reach_after(stmt_moves) | set(stmt_moves) if stmt_moves else set()
            for b in drops:
                if b not in after_move:
                    sure.append(b)
                elif b in stmt_moves:
                    pass  # the move precedes this block's terminator: dropping a moved-from local is a no-op
                else:
                    # moved-from on some or all paths: a no-op there. Is there a path to b avoiding every move?
                    cut = []
                    for m in stmt_moves:
                        cut += cfg.out_edges(m)
                    starts = list(cfg.succ[acq_block]) if acq_si == cfgm.TERM else [acq_block]
                    if acq_block in stmt_moves and acq_si != cfgm.TERM:
                        starts = []
                    if b in cfg.reach(starts, cut_edges=cut):
                        maybe.append(b)
        self.releases = sorted(set(sure))
        self.maybe_releases = sorted(set(maybe) - set(sure))
        self.moved = []

        def live_with(rel):
            cut = set()
            for r in rel:
                cut.update(cfg.out_edges(r))
            if acq_si == cfgm.TERM:
                return cfg.reach(list(cfg.succ[acq_block]), cut_edges=cut)
            return cfg.reach([acq_block], cut_edges=cut)
        self.live = live_with(self.releases)                               # may be held (over-approximation)
        self.held = live_with(self.releases + self.maybe_releases)          # surely not yet released
        allrel = self.releases + self.maybe_releases
        self.released_after = cfg.reach_after(allrel, cut_blocks=[acq_block]) if allrel else set()

    def holds_at(self, b):
        """the guard is certainly held whenever control is in block b (block granularity; for the acquisition
        block itself callers compare positions)."""
        a = self.a
        if b not in self.held:
            return False
        ab, asi = self.acq
        if b != ab and not a.cfg.must_pass(b, via_blocks=[ab]):
            return False
        if b in self.released_after and b not in (self.releases + self.maybe_releases):
            return False
        return True


def guards(a, type_prefixes):
    """Guard objects for every guard value of `a` (locals whose type starts with one of the prefixes, defined once;
    locals that merely receive the guard by a plain move are folded into the chain of the original)."""
    cand = {}
    for l, ld in enumerate(a.body['locals']):
        ty = ld['ty']
        if not any(ty.startswith(p) for p in type_prefixes):
            continue
        ds = a.flow.defs.get(l, [])
        if len(ds) != 1 or ds[0][1] not in a.cfg.reach0:
            continue
        cand[l] = ds[0]
    # move edges between candidate locals
    src_of = {}
    for l, d in cand.items():
        if d[0] == 'assign':
            r = d[3]
            if r['k'] == 'use' and 'mv' in r['a'] and 'p' not in r['a']['mv'] and r['a']['mv']['l'] in cand:
                src_of[l] = r['a']['mv']['l']
    roots = [l for l in cand if l not in src_of]
    out = []
    for r0 in roots:
        chain = [r0]
        grow = True
        while grow:
            grow = False
            for l, s in src_of.items():
                if s in chain and l not in chain:
                    chain.append(l)
                    grow = True
        d = cand[r0]
        out.append(Guard(a, chain, d[1], cfgm.TERM if d[0] == 'call' else d[2]))
    return out


def guard_of_lock(a, gs, field):
    """guards whose lock expression mentions self.<field>"""
    from . import flow
    r = []
    for g in gs:
        e = a.flow.local(g.local)
        if flow.mentions(e, lambda z: (z[0] == 'field' and z[2] == field) or (z[0] == 'upvar' and z[1] == field)):
            r.append(g)
    return r
