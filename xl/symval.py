"""K8 formula extraction: path-sensitive symbolic evaluation of small integer computations.

Values are linear forms {atom: coeff} over atoms: 'n' (header.num_entries), 'R' (num_info_entry_following(header)),
1 (constant).  Branches on header.contains_verification() / header.contains_metadata_ext() fork the path condition
(V, E in {0,1}); every other branch is explored both ways without binding.  The result for a target operand is a table
{(V, E): linear form} (V/E = None when the path does not constrain them).  Used to check that sibling functions agree
on "how many 48-byte records follow a file header": n*(1+V) + E.
"""
from .core import strip_generics as sg
from . import flow

MAXPATHS = 4000


def lin_const(c):
    return {1: c} if c else {}


def lin_add(a, b, sign=1):
    out = dict(a)
    for k, v in b.items():
        out[k] = out.get(k, 0) + sign * v
        if out[k] == 0:
            del out[k]
    return out


def lin_mul(a, b):
    if set(a) <= {1}:
        c = a.get(1, 0)
        return {k: v * c for k, v in b.items() if v * c != 0}
    if set(b) <= {1}:
        c = b.get(1, 0)
        return {k: v * c for k, v in a.items() if v * c != 0}
    return None


def lin_div(a, b):
    if not (set(b) <= {1}) or not b.get(1):
        return None
    c = b[1]
    if all(v % c == 0 for v in a.values()):
        return {k: v // c for k, v in a.items()}
    return None


class Sym:
    def __init__(self, a, header_pred):
        """header_pred(expr) -> True if expr denotes the file header H whose num_entries / flags define the atoms"""
        self.a = a
        self.hp = header_pred

    def atom_of_call(self, e):
        if e[0] == 'call' and e[2] and self.hp(e[2][0]):
            nm = sg(e[1]).split('::')[-1]
            if nm == 'contains_verification':
                return 'V'
            if nm == 'contains_metadata_ext':
                return 'E'
            if nm == 'num_info_entry_following':
                return 'R'
            if nm == 'num_entries':
                return 'n'
        return None

    def lin_of_expr(self, e, env, cond):
        """linear form of a static expression tree (env overrides for locals)"""
        k = e[0]
        if k == 'const':
            return lin_const(e[1]) if isinstance(e[1], int) else None
        if k == 'sizeof':
            return lin_const(e[2]) if e[2] is not None else None
        if k == 'local':
            v = env.get(e[1])
            if isinstance(v, dict):
                return v
            return None
        if k == 'field' and e[2] == 'num_entries' and self.hp(e[1]):
            return {'n': 1}
        if k == 'field' and e[2] == '0' and e[1][0] == 'bin':
            return self.lin_of_expr(e[1], env, cond)
        if k == 'cast':
            return self.lin_of_expr(e[1], env, cond)
        if k == 'call':
            at = self.atom_of_call(e)
            if at == 'R':
                return {'R': 1}
            if at == 'n':
                return {'n': 1}
            if at in ('V', 'E'):
                if cond.get(at) is not None:
                    return lin_const(cond[at])
                return None
            nm = sg(e[1]).split('::')[-1]
            if nm in ('len',) and e[2] and e[2][0][0] == 'field' and e[2][0][2] in ('segments',) and self.hp(('field', e[2][0][1], 'metadata')):
                return {'n': 1}
            return None
        if k == 'bin':
            x, y = self.lin_of_expr(e[2], env, cond), self.lin_of_expr(e[3], env, cond)
            if x is None or y is None:
                return None
            op = e[1][:-1] if e[1] in ('AddO', 'SubO', 'MulO') else e[1]
            if op == 'Add':
                return lin_add(x, y)
            if op == 'Sub':
                return lin_add(x, y, -1)
            if op == 'Mul':
                return lin_mul(x, y)
            if op == 'Div':
                return lin_div(x, y)
            return None
        return None

    def eval_operand(self, o, env, cond):
        pl = o.get('cp') or o.get('mv')
        if pl is not None and 'p' not in pl and pl['l'] in env:
            v = env[pl['l']]
            return v if isinstance(v, dict) else None
        return self.lin_of_expr(self.a.flow.expr(o), env, cond)

    def bool_atom(self, o, env):
        """('V'|'E', polarity) if operand is (the negation of) a flag call result"""
        pl = o.get('cp') or o.get('mv')
        if pl is not None and 'p' not in pl and pl['l'] in env and isinstance(env[pl['l']], tuple):
            return env[pl['l']]
        e = self.a.flow.expr(o)
        neg = False
        while e[0] == 'un' and e[1] == 'Not':
            neg = not neg
            e = e[2]
        at = self.atom_of_call(e)
        if at in ('V', 'E'):
            return (at, not neg)
        return None

    def table(self, start_block, target_block, target_operand):
        """{(V,E): linear form or None} over all acyclic paths start_block ->* target_block"""
        a = self.a
        cfg = a.cfg
        back = set(cfg.back_edges())
        results = {}
        npaths = [0]

        def step_block(b, env, cond):
            env = dict(env)
            for s in a.blocks[b]['s']:
                d = s.get('d')
                if not d or 'p' in d:
                    continue
                r = s['r']
                val = None
                if r['k'] == 'use':
                    ba = self.bool_atom(r['a'], env)
                    val = ba if ba else self.eval_operand(r['a'], env, cond)
                elif r['k'] == 'cast':
                    val = self.eval_operand(r['a'], env, cond)
                elif r['k'] == 'bin':
                    x, y = self.eval_operand(r['a'], env, cond), self.eval_operand(r['b'], env, cond)
                    if x is not None and y is not None:
                        op = r['op'][:-1] if r['op'] in ('AddO', 'SubO', 'MulO') else r['op']
                        val = {'Add': lambda: lin_add(x, y), 'Sub': lambda: lin_add(x, y, -1), 'Mul': lambda: lin_mul(x, y), 'Div': lambda: lin_div(x, y)}.get(op, lambda: None)()
                        if r['op'] in ('AddO', 'SubO', 'MulO') and val is not None:
                            env[('ovf', d['l'])] = val
                elif r['k'] == 'un' and r['op'] == 'Not':
                    ba = self.bool_atom(r['a'], env)
                    val = (ba[0], not ba[1]) if ba else None
                if val is not None:
                    env[d['l']] = val
                else:
                    env.pop(d['l'], None)
            t = a.blocks[b]['t']
            if t['k'] == 'call' and 'p' not in t['d']:
                e = a.flow.call(t, b, 0)
                at = self.atom_of_call(e) if e[0] == 'call' else None
                if at in ('V', 'E'):
                    env[t['d']['l']] = (at, True)
                elif at in ('R', 'n'):
                    env[t['d']['l']] = {at: 1}
                else:
                    v = self.lin_of_expr(e, env, cond) if e[0] != 'call' else None
                    if v is not None:
                        env[t['d']['l']] = v
                    else:
                        env.pop(t['d']['l'], None)
            return env

        def dfs(b, env, cond, seen):
            if npaths[0] > MAXPATHS:
                return
            if b == target_block:
                # evaluate statements of the target block first (the operand may be computed there)
                env2 = step_block(b, env, cond) if target_operand is not None else env
                v = self.eval_operand(target_operand, env2, cond) if target_operand is not None else None
                key = (cond.get('V'), cond.get('E'))
                if key in results and results[key] != v:
                    results[key] = 'conflict'
                else:
                    results.setdefault(key, v)
                npaths[0] += 1
                return
            env = step_block(b, env, cond)
            t = a.blocks[b]['t']
            succs = [s for s in cfg.succ[b] if (b, s) not in back and s not in seen]
            if t['k'] == 'switch':
                ba = self.bool_atom(t['d'], env)
                if ba is not None:
                    at, pol = ba
                    for s in succs:
                        isfalse = any(str(v) == '0' and tgt == s for v, tgt in t['ts'])
                        val = (0 if pol else 1) if isfalse else (1 if pol else 0)
                        if cond.get(at) is not None and cond[at] != val:
                            continue
                        c2 = dict(cond)
                        c2[at] = val
                        dfs(s, env, c2, seen | {b})
                    return
            for s in succs:
                dfs(s, env, cond, seen | {b})

        dfs(start_block, {}, {}, set())
        return results


def expected_records(with_header=False, scale=1):
    """table of n*(1+V)+E (+1 with header), scaled"""
    out = {}
    for V in (0, 1):
        for E in (0, 1):
            lf = {'n': (1 + V) * scale}
            c = (E + (1 if with_header else 0)) * scale
            if c:
                lf[1] = c
            out[(V, E)] = lf
    return out


def table_matches(tab, exp):
    """every fully-constrained entry equals the expectation; partially constrained entries must agree with all completions"""
    if not tab:
        return False, 'no path reaches the site'
    for (V, E), lf in tab.items():
        if lf is None or lf == 'conflict':
            return False, 'cannot evaluate the count on the path with verification=%s metadata_ext=%s' % (V, E)
        for v in ((V,) if V is not None else (0, 1)):
            for e in ((E,) if E is not None else (0, 1)):
                if lf != exp[(v, e)]:
                    return False, 'with verification=%d, metadata_ext=%d the count is %s, expected %s' % (v, e, show_lin(lf), show_lin(exp[(v, e)]))
    # all four combinations covered
    for v in (0, 1):
        for e in (0, 1):
            if not any((V in (None, v)) and (E in (None, e)) for (V, E) in tab):
                return False, 'no path for verification=%d metadata_ext=%d' % (v, e)
    return True, ''


def show_lin(lf):
    if lf in (None, 'conflict'):
        return str(lf)
    parts = []
    for k in sorted(lf, key=str):
        parts.append('%d' % lf[k] if k == 1 else '%d*%s' % (lf[k], k))
    return ' + '.join(parts) or '0'
